"""C21 The data-location registry answers consistently with its history.

Clauses decided (streamflow/data/manager.py, streamflow/core/data.py):

R1 parallel maps (P12).  In every function of data/manager.py each update of `<node>.locations[d][n]` has its
   twin on `<node>.valid_paths[d][n]` (same node, same deployment/name keys) and both are executed together:
   append(L) <-> add(L.path); `del` <-> `del`; `L.data_type = INVALID` (L iterated from locations[d][n]) <->
   `valid_paths[d][n].discard(L.path)`.  Uninterpretable mutations of the two maps are an analysis error.
R2 INVALID never escapes (P8).  Every concrete `get_data_locations` returns a comprehension over the mapper's
   answer filtered by `data_type != DataType.INVALID`; `.data_type` is stored only in data/manager.py and
   `DataLocation.__init__`; `DataType.INVALID` is referenced only in data/manager.py; the `path_mapper` is
   used only by DefaultDataManager.
R3 invalidation scope.  `_RemotePathMapper.invalidate_location` walks to the node of `path`, sweeps only the
   list stored under (location.deployment, location.name), and recurses into *every* child, only for the data
   locations stored under the same (deployment, name), passing that data location's own location and path.
R4 source selection.  Every non-None value handed out by `get_source_location` is a loop variable `loc` that, in that
   very iteration, is preceded by `await loc.available.wait()` and then by the test `loc.data_type == DataType.PRIMARY`
   (any spelling / operand order, guard clause or nesting).  The value is followed through temporaries (every definition
   reaching the return: plain assignments, walrus, `found = loc; break` ... `return found`; None definitions are not
   locations) and through `await <helper>(...)`: the resolved call is followed (nesting bound 2) and every non-None
   return of the helper is vetted the same way, once per helper, reported in the helper; the helper must be a coroutine.
   Anything else that is returned (a conditional expression, a parameter, a subscript, an unresolved call) is an analysis error.
R5 re-registration.  `put` appends a location exactly when its path is absent from `valid_paths[d][n]` (not
   `locations`), so an invalidated path becomes available again; its early `break` at a valid ancestor is
   paired with a bottom-up (`reversed`) sweep and ancestor i is named by path components [0..i];
   `register_path` registers recursively (ancestors) and `register_relation` cross-registers both directions.
R6 invalidation touches only the invalidated path: the INVALID mark is guarded by `data_loc.path == path`
   (the list at a node also holds the *related* locations cross-registered by `register_relation`).
R7 `_RemotePathMapper.get` filters: entries come from `locations[dep][name]` with dep/name restricted to the
   arguments when given, and an entry is kept iff `data_type is None or loc.data_type == data_type`
   (truth table, P10); `get_data_locations` forwards its four arguments to the matching parameters of `get`.
   Every enumeration of `locations[dep][name]` is interpreted, whatever its syntax: a comprehension clause (the
   key loops may be statement loops around it or earlier clauses of the same comprehension), a statement loop
   that appends its variable (its body is walked on the CFG under every valuation; boolean temporaries are
   followed), or a whole list handed over (`extend`, `+=`, `return`).  A key is bound by `[arg] if arg is not None
   else <all keys>` (conditional expression, through temporaries, or the same choice written as if/else
   assignments; either polarity; `.keys()` / copies accepted), by `[arg]` / the argument itself (answers only
   when the argument is given) or by a plain sweep (must not answer when the argument is given).  The table is
   over four facts (data_type given, entry type equal, deployment given, name given): for every valuation an
   entry of the addressed list is answered exactly once when wanted and not at all otherwise.  Tests that
   cannot be expressed over these facts (e.g. a test on the key inside the sweep) are an analysis error.

R8 mount points are matched longest-first.  `get_inner_path` (streamflow/data/remotepath.py) translates a path on a wrapping
   location into the wrapped location's path through the first mount point the path is relative to; register_path and
   transfer_data register / relate the copy on the wrapped location under that translation.  Every selection of a mount point
   out of an enumeration of `<location>.mounts` is interpreted: a statement loop that stops at its first match must run in
   descending order (a strict extension of a string is both greater and longer, so descending lexicographic order and
   descending length try /data/cache before /data), a loop that keeps its last match in ascending order, `next(...)` needs a
   descending generator, `max(<matching>, key=len)` is accepted, `min` is not.  The order is read through `sorted(..,
   reverse=, key=len | lambda | named function)`, `reversed`, `[::-1]`, copies, filtered comprehensions, temporaries,
   `.sort()` / `.reverse()` in place, `.keys()` / `.items()` (the order must be taken on the component that is tested), helper
   functions (resolved calls, nesting bound 2) and the parameter of a private helper (all call sites).  When the selection
   moved out of get_inner_path the same-module functions it calls are searched (bound 2).
R9 ancestors are created available.  Every `DataLocation(...)` that `_RemotePathMapper.put` constructs itself (in put or in a
   private helper of data/manager.py it calls, bound 2) receives the constant True for `available` (keyword or positional,
   through temporaries, both arms of a conditional expression, or the parameter of a private helper at all its call sites);
   relying on the default (False) is a violation.  Nobody sets the event of a location put created: register_path calls put
   before it sets the event of the caller's own location, so an ancestor that copies that state is never available.

Not decided: agreement with a reference model for arbitrary histories (needs execution); that `get_inner_path` tests the prefix
relation correctly (`is_relative_to`) and that the mount table itself is right; `_get_outer_path` (the inverse translation,
used by glob/walk, not by the registry) is not examined by C21.
"""

from __future__ import annotations

import ast
import itertools

from ..dataflow import _param_args, defs_of, reaching_defs
from ..facts import atoms as fact_atoms
from ..model import enclosing_stmt, parent, unparse
from ..selftest import V
from ._util_E import (
    coexec,
    deref,
    effective_arg,
    enclosing_loops,
    guard_atoms,
    ids_at,
    is_self_attr,
    ktext,
    loop_binding,
    loops_of,
    membership_atom,
    signature_default,
    strip_copy,
)

MOD = "streamflow.data.manager"
FILE = "streamflow/data/manager.py"
NODE = f"{MOD}._RemotePathNode"
MAPPER = f"{MOD}._RemotePathMapper"
MGR = f"{MOD}.DefaultDataManager"
DM = "streamflow.core.data.DataManager"
DATATYPE = "streamflow.core.data.DataType"
DLOC = "streamflow.core.data.DataLocation"
NODE_ATTRS = ("locations", "valid_paths")

META = {
    "explanation": (
        "Pairing of the two parallel per-node maps of _RemotePathMapper (locations / valid_paths) by node, key path and "
        "value expression with a CFG 'executed together' relation; whole-program write/reference tables for data_type, "
        "DataType.INVALID and path_mapper; shape of the invalidation recursion; dominance of wait + PRIMARY test over "
        "every returned source location (through temporaries and awaited helper coroutines, resolved calls followed); guard of the append in put; truth table of the get() filter over every enumeration of "
        "locations[dep][name] (comprehension clauses, statement loops with append, whole lists); order of the enumeration of `<location>.mounts` against the way get_inner_path "
        "selects a mount point (first / last match, next, max); constant-True `available` argument of every DataLocation that put constructs itself (helpers followed). "
        "Decides necessary structural conditions only."
    ),
    "undecided": "agreement with a reference model for arbitrary registration/relation/invalidation histories (needs execution)",
    "assumptions": [
        "dict/list/set semantics",
        "`.locations` / `.valid_paths` attributes inside data/manager.py denote _RemotePathNode fields",
        "DataManager implementations loaded through plugins are not analysed",
    ],
}


# --------------------------------------------------------------------------- extraction


def keypath(f, e):
    """`X.locations[d][n]`, `X.locations.get(d, {}).get(n, [])`, `X.valid_paths.setdefault(d, {}).setdefault(n, set())`
    -> (X text, attr, (d text, n text)); None when e is not rooted in a node map."""
    keys = []
    e = deref(f, e)
    for _ in range(8):
        if isinstance(e, ast.Subscript):
            keys.append(ktext(f, e.slice))
            e = deref(f, e.value)
        elif isinstance(e, ast.Call) and isinstance(e.func, ast.Attribute) and e.func.attr in ("get", "setdefault") and e.args:
            keys.append(ktext(f, e.args[0]))
            e = deref(f, e.func.value)
        elif isinstance(e, ast.Attribute) and e.attr in NODE_ATTRS:
            return ktext(f, e.value), e.attr, tuple(reversed(keys))
        else:
            return None
    return None


def is_invalid(prog, f, e) -> bool:
    return isinstance(e, ast.Attribute) and e.attr == "INVALID" and prog.resolve_expr(f.module, e.value) == DATATYPE


def is_member(prog, f, e, member) -> bool:
    return isinstance(e, ast.Attribute) and e.attr == member and prog.resolve_expr(f.module, e.value) == DATATYPE


def state_atom(prog, f, e, truth, member, var=None):
    """What the atom `e` (known to evaluate to `truth`) says about `<var>.data_type` and DataType.<member>:
    True = equal, False = different, None = the atom is not such a test.  Independent of the spelling: either operand
    order, `==`/`is`/`!=`/`is not`, `not (...)`, the data_type (or the member) read through a temporary; `var=None`
    accepts the data_type of any object."""
    for a, val in fact_atoms(e, truth):
        if not (isinstance(a, ast.Compare) and len(a.ops) == 1 and isinstance(a.ops[0], (ast.Eq, ast.Is))):
            continue
        l, r = a.left, a.comparators[0]
        for x, y in ((l, r), (r, l)):
            x, y = deref(f, x), deref(f, y)
            if isinstance(x, ast.Attribute) and x.attr == "data_type" and is_member(prog, f, y, member) \
                    and (var is None or ktext(f, x) == f"{var}.data_type"):
                return val
    return None


class Op:
    __slots__ = ("kind", "base", "attr", "keys", "val", "node", "ids")

    def __init__(self, kind, base, attr, keys, val, node, ids):
        self.kind, self.base, self.attr, self.keys, self.val, self.node, self.ids = kind, base, attr, keys, val, node, ids

    def __repr__(self):
        return f"{self.kind}:{self.base}.{self.attr}{list(self.keys)}:{self.val}"


LIST_ADD = {"append"}
SET_ADD = {"add"}
REMOVERS = {"discard", "remove"}
READS = {"get", "setdefault", "keys", "values", "items", "copy", "__contains__", "index", "count", "union", "difference", "intersection"}


def extract_ops(prog, f):
    ops, unknown = [], []

    def mk(kind, kp, val, node):
        ops.append(Op(kind, kp[0], kp[1], kp[2], val, node, ids_at(f, node)))

    for n in f.body_nodes():
        if isinstance(n, ast.Call) and isinstance(n.func, ast.Attribute):
            meth = n.func.attr
            kp = keypath(f, n.func.value)
            if kp is None:
                continue
            depth = len(kp[2])
            if depth == 2 and kp[1] == "locations" and meth in LIST_ADD and len(n.args) == 1:
                mk("add", kp, ktext(f, n.args[0]), n)
            elif depth == 2 and kp[1] == "valid_paths" and meth in SET_ADD and len(n.args) == 1:
                mk("add", kp, ktext(f, n.args[0]), n)
            elif depth == 2 and meth in REMOVERS and len(n.args) == 1:
                mk("rem", kp, ktext(f, n.args[0]), n)
            elif depth == 1 and meth == "pop" and n.args:
                mk("del", (kp[0], kp[1], kp[2] + (ktext(f, n.args[0]),)), None, n)
            elif meth in READS:
                # a bare setdefault/get chain used as a statement or receiver is not an update of the pair
                continue
            else:
                unknown.append(n)
        elif isinstance(n, ast.Delete):
            for t in n.targets:
                kp = keypath(f, t) if isinstance(t, ast.Subscript) else None
                if kp is not None:
                    if len(kp[2]) == 2:
                        mk("del", kp, None, n)
                    else:
                        unknown.append(n)
        elif isinstance(n, (ast.Assign, ast.AnnAssign, ast.AugAssign)):
            tgts = n.targets if isinstance(n, ast.Assign) else [n.target]
            for t in tgts:
                if isinstance(t, ast.Attribute) and t.attr == "data_type" and isinstance(n, (ast.Assign, ast.AnnAssign)) and n.value is not None and is_invalid(prog, f, n.value):
                    ops.append(Op("invalid", ktext(f, t.value), "data_type", (), None, n, ids_at(f, n)))
                    continue
                if isinstance(t, ast.Subscript):
                    kp = keypath(f, t)
                    if kp is not None:
                        unknown.append(n)
                elif isinstance(t, ast.Attribute) and t.attr in NODE_ATTRS:
                    init_ok = f.name == "__init__" and f.cls is not None and f.cls.qualname == NODE and isinstance(t.value, ast.Name) and t.value.id == "self"
                    if not init_ok:
                        unknown.append(n)
    return ops, unknown


def manager_funcs(prog):
    m = prog.module(MOD)
    return [f for f in prog.all_funcs() if f.module is m]


def loop_over_locations(f, name, node, loops):
    """`name` is bound (at `node`) by a loop whose iterable is X.locations[d][n] -> (X, (d, n), Loop) or None."""
    lb = loop_binding(f, name, node, loops)
    if lb is None or lb[1] is not None:
        return None
    it, _ = strip_copy(f, lb[0].iter)
    kp = keypath(f, it)
    if kp is None or kp[1] != "locations" or len(kp[2]) != 2:
        return None
    return kp[0], kp[2], lb[0]


# --------------------------------------------------------------------------- R1


def r1(ctx):
    prog = ctx.prog
    n_ops = 0
    for f in manager_funcs(prog):
        ops, unknown = extract_ops(prog, f)
        for u in unknown:
            ctx.require(False, f"C21.R1: {f.qualname}: `{unparse(u)[:80]}` updates locations/valid_paths in a way the pairing rule cannot interpret")
        if not ops:
            continue
        g = f.cfg
        loops = loops_of(f)
        for o in ops:
            ctx.require(bool(o.ids), f"C21.R1: {f.qualname}: no CFG node for `{unparse(o.node)[:60]}`")
            here = f"`{' '.join(unparse(enclosing_stmt(o.node)).split())[:80]}`"
            inst = f"{f.name}:{o.kind}:{o.base}.{o.attr}[{']['.join(o.keys)}]:{o.val}"
            n_ops += 1
            if o.kind == "add" and o.attr == "locations":
                ok = any(p.kind == "add" and p.attr == "valid_paths" and p.base == o.base and p.keys == o.keys and p.val == f"{o.val}.path" and coexec(g, o.ids, p.ids) for p in ops)
                ctx.ob("R1", f"{f.name}: {here} is paired with valid_paths[...].add({o.val}.path)", ok, func=f, node=o.node, instance=inst,
                       message=f"{here}: the location is stored but its path is not added to {o.base}.valid_paths[{']['.join(o.keys)}] on the same paths: the path is registered and reported unknown to put()")
            elif o.kind == "add" and o.attr == "valid_paths":
                ok = any(p.kind == "add" and p.attr == "locations" and p.base == o.base and p.keys == o.keys and o.val == f"{p.val}.path" and coexec(g, o.ids, p.ids) for p in ops)
                ctx.ob("R1", f"{f.name}: {here} is paired with the append of the location itself", ok, func=f, node=o.node, instance=inst,
                       message=f"{here}: a path is marked valid without a data location stored under the same node and keys")
            elif o.kind == "del":
                twin = "valid_paths" if o.attr == "locations" else "locations"
                ok = any(p.kind == "del" and p.attr == twin and p.base == o.base and p.keys == o.keys and coexec(g, o.ids, p.ids) for p in ops)
                ctx.ob("R1", f"{f.name}: {here} is paired with the deletion in {twin}", ok, func=f, node=o.node, instance=inst,
                       message=f"{here}: the entry is deleted from `{o.attr}` only; `{twin}` keeps answering for the removed location")
            elif o.kind == "invalid":
                src = loop_over_locations(f, o.base, o.node, loops) if o.base.isidentifier() else None
                ok = src is not None and any(
                    p.kind == "rem" and p.attr == "valid_paths" and p.base == src[0] and p.keys == src[1] and p.val == f"{o.base}.path" and coexec(g, o.ids, p.ids) for p in ops
                )
                ctx.ob("R1", f"{f.name}: {here} is paired with valid_paths[...].discard({o.base}.path)", ok, func=f, node=o.node, instance=inst,
                       message=f"{here}: the location is invalidated but its path stays in valid_paths: put() will refuse to re-register it")
            elif o.kind == "rem" and o.attr == "valid_paths":
                ok = False
                for p in ops:
                    if p.kind == "invalid" and o.val == f"{p.base}.path" and coexec(g, o.ids, p.ids):
                        src = loop_over_locations(f, p.base, p.node, loops) if p.base.isidentifier() else None
                        ok = ok or (src is not None and src[0] == o.base and src[1] == o.keys)
                    if p.kind == "rem" and p.attr == "locations" and p.base == o.base and p.keys == o.keys and coexec(g, o.ids, p.ids):
                        ok = True
                ctx.ob("R1", f"{f.name}: {here} is paired with the INVALID mark (or removal) of that location", ok, func=f, node=o.node, instance=inst,
                       message=f"{here}: a path is dropped from valid_paths while its data location stays valid in `locations`: re-registration duplicates it")
            elif o.kind == "rem" and o.attr == "locations":
                ok = any(p.kind == "rem" and p.attr == "valid_paths" and p.base == o.base and p.keys == o.keys and coexec(g, o.ids, p.ids) for p in ops)
                ctx.ob("R1", f"{f.name}: {here} is paired with the removal of its path from valid_paths", ok, func=f, node=o.node, instance=inst)
    ctx.require(n_ops >= 4, f"C21.R1: only {n_ops} updates of locations/valid_paths found")
    init = prog.func(f"{NODE}.__init__")
    made = {t.attr for n in init.body_nodes() if isinstance(n, (ast.Assign, ast.AnnAssign)) for t in (n.targets if isinstance(n, ast.Assign) else [n.target])
            if isinstance(t, ast.Attribute) and t.attr in NODE_ATTRS}
    ctx.ob("R1", "_RemotePathNode.__init__ creates both maps", made == set(NODE_ATTRS), func=init, node=init.node, instance="node:init")


# --------------------------------------------------------------------------- R2


def _invalid_filter(prog, f, comp: ast.ListComp) -> bool:
    if len(comp.generators) != 1:
        return False
    gen = comp.generators[0]
    if not (isinstance(gen.target, ast.Name) and isinstance(comp.elt, ast.Name) and comp.elt.id == gen.target.id):
        return False
    v = gen.target.id
    from ._util_E import split_atoms

    for cond in gen.ifs:
        for e, truth in split_atoms(cond, True):
            if isinstance(e, ast.Compare) and len(e.ops) == 1:
                l, r = e.left, e.comparators[0]
                for a, b in ((l, r), (r, l)):
                    if isinstance(a, ast.Attribute) and a.attr == "data_type" and isinstance(a.value, ast.Name) and a.value.id == v and is_invalid(prog, f, b):
                        if (isinstance(e.ops[0], (ast.NotEq, ast.IsNot)) and truth) or (isinstance(e.ops[0], (ast.Eq, ast.Is)) and not truth):
                            return True
    return False


def r2(ctx):
    prog = ctx.prog
    impls = prog.concrete_impls(DM, "get_data_locations")
    ctx.require(any(f.qualname == f"{MGR}.get_data_locations" for f in impls), "C21.R2: DefaultDataManager.get_data_locations vanished")
    for f in impls:
        rets = [n for n in f.body_nodes() if isinstance(n, ast.Return)]
        ctx.require(bool(rets), f"C21.R2: {f.qualname} has no return")
        for r in rets:
            val = deref(f, r.value) if r.value is not None else None
            ok = False
            if isinstance(val, ast.ListComp):
                it = deref(f, val.generators[0].iter)
                from_mapper = isinstance(it, ast.Call) and any(q == f"{MAPPER}.get" for q in prog.resolve_call(f, it))
                ok = from_mapper and _invalid_filter(prog, f, val)
            elif isinstance(val, (ast.List, ast.Tuple)) and not val.elts:
                ok = True
            else:
                ctx.require(val is not None and not isinstance(val, ast.Constant), f"C21.R2: {f.qualname} returns `{unparse(r)}`")
                ctx.require(isinstance(val, ast.ListComp), f"C21.R2: {f.qualname}: cannot interpret the returned expression `{unparse(val)[:80]}` (expected a filtered comprehension)")
            ctx.ob("R2", f"{f.qualname.rsplit('.', 2)[-2]}.get_data_locations filters out DataType.INVALID locations", ok, func=f, node=r,
                   instance="get_data_locations:filter",
                   message="get_data_locations hands out locations marked INVALID (or bypasses the path mapper): an invalidated path is reported as available")
    # write table of data_type / reference table of INVALID / users of path_mapper
    stores, invalid_refs, pm_users = {}, {}, {}
    for m in prog.modules.values():
        src = m.source
        if "data_type" not in src and "INVALID" not in src and "path_mapper" not in src and "_RemotePathMapper" not in src:
            continue
        if m.relpath.startswith("streamflow/cwl/antlr/"):
            continue
        for n in ast.walk(m.tree):
            if isinstance(n, ast.Attribute):
                fn = prog.enclosing_func(n)
                owner = fn.qualname if fn else m.name
                if n.attr == "data_type" and isinstance(n.ctx, (ast.Store, ast.Del)):
                    stores.setdefault(owner, []).append((m, fn, n))
                elif n.attr == "INVALID" and prog.resolve_expr(m, n.value) == DATATYPE:
                    invalid_refs.setdefault(owner, []).append((m, fn, n))
                elif n.attr == "path_mapper":
                    pm_users.setdefault(owner, []).append((m, fn, n))
            elif isinstance(n, ast.Call) and isinstance(n.func, ast.Name) and n.func.id in ("setattr", "getattr") and len(n.args) >= 2 and isinstance(n.args[1], ast.Constant) and n.args[1].value in ("data_type", "path_mapper"):
                fn = prog.enclosing_func(n)
                owner = fn.qualname if fn else m.name
                (stores if n.args[1].value == "data_type" else pm_users).setdefault(owner, []).append((m, fn, n))
    ctx.require(len(stores) >= 2, "C21.R2: stores to .data_type not found (DataLocation.__init__, invalidate_location expected)")
    for owner, hits in sorted(stores.items()):
        m, fn, n = hits[0]
        ok = m.name == MOD or owner == f"{DLOC}.__init__"
        ctx.ob("R2", f"{owner} may assign DataLocation.data_type", ok, func=fn, qualname=owner, node=n, instance=f"{owner}:data_type-store",
               message=f"{owner} assigns `.data_type` outside the data manager: the INVALID/valid_paths pairing and the INVALID filter can be bypassed")
    ctx.require(len(invalid_refs) >= 1, "C21.R2: references to DataType.INVALID not found")
    for owner, hits in sorted(invalid_refs.items()):
        m, fn, n = hits[0]
        ctx.ob("R2", f"{owner} refers to DataType.INVALID inside the data manager", m.name == MOD, func=fn, qualname=owner, node=n, instance=f"{owner}:INVALID-ref",
               message=f"{owner} uses DataType.INVALID outside data/manager.py")
    ctx.require(len(pm_users) >= 4, "C21.R2: users of path_mapper not found")
    for owner, hits in sorted(pm_users.items()):
        m, fn, n = hits[0]
        ok = fn is not None and fn.cls is not None and fn.cls.qualname == MGR
        ctx.ob("R2", f"{owner} uses the path mapper from inside DefaultDataManager", ok, func=fn, qualname=owner, node=n, instance=f"{owner}:path_mapper",
               message=f"{owner} reaches into `path_mapper` from outside DefaultDataManager: its answers are not filtered for INVALID")


# --------------------------------------------------------------------------- R3 / R6


def r3(ctx):
    prog = ctx.prog
    f = prog.func(f"{MAPPER}.invalidate_location")
    params = [p for p in f.params if p != "self"]
    ctx.require(len(params) == 2, "C21.R3: invalidate_location(location, path) signature changed")
    ploc, ppath = params
    g = f.cfg
    loops = loops_of(f)
    stmt_loops = [lp for lp in loops if not lp.is_comp]
    scoped = (f"{ploc}.deployment", f"{ploc}.name")
    # navigation to the node of `path`
    nav = None
    for lp in stmt_loops:
        if any(isinstance(x, ast.Name) and x.id == ppath for x in ast.walk(lp.iter)) and isinstance(lp.target, ast.Name):
            for n in ast.walk(lp.node):
                if isinstance(n, ast.Assign) and len(n.targets) == 1 and isinstance(n.targets[0], ast.Name) and isinstance(n.value, ast.Subscript) \
                        and isinstance(n.value.value, ast.Attribute) and n.value.value.attr == "children" and unparse(n.value.value.value) == n.targets[0].id \
                        and ktext(f, n.value.slice) == lp.target.id:
                    nav = n.targets[0].id
    ctx.ob("R3", "invalidate_location descends to the node of `path` component by component", nav is not None, func=f, node=f.node, instance="invalidate:navigate",
           message="the walk `for token in Path(path).parts: node = node.children[token]` is gone: a different node is invalidated")
    # loops over locations lists
    loc_loops = []
    for lp in stmt_loops:
        it, _ = strip_copy(f, lp.iter)
        kp = keypath(f, it)
        if kp and kp[1] == "locations":
            loc_loops.append((lp, kp))
    ctx.require(len(loc_loops) >= 1, "C21.R3: no loop over node.locations[...] found in invalidate_location")
    for lp, kp in loc_loops:
        ctx.ob("R3", f"the sweep over {kp[0]}.locations is restricted to ({ploc}.deployment, {ploc}.name)", kp[2] == scoped, func=f, node=lp.node,
               instance=f"invalidate:scope:{kp[0]}",
               message=f"`for ... in {unparse(lp.iter)[:70]}` is keyed by {list(kp[2])}, not by the invalidated location's deployment and name: other locations are invalidated / missed")
    # recursion
    rec = [c for c in f.calls() if any(q == f.qualname for q in prog.resolve_call(f, c))]
    ctx.ob("R3", "invalidate_location recurses into the children of the invalidated node", len(rec) >= 1, func=f, node=f.node, instance="invalidate:rec:present",
           message="invalidate_location no longer calls itself for the children: paths registered beneath the invalidated path stay available")
    child_loops = []
    for lp in stmt_loops:
        it, _ = strip_copy(f, lp.iter)
        if isinstance(it, ast.Call) and isinstance(it.func, ast.Attribute) and it.func.attr in ("values", "items") and isinstance(it.func.value, ast.Attribute) \
                and it.func.value.attr == "children":
            child_loops.append((lp, unparse(it.func.value.value), it.func.attr))
    for c in rec:
        encl = enclosing_loops(f, c, loops)
        ll = next(((lp, kp) for lp, kp in loc_loops if lp in encl), None)
        cl = next((x for x in child_loops if x[0] in encl), None)
        ok_scope = ll is not None and ll[1][2] == scoped
        child_var = None
        if cl is not None:
            t = cl[0].target
            child_var = t.id if isinstance(t, ast.Name) and cl[2] == "values" else (t.elts[1].id if isinstance(t, ast.Tuple) and len(t.elts) == 2 and isinstance(t.elts[1], ast.Name) else None)
        ok_child = cl is not None and nav is not None and cl[1] == nav and ll is not None and ll[1][0] == child_var
        args = list(c.args) + [None, None]
        a_loc = next((k.value for k in c.keywords if k.arg == ploc), args[0])
        a_path = next((k.value for k in c.keywords if k.arg == ppath), args[1])
        v = ll[0].target.id if ll is not None and isinstance(ll[0].target, ast.Name) else None
        ok_args = v is not None and a_loc is not None and a_path is not None and ktext(f, a_loc) in (ploc, f"{v}.location") and ktext(f, a_path) == f"{v}.path"
        # the recursion is reached in every child iteration for every listed location that is not yet INVALID
        ctx.ob("R3", "the recursion visits only data locations stored under the invalidated (deployment, name)", ok_scope, func=f, node=c, instance="invalidate:rec:scope",
               message="the descent into children is not filtered by the invalidated location's deployment and name: paths on other locations are invalidated")
        ctx.ob("R3", "the recursion runs over every child of the invalidated node", ok_child, func=f, node=c, instance="invalidate:rec:children",
               message="the recursion does not iterate `node.children.values()` of the invalidated node: paths beneath it stay available")
        ctx.ob("R3", "the recursive call passes the child data location's own location and path", ok_args, func=f, node=c, instance="invalidate:rec:args",
               message=f"recursive call `{unparse(c)[:80]}` does not pass (<loc>.location | {ploc}, <loc>.path)")
        # only a guard on the INVALID state may suppress the recursion
        cids = ids_at(f, c)
        extra = []
        for nid in cids:
            for e, truth, tid in guard_atoms(g, nid):
                tn = g.nodes[tid]
                if ll is not None and not any(x is tn.ast for x in ast.walk(ll[0].node)):
                    continue
                if state_atom(prog, f, e, truth, "INVALID", v) is False:
                    continue
                extra.append(unparse(e))
        ctx.ob("R3", "inside the sweep, only the already-INVALID test may skip a child location", not extra, func=f, node=c, instance="invalidate:rec:guard",
               message=f"the recursion is additionally guarded by {extra}: some registered child paths are not invalidated")


def r6(ctx):
    prog = ctx.prog
    f = prog.func(f"{MAPPER}.invalidate_location")
    params = [p for p in f.params if p != "self"]
    ctx.require(len(params) == 2, "C21.R6: invalidate_location(location, path) signature changed")
    ppath = params[1]
    g = f.cfg
    ops, _ = extract_ops(prog, f)
    marks = [o for o in ops if o.kind == "invalid"]
    if not marks:
        ctx.ob("R6", "invalidate_location marks the data locations of the invalidated path INVALID", False, func=f, node=f.node, instance="invalidate_location:mark",
               message="invalidate_location no longer assigns DataType.INVALID to anything: an invalidated path stays available")
    for o in marks:
        guarded = False
        for nid in o.ids:
            for e, truth, _t in guard_atoms(g, nid):
                if isinstance(e, ast.Compare) and len(e.ops) == 1:
                    l, r = e.left, e.comparators[0]
                    for a, b in ((l, r), (r, l)):
                        if ktext(f, a) == f"{o.base}.path" and any(isinstance(x, ast.Name) and x.id == ppath for x in ast.walk(deref(f, b))):
                            if (isinstance(e.ops[0], ast.Eq) and truth) or (isinstance(e.ops[0], ast.NotEq) and not truth):
                                guarded = True
        # or: the iterable itself is filtered by path
        lb = loop_binding(f, o.base, o.node, loops_of(f)) if o.base.isidentifier() else None
        if lb is not None:
            it = deref(f, lb[0].iter)
            if isinstance(it, (ast.ListComp, ast.GeneratorExp, ast.SetComp)):
                for gen in it.generators:
                    for cond0 in gen.ifs:
                        for cond, val in fact_atoms(cond0, True):
                            if val and isinstance(cond, ast.Compare) and isinstance(cond.ops[0], ast.Eq) and ppath in {x.id for x in ast.walk(cond) if isinstance(x, ast.Name)} \
                                    and any(isinstance(x, ast.Attribute) and x.attr == "path" for x in ast.walk(cond)):
                                guarded = True
        ctx.ob("R6", f"`{o.base}.data_type = DataType.INVALID` only for data locations whose own path is the invalidated path", guarded, func=f, node=o.node,
               instance="invalidate_location:collateral",
               message=("S12: every data location stored at the node is marked INVALID, including the *related* locations that register_relation cross-registered there "
                        f"(their `.path` differs from `{ppath}`): with /data/c and /data/d related on the same location, invalidating /data/d makes /data/c unavailable"),
               witness=[f"mark: {unparse(o.node)}", f"loop: for {o.base} in {unparse(lb[0].iter)[:120]}" if lb else "", f"no dominating test `{o.base}.path == {ppath}`"])


# --------------------------------------------------------------------------- R4


def _always_through(g, starts, targets, through, stop) -> bool:
    """Every path from a start node to a target node (not passing `stop`) passes a node of `through`."""
    for b in starts:
        if b in through:
            continue
        if b in targets:
            return False
        if g.path(b, targets, avoid=list(through) + list(stop)) is not None:
            return False
    return True


R4_INLINE = 2  # helpers followed from get_source_location (resolved calls), nesting bound
R4_CHAIN = 6  # temporaries followed from a returned name


def _r4_loop_var(ctx, prog, f, v, lp, at, via, st):
    """The three obligations of R4 for the loop variable `v` of statement loop `lp`, handed out at statement `at`
    (the `return v` itself, or the assignment through which `v` reaches a return)."""
    g = f.cfg
    bids = ids_at(f, lp.node)
    rids = ids_at(f, at)
    st["vetted"] = st.get("vetted", 0) + 1
    ctx.require(bool(bids) and bool(rids), f"C21.R4: no CFG node for `{unparse(at)[:60]}` / its loop in {f.qualname}")
    first = [b for i_ in bids for b, k in g.succ[i_] if k == "t"]
    waits = [n.id for n in g.nodes.values() if any(
        isinstance(a, ast.Await) and isinstance(a.value, ast.Call) and isinstance(a.value.func, ast.Attribute) and a.value.func.attr == "wait"
        and ktext(f, a.value.func.value) == f"{v}.available" for a in n.walk())]
    ok_wait = bool(waits) and _always_through(g, first, rids, waits, bids)
    text = " ".join(unparse(at).split())[:80]
    where = f"return in the loop over `{unparse(lp.iter)[:50]}`" + via
    ctx.ob("R4", f"{where}: `await {v}.available.wait()` precedes the return in the same iteration", ok_wait, func=f, node=at, instance=f"source:{unparse(lp.iter)}:wait",
           message=f"`{text}`{via} can be reached without awaiting `{v}.available.wait()`: a copy still being transferred is chosen as the source")
    tests = []
    for nid in rids:
        for e, truth, tid in guard_atoms(g, nid):
            if state_atom(prog, f, e, truth, "PRIMARY", v) is True:
                tests.append(tid)
    # the test belongs to this iteration (inside the loop)
    tests = [t for t in tests if any(x is g.nodes[t].ast for x in ast.walk(lp.node))]
    ctx.ob("R4", f"{where}: the returned location is tested `data_type == DataType.PRIMARY`", bool(tests), func=f, node=at, instance=f"source:{unparse(lp.iter)}:primary",
           message=f"`{text}`{via} is not guarded by `{v}.data_type == DataType.PRIMARY`: a location invalidated (or turned into a link) meanwhile is chosen as the source")
    ok_order = bool(tests) and bool(waits) and all(_always_through(g, first, [t], waits, bids) for t in tests)
    ctx.ob("R4", f"{where}: the PRIMARY test is evaluated after the wait", ok_order, func=f, node=at, instance=f"source:{unparse(lp.iter)}:order",
           message=f"data_type is tested before `available.wait()`{via}: an invalidation that happens while waiting is not noticed")


def _r4_value(ctx, prog, f, e, at, st, depth, chain, via):
    """Vet the expression `e`, evaluated at statement/expression `at` of `f`, as a value that get_source_location hands out:
    None | a loop variable (waited for, then tested PRIMARY, in that iteration) | a temporary holding such a value on every
    definition that reaches `at` | the awaited result of a program function whose every non-None return is vetted the same way."""
    if isinstance(e, ast.Constant) and e.value is None:
        return
    if isinstance(e, ast.NamedExpr):
        return _r4_value(ctx, prog, f, e.value, at, st, depth, chain, via)
    shown = " ".join(unparse(enclosing_stmt(at) or at).split())[:90]
    if isinstance(e, ast.Name):
        ctx.require(chain > 0, f"C21.R4: {f.qualname}: too many temporaries behind `{shown}`")
        # comprehension variables are scoped to their comprehension: they never reach a statement-level read
        ds = [d for d in reaching_defs(f, e.id, at) if d.kind != "comp"]
        ctx.require(bool(ds), f"C21.R4: {f.qualname}: no definition of `{e.id}` reaches `{shown}`")
        loops = [lp for lp in loops_of(f) if not lp.is_comp]
        for d in ds:
            if d.kind == "for" and d.index is None:
                lp = next((x for x in loops if x.node is d.stmt), None)
                inside = lp is not None and any(x is lp for x in enclosing_loops(f, at, loops))
                ctx.require(inside, f"C21.R4: {f.qualname}: `{e.id}` in `{shown}` is read outside the loop that binds it (expected `return <loop variable>` inside the loop)")
                _r4_loop_var(ctx, prog, f, e.id, lp, enclosing_stmt(at) or at, via, st)
            elif d.kind in ("assign", "walrus") and d.index is None and d.value is not None and d.stmt is not None:
                _r4_value(ctx, prog, f, d.value, d.stmt, st, depth, chain - 1, via)
            else:
                ctx.require(False, f"C21.R4: {f.qualname}: `{e.id}` in `{shown}` is not a loop variable nor a temporary holding one (defined by {d.kind})")
        return
    if isinstance(e, ast.Await) and isinstance(e.value, ast.Call):
        call = e.value
        qs = prog.resolve_call(f, call)
        helpers = [prog.functions.get(q) for q in qs]
        ctx.require(bool(helpers) and all(h is not None for h in helpers),
                    f"C21.R4: {f.qualname}: cannot interpret `{shown}`: `{unparse(call.func)}` does not resolve to a function of the program ({qs})")
        ctx.require(depth < R4_INLINE, f"C21.R4: {f.qualname}: helper nesting behind `{shown}` exceeds {R4_INLINE}")
        for h in helpers:
            ctx.ob("R4", f"{f.name}: `{shown}` hands out the awaited result of the coroutine {h.qualname} (resolved call followed; its returns are vetted there)", h.is_async,
                   func=f, node=at, instance=f"source:via:{h.name}:{' '.join(unparse(a) for a in call.args)}",
                   message=f"`{shown}` hands out the result of {h.qualname}, which is not a coroutine and therefore cannot have awaited `available.wait()`")
            if h.qualname in st["done"]:
                continue
            st["done"].add(h.qualname)
            _r4_returns(ctx, prog, h, st, depth + 1, f" (in {h.qualname}, followed from {f.qualname})")
        return
    ctx.require(False, f"C21.R4: cannot interpret `{shown}` in {f.qualname} (expected `return <loop variable>`, a temporary holding one, or `return await <helper>(...)`)")


def _r4_returns(ctx, prog, f, st, depth, via):
    rets = [n for n in f.body_nodes() if isinstance(n, ast.Return) and n.value is not None and not (isinstance(n.value, ast.Constant) and n.value.value is None)]
    for r in rets:
        _r4_value(ctx, prog, f, r.value, r, st, depth, R4_CHAIN, via)
    return rets


def r4(ctx):
    prog = ctx.prog
    f = prog.func(f"{MGR}.get_source_location")
    ctx.require(f.is_async, "C21.R4: get_source_location is no longer a coroutine")
    st = {"done": {f.qualname}}
    rets = _r4_returns(ctx, prog, f, st, 0, "")
    ctx.require(len(rets) >= 1, "C21.R4: get_source_location returns no location")
    ctx.require(st.get("vetted", 0) >= 1, "C21.R4: no wait / PRIMARY test obligation was established for any returned location")


# --------------------------------------------------------------------------- R5


def r5(ctx):
    prog = ctx.prog
    f = prog.func(f"{MAPPER}.put")
    g = f.cfg
    ops, _ = extract_ops(prog, f)
    apps = [o for o in ops if o.kind == "add" and o.attr == "locations"]
    ctx.require(len(apps) >= 1, "C21.R5: put no longer appends to node.locations")
    for o in apps:
        ok = False
        wrong_map = False
        for nid in o.ids:
            for e, truth, _t in guard_atoms(g, nid):
                m = membership_atom(e, truth)
                if not m:
                    continue
                kp = keypath(f, m[1])
                if kp is None:
                    continue
                if ktext(f, m[0]) == f"{o.val}.path" and kp[0] == o.base and kp[2] == o.keys and not m[2]:
                    if kp[1] == "valid_paths":
                        ok = True
                    else:
                        wrong_map = True
        ctx.ob("R5", f"put appends `{o.val}` exactly when {o.val}.path is absent from valid_paths[{']['.join(o.keys)}]", ok, func=f, node=o.node, instance="put:guard",
               message=("the append is guarded by membership in `locations` instead of `valid_paths`" if wrong_map else
                        "the append is not guarded by `<loc>.path not in node.valid_paths[dep][name]`") + ": an invalidated path cannot be re-registered (or every put duplicates the location)")
    # put: bottom-up sweep that may stop at the first valid ancestor; ancestor i is named by components [0..i]
    f = prog.func(f"{MAPPER}.put")
    loops = [lp for lp in loops_of(f) if not lp.is_comp]
    for o in apps:
        lp = next((x for x in enclosing_loops(f, o.node, loops)), None)
        ctx.require(lp is not None, "C21.R5: the append in put is not inside the hierarchy loop")
        has_break = any(isinstance(x, ast.Break) for x in ast.walk(lp.node))
        it = deref(f, lp.iter)
        rev = isinstance(it, ast.Call) and ((isinstance(it.func, ast.Name) and it.func.id == "reversed") or any(
            k.arg == "reverse" and isinstance(k.value, ast.Constant) and k.value.value is True for k in it.keywords))
        ctx.ob("R5", "put walks the hierarchy bottom-up when it stops at the first already valid ancestor", rev or not has_break, func=f, node=lp.node,
               instance="put:bottom-up",
               message=f"`for ... in {unparse(lp.iter)}` with `break` on a valid path runs top-down: the root is valid after the first registration, so nothing beneath it is ever registered again")
    pref = 0
    for lp in loops:
        it = deref(f, lp.iter)
        if not (isinstance(it, ast.Call) and isinstance(it.func, ast.Name) and it.func.id == "enumerate" and it.args and isinstance(lp.target, ast.Tuple) and len(lp.target.elts) == 2
                and isinstance(lp.target.elts[0], ast.Name)):
            continue
        idx = lp.target.elts[0].id
        seq = ktext(f, it.args[0].target) if isinstance(it.args[0], ast.NamedExpr) else ktext(f, it.args[0])
        start = next((k.value for k in it.keywords if k.arg == "start"), it.args[1] if len(it.args) > 1 else None)
        for x in ast.walk(lp.node):
            if isinstance(x, ast.Subscript) and isinstance(x.slice, ast.Slice) and ktext(f, x.value) == seq and x.slice.upper is not None:
                pref += 1
                up = x.slice.upper
                inclusive = (isinstance(up, ast.BinOp) and isinstance(up.op, ast.Add) and {unparse(up.left), unparse(up.right)} == {idx, "1"} and start is None) or (
                    isinstance(up, ast.Name) and up.id == idx and isinstance(start, ast.Constant) and start.value == 1)
                ok = inclusive and x.slice.lower is None and x.slice.step is None
                ctx.ob("R5", f"put names the node reached after component {idx} by components [0..{idx}]", ok, func=f, node=x, instance="put:prefix",
                       message=f"`{unparse(x)}` does not denote the first {idx}+1 components: ancestors are registered under the path of their parent / child")
    ctx.require(pref >= 1, "C21.R5: the prefix `parts[: i + 1]` used to name ancestor nodes was not found in put")
    # register_path registers ancestors, register_relation both directions
    f = prog.func(f"{MGR}.register_path")
    puts = [c for c in f.calls() if any(q == f"{MAPPER}.put" for q in prog.resolve_call(f, c))]
    ctx.require(len(puts) >= 1, "C21.R5: register_path no longer calls path_mapper.put")
    for i, c in enumerate(puts):
        rec = next((k.value for k in c.keywords if k.arg == "recursive"), c.args[2] if len(c.args) > 2 else None)
        ctx.ob("R5", f"register_path put #{i + 1} registers the ancestors too (recursive=True)", isinstance(rec, ast.Constant) and rec.value is True, func=f, node=c,
               instance=f"register_path:recursive:{i}", message="register_path does not register the ancestor directories: a parent of a registered path is reported as unknown")
    f = prog.func(f"{MGR}.register_relation")
    params = [p for p in f.params if p != "self"]
    ctx.require(len(params) == 2, "C21.R5: register_relation(src_location, dst_location) signature changed")
    puts = [c for c in f.calls() if any(q == f"{MAPPER}.put" for q in prog.resolve_call(f, c))]
    loops = loops_of(f)
    pairs = set()
    var = None
    for c in puts:
        a0 = next((k.value for k in c.keywords if k.arg == "path"), c.args[0] if c.args else None)
        a1 = next((k.value for k in c.keywords if k.arg == "data_location"), c.args[1] if len(c.args) > 1 else None)
        if a0 is None or a1 is None:
            continue
        pairs.add((ktext(f, a0), ktext(f, a1)))
        for x in (a1, a0.value if isinstance(a0, ast.Attribute) else a0):
            if isinstance(x, ast.Name) and loop_binding(f, x.id, c, loops):
                lb = loop_binding(f, x.id, c, loops)
                it = deref(f, lb[0].iter)
                if isinstance(it, ast.Call) and any(q == f"{MAPPER}.get" for q in prog.resolve_call(f, it)) and f"{params[0]}.path" in unparse(it):
                    var = x.id
    dst = params[1]
    ok = var is not None and {(f"{var}.path", dst), (f"{dst}.path", var)} <= pairs and len(puts) >= 2 and coexec(f.cfg, ids_at(f, puts[0]), ids_at(f, puts[1]))
    ctx.ob("R5", "register_relation cross-registers both directions for every location of the source path", ok, func=f, node=f.node, instance="register_relation:symmetric",
           message=f"register_relation puts {sorted(pairs)}: the relation is not registered in both directions (src path -> dst location and dst path -> src locations)")


# --------------------------------------------------------------------------- R7


def _none_test(t, param):
    """`param is not None` -> True (argument given), `param is None` -> False, anything else -> None."""
    if isinstance(t, ast.UnaryOp) and isinstance(t.op, ast.Not):
        r = _none_test(t.operand, param)
        return None if r is None else not r
    if isinstance(t, ast.Compare) and len(t.ops) == 1:
        l, r = t.left, t.comparators[0]
        for a, b in ((l, r), (r, l)):
            if isinstance(a, ast.Name) and a.id == param and isinstance(b, ast.Constant) and b.value is None:
                if isinstance(t.ops[0], (ast.IsNot, ast.NotEq)):
                    return True
                if isinstance(t.ops[0], (ast.Is, ast.Eq)):
                    return False
    return None


def _singleton(f, e, param) -> bool:
    e = deref(f, e)
    return isinstance(e, (ast.List, ast.Tuple, ast.Set)) and len(e.elts) == 1 and isinstance(e.elts[0], ast.Name) and e.elts[0].id == param


def _key_sweep(f, e, base, outer):
    """`e` enumerates every key of `<base>.locations` (outer == ()) / of `<base>.locations[dep]` (outer == (dep,)):
    the mapping itself, `.keys()` of it or a copy (`list(...)`, `sorted(...)`) of either."""
    e, _ = strip_copy(f, e)
    if isinstance(e, ast.Call) and isinstance(e.func, ast.Attribute) and e.func.attr == "keys" and not e.args:
        e = e.func.value
    kp = keypath(f, e)
    return kp is not None and kp[0] == base and kp[1] == "locations" and kp[2] == tuple(outer)


def cond_value(f, e):
    """The two values a condition chooses between -> (test, value if true, value if false) or None:
    `a if t else b` (through temporaries), or a local assigned exactly twice, in the two branches of one
    if/else or unconditionally and then again in an else-less `if` later in the same block."""
    use = e
    e = deref(f, e)
    if isinstance(e, ast.IfExp):
        return e.test, e.body, e.orelse
    if not isinstance(e, ast.Name):
        return None
    ds = defs_of(f, e.id)
    if len(ds) != 2 or not all(d.kind == "assign" and d.index is None and d.value is not None for d in ds):
        return None
    if isinstance(use, ast.Name) and use.id == e.id and len(reaching_defs(f, e.id, use)) != 2:
        return None
    (da, db) = ds
    pa, pb = parent(da.stmt), parent(db.stmt)

    def within(stmt, block):
        return any(x is stmt for x in block)

    if pa is pb and isinstance(pa, ast.If):
        if within(da.stmt, pa.body) and within(db.stmt, pa.orelse):
            return pa.test, da.value, db.value
        if within(db.stmt, pa.body) and within(da.stmt, pa.orelse):
            return pa.test, db.value, da.value
        return None
    for first, second, cond in ((da, db, pb), (db, da, pa)):
        if isinstance(cond, ast.If) and not cond.orelse and within(second.stmt, cond.body):
            owner = parent(cond)
            for fld in ("body", "orelse", "finalbody"):
                block = getattr(owner, fld, None)
                if isinstance(block, list) and within(cond, block) and within(first.stmt, block) \
                        and [x is first.stmt for x in block].index(True) < [x is cond for x in block].index(True):
                    return cond.test, second.value, first.value
    return None


def _binder(f, name, lp, loops):
    """Loop that binds `name` where the iterable of loop `lp` is evaluated -> (Loop, position) or None."""
    if lp.is_comp:
        comp = parent(lp.node)
        gens = list(comp.generators)
        i = next(k for k, x in enumerate(gens) if x is lp.node)
        for gen in reversed(gens[:i]):
            for cand in loops:
                if cand.node is gen and cand.binds(name) != -1:
                    return cand, cand.binds(name)
        return loop_binding(f, name, comp, loops)
    return loop_binding(f, name, lp.iter, loops)


# the filter of get is decided over four facts: was `data_type` / `deployment` / `name` given (not None), and
# does the entry's data_type equal the requested one
FACTS = ("equal", "given", "deployment given", "name given")
GIVEN = {"data_type": "given", "deployment": "deployment given", "name": "name given"}


def _atom(e, v):
    """Atomic condition of get's filter -> (fact, negated?) or None; `v` is the variable holding the entry."""
    for param, fact in GIVEN.items():
        r = _none_test(e, param)
        if r is not None:
            return fact, not r
    if isinstance(e, ast.Name) and e.id == "data_type":
        return "given", False
    if v is not None and isinstance(e, ast.Compare) and len(e.ops) == 1:
        sides = {unparse(e.left), unparse(e.comparators[0])}
        if sides == {f"{v}.data_type", "data_type"}:
            if isinstance(e.ops[0], (ast.Eq, ast.Is)):
                return "equal", False
            if isinstance(e.ops[0], (ast.NotEq, ast.IsNot)):
                return "equal", True
    return None


def _eval(e, v, env, local=None):
    """Truth of a boolean expression when the facts have the values `env` (and the boolean temporaries `local`);
    None = not interpretable."""
    if isinstance(e, ast.BoolOp):
        vs = [_eval(x, v, env, local) for x in e.values]
        if any(x is None for x in vs):
            return None
        return all(vs) if isinstance(e.op, ast.And) else any(vs)
    if isinstance(e, ast.UnaryOp) and isinstance(e.op, ast.Not):
        x = _eval(e.operand, v, env, local)
        return None if x is None else not x
    if isinstance(e, ast.Constant) and isinstance(e.value, bool):
        return e.value
    if isinstance(e, ast.Name) and local and e.id in local:
        return local[e.id]
    a = _atom(e, v)
    if a is not None:
        return env[a[0]] != a[1]
    return None


def _collects(n, v):
    """Statement-level node `n` hands the loop variable `v` itself to the answer: `<list>.append(v)`, `yield v`."""
    if isinstance(n, ast.Call) and isinstance(n.func, ast.Attribute) and n.func.attr == "append" and len(n.args) == 1 and not n.keywords:
        return isinstance(n.args[0], ast.Name) and n.args[0].id == v
    if isinstance(n, ast.Yield):
        return isinstance(n.value, ast.Name) and n.value.id == v
    return False


def _kept_by_body(ctx, f, lp, v, env):
    """Statement loop `for v in <entries>`: is the entry collected in an iteration in which the facts have the truth
    values `env`?  The loop body is walked along its normal edges, every test decided by `env`; boolean temporaries
    assigned on the way are followed."""
    g = f.cfg
    inside = {id(x) for x in ast.walk(lp.node)}
    heads = ids_at(f, lp.node)
    sinks = {nid for n in ast.walk(lp.node) if _collects(n, v) for nid in ids_at(f, n)}
    ctx.require(bool(sinks), f"C21.R7: the loop `for {v} in {unparse(lp.iter)[:60]}` of get collects nothing (`.append({v})` expected)")
    cur = [b for h in heads for b, k in g.succ[h] if k == "t"]
    ctx.require(len(cur) == 1, "C21.R7: cannot locate the body of the entry loop of get")
    nid = cur[0]
    local = {}
    for _ in range(200):
        if nid in sinks:
            return True
        if nid in heads:
            return False
        n = g.nodes[nid]
        ctx.require(n.ast is not None and id(n.ast) in inside and n.kind not in ("iter", "break", "return", "raise_stmt"),
                    f"C21.R7: cannot interpret `{n.text()[:60]}` inside the entry loop of get (only tests over data_type and the collection of the entry are understood)")
        if n.kind == "test":
            val = _eval(n.ast, v, env, local)
            ctx.require(val is not None, f"C21.R7: cannot interpret the test `{unparse(n.ast)[:80]}` that filters the entries of get")
            nxt = [b for b, k in g.succ[nid] if k == ("t" if val else "f")]
        else:
            if isinstance(n.ast, (ast.Assign, ast.AnnAssign)):
                tgts = n.ast.targets if isinstance(n.ast, ast.Assign) else [n.ast.target]
                for t in tgts:
                    for x in ast.walk(t):
                        if isinstance(x, ast.Name):
                            local.pop(x.id, None)
                if len(tgts) == 1 and isinstance(tgts[0], ast.Name) and n.ast.value is not None:
                    val = _eval(n.ast.value, v, env, local)
                    if val is not None:
                        local[tgts[0].id] = val
            nxt = [b for b, k in g.succ[nid] if k == "n"]
        ctx.require(len(nxt) == 1, f"C21.R7: cannot follow the entry loop of get past `{n.text()[:60]}`")
        nid = nxt[0]
    ctx.require(False, "C21.R7: the entry loop of get does not finish an iteration")


def r7(ctx):
    prog = ctx.prog
    f = prog.func(f"{MAPPER}.get")
    params = [p for p in f.params if p != "self"]
    ctx.require({"data_type", "deployment", "name"} <= set(params), "C21.R7: get(path, data_type, deployment, name) signature changed")
    g = f.cfg
    loops = loops_of(f)
    # what enumerates the entries stored under locations[dep][name]: comprehension clauses, statement loops, and whole
    # lists handed over at once (`result.extend(<list>)`, `result += <list>`, `return <list>`)
    entries = []
    for lp in loops:
        it, _ = strip_copy(f, lp.iter)
        kp = keypath(f, it)
        if kp is not None and kp[1] == "locations" and len(kp[2]) == 2:
            entries.append((lp, kp, lp.node if not lp.is_comp else parent(lp.node)))
    for n in f.body_nodes():
        whole = None
        if isinstance(n, ast.Call) and isinstance(n.func, ast.Attribute) and n.func.attr == "extend" and len(n.args) == 1:
            whole = n.args[0]
        elif isinstance(n, ast.AugAssign) and isinstance(n.op, ast.Add):
            whole = n.value
        elif isinstance(n, ast.Return) and n.value is not None:
            whole = n.value
        if whole is not None:
            kp = keypath(f, strip_copy(f, whole)[0])
            if kp is not None and kp[1] == "locations" and len(kp[2]) == 2:
                entries.append((None, kp, n))
    ctx.require(len(entries) >= 1, "C21.R7: the comprehension (or loop) over node.locations[dep][name] was not found in get")
    envs = [dict(zip(FACTS, vals)) for vals in itertools.product([False, True], repeat=len(FACTS))]
    kept_rows = [[] for _ in envs]
    shown = []
    for lp, kp, where in entries:
        v = None
        if lp is not None:
            v = lp.target.id if isinstance(lp.target, ast.Name) else None
            ctx.require(v is not None, f"C21.R7: cannot interpret the target of `for {unparse(lp.target)} in {unparse(lp.iter)[:60]}` in get")
        # where the keys come from: `cond` = [argument] when given else every key; `only` = the argument alone (nothing is
        # stored under the key None, so such an enumeration answers only when the argument is given); `sweep` = every key
        # (must not answer when the argument is given)
        binders = []
        modes = {}
        for depth, (key, param) in enumerate(zip(kp[2], ("deployment", "name"))):
            mode = "bad"
            lb = None
            if key.isidentifier():
                lb = _binder(f, key, lp, loops) if lp is not None else loop_binding(f, key, where, loops)
            if lb is not None:
                ctx.require(lb[1] is None, f"C21.R7: cannot interpret the binding of `{key}` by `for {unparse(lb[0].target)} in ...` in get")
                binders.append(lb[0])
                outer = kp[2][:depth]
                cv = cond_value(f, lb[0].iter)
                if cv is not None:
                    given = _none_test(cv[0], param)
                    ctx.require(given is not None, f"C21.R7: cannot interpret the test `{unparse(cv[0])[:60]}` that selects the {param} keys of get")
                    only, sweep = (cv[1], cv[2]) if given else (cv[2], cv[1])
                    if _singleton(f, only, param) and _key_sweep(f, sweep, kp[0], outer):
                        mode = "cond"
                else:
                    it = deref(f, lb[0].iter)
                    if _singleton(f, it, param):
                        mode = "only"
                    elif _key_sweep(f, it, kp[0], outer):
                        mode = "sweep"
                    else:
                        ctx.require(keypath(f, strip_copy(f, it)[0]) is not None, f"C21.R7: cannot interpret the iterable of `{key}` in get: `{unparse(it)[:80]}`")
            elif key == param:
                mode = "only"
            modes[param] = mode
        # the filter condition: clauses of the comprehension / tests of the loop body, the tests between the key loops and
        # the entries, and dominating tests on the arguments
        conds = []
        if lp is not None and lp.is_comp:
            comp = where
            ctx.require(isinstance(comp, (ast.ListComp, ast.GeneratorExp)) and comp.generators[-1] is lp.node and isinstance(comp.elt, ast.Name) and comp.elt.id == v,
                        "C21.R7: get's comprehension does not yield its own loop variable")
            for gen in comp.generators:
                conds.extend(gen.ifs)
        at = ids_at(f, where)
        ctx.require(bool(at), "C21.R7: no CFG node for the entry enumeration of get")
        stmt_binders = [b for b in binders if not b.is_comp]
        for nid in at:
            for e, truth, tid in guard_atoms(g, nid):
                if _atom(e, None) is not None or any(x is g.nodes[tid].ast for b in stmt_binders for x in ast.walk(b.node)):
                    conds.append(e if truth else ast.UnaryOp(op=ast.Not(), operand=e))
        expr = None if not conds else conds[0] if len(conds) == 1 else ast.BoolOp(op=ast.And(), values=list(conds))
        if expr is not None:
            shown.append(unparse(expr))
        in_body = lp is not None and not lp.is_comp
        if in_body:
            shown.append(f"tests around .append({v})")
        answers = []
        for env in envs:
            res = True if expr is None else _eval(expr, v, env)
            ctx.require(res is not None, f"C21.R7: cannot interpret the filter `{unparse(expr) if expr is not None else ''}` of get")
            if res and in_body:
                res = _kept_by_body(ctx, f, lp, v, env)
            answers.append(bool(res))
        for param, mode in modes.items():
            ok = mode in ("cond", "only") or (mode == "sweep" and not any(a and env[GIVEN[param]] for a, env in zip(answers, envs)))
            ctx.ob("R7", f"get restricts the {param} key to the argument when it is given, else sweeps all keys", ok, func=f, node=where, instance=f"get:key:{param}",
                   message=f"get(path, {param}=x) is not restricted to locations[...] of x (or ignores the other {param}s when none is given)")
        for i, env in enumerate(envs):
            kept_rows[i].append(answers[i] and all(env[GIVEN[p]] for p, m in modes.items() if m == "only"))
    bad = []
    for env, kept in zip(envs, kept_rows):
        want = (not env["given"]) or env["equal"]
        if sum(kept) != (1 if want else 0):
            row = (env, "kept twice" if sum(kept) > 1 else "kept" if any(kept) else "dropped")
            if not any((b[0]["equal"], b[0]["given"], b[1]) == (env["equal"], env["given"], row[1]) for b in bad):
                bad.append(row)
    bad = [("data_type " + ("given, " + ("equal" if env["equal"] else "different") if env["given"] else "None") + "".join(
        f", {p} {'given' if env[GIVEN[p]] else 'None'}" for p in ("deployment", "name")) + ": an entry is " + what) for env, what in bad]
    bad = list(dict.fromkeys(bad))
    text = " / ".join(shown) if shown else "<none>"
    ctx.ob("R7", "get keeps an entry iff data_type is None or loc.data_type == data_type", not bad, func=f, node=entries[0][2],
           instance="get:filter",
           message=("get ignores its data_type argument" if not shown else
                    f"the filter `{text}` of get disagrees with `data_type is None or loc.data_type == data_type` for {bad[:2]}"))


def r7b(ctx):
    prog = ctx.prog
    f = prog.func(f"{MGR}.get_data_locations")
    calls = [c for c in f.calls() if any(q == f"{MAPPER}.get" for q in prog.resolve_call(f, c))]
    ctx.require(len(calls) >= 1, "C21.R7: get_data_locations no longer asks the path mapper")
    g = prog.func(f"{MAPPER}.get")
    gp = [p for p in g.params if p != "self"]
    want = {"path": "path", "data_type": "data_type", "deployment": "deployment", "name": "location_name"}
    for c in calls:
        got = {}
        for i, a in enumerate(c.args):
            if i < len(gp):
                got[gp[i]] = ktext(f, a)
        for k in c.keywords:
            if k.arg:
                got[k.arg] = ktext(f, k.value)
        wrong = {k: v for k, v in got.items() if want.get(k) != v}
        missing = [k for k in want if k not in got]
        ctx.ob("R7", "get_data_locations forwards path, data_type, deployment and location name to the matching mapper parameters", not wrong and not missing, func=f, node=c,
               instance="get_data_locations:forward", message=f"path_mapper.get is called with {wrong or ''} {('missing ' + str(missing)) if missing else ''}: the query is answered for another location / type")


# --------------------------------------------------------------------------- R8 (mount points, longest first)

INNER = "streamflow.data.remotepath.get_inner_path"
R8_INLINE = 2  # helpers followed from get_inner_path (resolved calls), nesting bound
_FLIP = {"asc": "desc", "desc": "asc", "none": "none"}


def _follow(f, e, at, depth=6):
    """Flow-sensitive temporaries: the expression a local name holds where it is read -> (expression, statement that
    evaluates it)."""
    while depth > 0:
        if isinstance(e, ast.NamedExpr):
            e = e.value
        elif isinstance(e, ast.Name):
            ds = [d for d in reaching_defs(f, e.id, at) if d.kind != "comp"]
            if len(ds) == 1 and ds[0].kind in ("assign", "walrus") and ds[0].index is None and ds[0].value is not None and ds[0].stmt is not None:
                e, at = ds[0].value, ds[0].stmt
            else:
                break
        else:
            break
        depth -= 1
    return e, at


def _const(f, e, at):
    e, _ = _follow(f, e, at)
    return (True, e.value) if isinstance(e, ast.Constant) else (False, None)


def _sort_key(prog, f, k, at):
    """What a `key=` function orders by -> (component index | None = the element itself, negated?, by length?) or None
    when it cannot be read: `len`, a lambda / a named one-expression function returning `x`, `x[i]`, `len(..)`, `-len(..)`
    or a tuple starting with one of these."""
    k, _ = _follow(f, k, at)
    arg = body = None
    if isinstance(k, ast.Name) and k.id == "len":
        return None, False, True
    if isinstance(k, ast.Lambda) and len(k.args.args) == 1:
        arg, body = k.args.args[0].arg, k.body
    elif isinstance(k, ast.Name):
        # a named function instead of a lambda: nested in f or at module level, one `return <expression>`
        fn = prog.functions.get(f"{f.qualname}.<locals>.{k.id}") or prog.functions.get(f"{f.module.name}.{k.id}")
        if fn is not None and not isinstance(fn.node, ast.Lambda):
            ps = [p for p in fn.params if p not in ("self", "cls")]
            stmts = [s for s in fn.node.body if not (isinstance(s, ast.Expr) and isinstance(s.value, ast.Constant)) and not isinstance(s, ast.Pass)]
            if len(ps) == 1 and len(stmts) == 1 and isinstance(stmts[0], ast.Return) and stmts[0].value is not None:
                arg, body = ps[0], stmts[0].value
    if body is None:
        return None
    if isinstance(body, ast.Tuple) and body.elts:
        body = body.elts[0]
    neg = False
    if isinstance(body, ast.UnaryOp) and isinstance(body.op, ast.USub):
        neg, body = True, body.operand
    by_len = False
    if isinstance(body, ast.Call) and isinstance(body.func, ast.Name) and body.func.id == "len" and len(body.args) == 1 and not body.keywords:
        by_len, body = True, body.args[0]
    if neg and not by_len:
        return None
    if isinstance(body, ast.Name) and body.id == arg:
        return None, neg, by_len
    if isinstance(body, ast.Subscript) and isinstance(body.value, ast.Name) and body.value.id == arg and isinstance(body.slice, ast.Constant) and isinstance(body.slice.value, int):
        return body.slice.value, neg, by_len
    return None


def _sorted_order(prog, f, inner, kws, at):
    """Order produced by `sorted(<inner>, **kws)` / `<inner>.sort(**kws)` -> (direction, component, view) or None."""
    if inner is None:
        return None
    rev, by, neg, by_len = False, None, False, False
    for k in kws:
        if k.arg == "reverse":
            isc, val = _const(f, k.value, at)
            if not isc or not isinstance(val, bool):
                return None
            rev = val
        elif k.arg == "key":
            isc, val = _const(f, k.value, at)
            if isc and val is None:
                continue
            sk = _sort_key(prog, f, k.value, at)
            if sk is None:
                return None
            by, neg, by_len = sk
        else:
            return None
    view = inner[2]
    if by is not None and view != "items":
        return None
    if by_len and by is None and view == "items":
        return None  # the length of a (mount point, target) pair says nothing
    return ("desc" if rev != neg else "asc"), by, view


def _mount_order(prog, f, e, at, depth=0, hops=12):
    """The order in which the expression `e` (read at statement `at` of `f`) enumerates the mount points of a location ->
    (direction 'asc' | 'desc' | 'none', component the order is taken on (None = the element itself), view 'keys' | 'items'
    | 'values'); None when `e` is not an enumeration of `<location>.mounts` or cannot be interpreted.  A strict extension of
    a string is greater than the string and longer: descending lexicographic order and descending length both try a nested
    mount point before the one that contains it."""
    if hops <= 0:
        return None
    name = e.id if isinstance(e, ast.Name) else None
    if name is not None:
        ds = [d for d in reaching_defs(f, name, at) if d.kind != "comp"]
        if len(ds) == 1 and ds[0].kind == "param" and depth < R8_INLINE:
            sites = _param_args(prog, f, name)
            if not sites:
                return None
            res = {_mount_order(prog, g, a, a, depth + 1, hops - 1) for g, a in sites}
            return res.pop() if len(res) == 1 else None
    e, at2 = _follow(f, e, at)
    res = None
    if isinstance(e, ast.Attribute) and e.attr == "mounts":
        res = ("none", None, "keys")
    elif isinstance(e, ast.Call) and isinstance(e.func, ast.Attribute) and e.func.attr in ("keys", "items", "values") and not e.args and not e.keywords:
        inner = _mount_order(prog, f, e.func.value, at2, depth, hops - 1)
        res = None if inner is None or inner[2] != "keys" or inner[0] != "none" else ("none", None, e.func.attr)
    elif isinstance(e, ast.Call) and isinstance(e.func, ast.Name) and e.func.id == "sorted" and len(e.args) == 1:
        res = _sorted_order(prog, f, _mount_order(prog, f, e.args[0], at2, depth, hops - 1), e.keywords, at2)
    elif isinstance(e, ast.Call) and isinstance(e.func, ast.Name) and e.func.id == "reversed" and len(e.args) == 1 and not e.keywords:
        inner = _mount_order(prog, f, e.args[0], at2, depth, hops - 1)
        res = None if inner is None else (_FLIP[inner[0]], inner[1], inner[2])
    elif isinstance(e, ast.Call) and isinstance(e.func, ast.Name) and e.func.id in ("list", "tuple", "iter") and len(e.args) == 1 and not e.keywords:
        res = _mount_order(prog, f, e.args[0], at2, depth, hops - 1)
    elif isinstance(e, ast.Subscript) and isinstance(e.slice, ast.Slice):
        s = e.slice
        inner = _mount_order(prog, f, e.value, at2, depth, hops - 1)
        if inner is not None and s.lower is None and s.upper is None and s.step is not None and unparse(s.step) == "-1":
            res = (_FLIP[inner[0]], inner[1], inner[2])
        elif inner is not None and s.lower is None and s.upper is None and s.step is None:
            res = inner
    elif isinstance(e, (ast.ListComp, ast.GeneratorExp)) and len(e.generators) == 1 and not e.generators[0].is_async \
            and unparse(e.elt) == unparse(e.generators[0].target):
        # a filtered copy keeps the order of what it copies
        res = _mount_order(prog, f, e.generators[0].iter, at2, depth, hops - 1)
    elif isinstance(e, ast.Call) and depth < R8_INLINE:
        helpers = [prog.functions.get(q) for q in prog.resolve_call(f, e)]
        if helpers and all(h is not None and not h.is_async and h.qualname != f.qualname for h in helpers):
            got = set()
            for h in helpers:
                rets = [n for n in h.body_nodes() if isinstance(n, ast.Return)]
                if not rets:
                    return None
                for r in rets:
                    got.add(None if r.value is None else _mount_order(prog, h, r.value, r, depth + 1, hops - 1))
            res = got.pop() if len(got) == 1 else None
    if res is None:
        return None
    if name is not None:
        # sorted in place between its definition and the enumeration: `ms = list(x.mounts); ms.sort(reverse=True)`
        muts = [n for n in f.body_nodes() if isinstance(n, ast.Call) and isinstance(n.func, ast.Attribute) and isinstance(n.func.value, ast.Name)
                and n.func.value.id == name and n.func.attr in ("sort", "reverse", "append", "extend", "insert", "remove", "pop")]
        if muts:
            g = f.cfg
            uids = ids_at(f, at)
            m = muts[0]
            mids = ids_at(f, m)
            if len(muts) != 1 or m.func.attr not in ("sort", "reverse") or not uids or not mids or not all(g.dominates(mids, u) for u in uids):
                return None
            if m.func.attr == "reverse":
                return (_FLIP[res[0]], res[1], res[2]) if not m.args and not m.keywords else None
            return _sorted_order(prog, f, res, m.keywords, m) if not m.args else None
    return res


def _tested_component(f, target, scope):
    """Which component of the loop target the prefix test reads -> (found?, index | None = the element itself)."""
    if isinstance(target, ast.Name):
        return True, None
    if not isinstance(target, (ast.Tuple, ast.List)):
        return False, None
    names = {x.id: i for i, x in enumerate(target.elts) if isinstance(x, ast.Name)}
    hits = set()
    for n in scope:
        if isinstance(n, ast.Call) and isinstance(n.func, ast.Attribute) and n.func.attr in ("is_relative_to", "startswith"):
            for a in n.args:
                t = ktext(f, a)
                if t in names:
                    hits.add(names[t])
    return (True, hits.pop()) if len(hits) == 1 else (False, None)


def _mount_selections(prog, f):
    """Every construct of `f` that picks a mount point out of an enumeration of `<location>.mounts`: statement loops and
    `next(...)` / `max(...)` / `min(...)` over it -> [(kind, node, order, target, scope nodes, keywords)]."""
    out = []
    for n in f.body_nodes():
        if isinstance(n, (ast.For, ast.AsyncFor)):
            o = _mount_order(prog, f, n.iter, n)
            if o is not None:
                out.append(("loop", n, o, n.target, [x for s in n.body for x in ast.walk(s)], []))
        elif isinstance(n, ast.Call) and isinstance(n.func, ast.Name) and n.func.id in ("next", "max", "min") and n.args:
            at = enclosing_stmt(n) or n
            o = _mount_order(prog, f, n.args[0], at)
            if o is not None:
                src, _ = _follow(f, n.args[0], at)
                comp = src if isinstance(src, (ast.ListComp, ast.GeneratorExp)) else None
                target = comp.generators[0].target if comp is not None else ast.Name(id="_", ctx=ast.Store())
                scope = [x for c in comp.generators[0].ifs for x in ast.walk(c)] if comp is not None else []
                out.append((n.func.id, n, o, target, scope, n.keywords))
    return out


def r8(ctx):
    prog = ctx.prog
    f0 = prog.func(INNER)
    seen = {f0.qualname}
    level = [f0]
    found = []
    for depth in range(R8_INLINE + 1):
        for f in level:
            found.extend((f, s) for s in _mount_selections(prog, f))
        if found:
            break
        nxt = []
        for f in level:
            for c in f.calls():
                for q in prog.resolve_call(f, c):
                    h = prog.functions.get(q)
                    if h is not None and h.qualname not in seen and h.module is f0.module:
                        seen.add(h.qualname)
                        nxt.append(h)
        level = nxt
    ctx.require(bool(found), "C21.R8: no enumeration of `<location>.mounts` (loop, next/max over it) found in get_inner_path or the helpers it calls: "
                             "cannot decide in which order the mount points are matched")
    for i, (f, (kind, node, order, target, scope, kws)) in enumerate(found):
        direction, by, view = order
        shown = " ".join(unparse(node.iter if kind == "loop" else node).split())[:110]
        okc, comp = _tested_component(f, target, scope)
        ctx.require(okc, f"C21.R8: {f.qualname}: cannot tell which component of `{unparse(target)}` the prefix test of `{shown}` reads")
        # the order is taken on the component that is tested (a pair is ordered by its first component first)
        same = by == comp or (by is None and comp == 0) or (by == 0 and comp is None)
        inst = f"{f.name}:mounts-order" + (f":{i}" if i else "")
        if kind == "loop":
            early = any(isinstance(x, (ast.Return, ast.Break)) for x in scope)
            want = "desc" if early else "asc"
            ok = same and direction == want
            how = ("is not ordered" if direction == "none" else "is ordered on another component than the one tested" if not same
                   else f"runs in {'ascending' if direction == 'asc' else 'descending'} order")
            ctx.ob("R8", f"{f.name}: `for {unparse(target)} in {shown}` tries the mount points longest-first (the most specific mount point wins)", ok, func=f, node=node,
                   instance=inst,
                   message=(f"`for {unparse(target)} in {shown}` {how} and {'stops at the first' if early else 'keeps the last'} mount point the path is relative to: a mount point that "
                            "contains another one (/data and /data/cache) wins over the nested one, so a path under the nested mount resolves to the wrong wrapped path "
                            "and is registered / looked up there"),
                   witness=[f"iterable: {shown}", f"order: {direction}, selection: {'first match' if early else 'last match'}; wanted: {want}ending"])
        elif kind == "next":
            ok = same and direction == "desc"
            ctx.ob("R8", f"{f.name}: `{shown}` takes the first match of a longest-first enumeration of the mount points", ok, func=f, node=node, instance=inst,
                   message=f"`{shown}` takes the first matching mount point of an enumeration that is not in descending order: the containing mount wins over a nested one")
        else:
            sk = (None, False, False)
            good = True
            for k in kws:
                if k.arg == "key":
                    got = _sort_key(prog, f, k.value, enclosing_stmt(node) or node)
                    ctx.require(got is not None, f"C21.R8: {f.qualname}: cannot interpret the key of `{shown}`")
                    sk = got
                elif k.arg != "default":
                    good = False
            ctx.require(good, f"C21.R8: {f.qualname}: cannot interpret `{shown}`")
            same = sk[0] == comp or (sk[0] is None and comp == 0) or (sk[0] == 0 and comp is None)
            ok = same and ((kind == "max") != sk[1]) and bool(scope)
            ctx.ob("R8", f"{f.name}: `{shown}` selects the longest matching mount point", ok, func=f, node=node, instance=inst,
                   message=f"`{shown}` does not select the longest mount point the path is relative to: the containing mount wins over a nested one")


# --------------------------------------------------------------------------- R9 (ancestors are created available)

R9_INLINE = 2


def _is_true(prog, f, e, at, depth=0):
    """`e` (read at `at` in `f`) is the constant True on every path: through temporaries, both arms of a conditional
    expression, and the parameter of a private helper (every resolved call site passes True)."""
    if isinstance(e, ast.Name):
        ds = [d for d in reaching_defs(f, e.id, at) if d.kind != "comp"]
        if not ds:
            return False
        for d in ds:
            if d.kind == "param" and depth < R9_INLINE:
                sites = _param_args(prog, f, e.id)
                if not sites or not all(_is_true(prog, g, a, a, depth + 1) for g, a in sites):
                    return False
            elif d.kind in ("assign", "walrus") and d.index is None and d.value is not None and d.stmt is not None:
                if not _is_true(prog, f, d.value, d.stmt, depth):
                    return False
            else:
                return False
        return True
    if isinstance(e, ast.NamedExpr):
        return _is_true(prog, f, e.value, at, depth)
    if isinstance(e, ast.IfExp):
        return _is_true(prog, f, e.body, at, depth) and _is_true(prog, f, e.orelse, at, depth)
    return isinstance(e, ast.Constant) and e.value is True


def r9(ctx):
    prog = ctx.prog
    put = prog.func(f"{MAPPER}.put")
    init = prog.func(f"{DLOC}.__init__")
    declared, _d = signature_default(init, "available")
    ctx.require(declared, "C21.R9: DataLocation.__init__ has no `available` parameter any more")
    mod = prog.module(MOD)
    seen = {put.qualname}
    level = [put]
    ctors = []
    for depth in range(R9_INLINE + 1):
        nxt = []
        for f in level:
            for c in f.calls():
                qs = prog.resolve_call(f, c)
                if any(q in (DLOC, f"{DLOC}.__init__") for q in qs):
                    ctors.append((f, c))
                    continue
                for q in qs:
                    h = prog.functions.get(q)
                    if h is not None and h.qualname not in seen and h.module is mod and h.name.startswith("_") and not h.name.startswith("__"):
                        seen.add(h.qualname)
                        nxt.append(h)
        level = nxt
    ctx.require(bool(ctors), "C21.R9: put (and the private helpers it calls) no longer constructs the DataLocation of an ancestor directory")
    per = {}
    for f, c in ctors:
        k = per[f.qualname] = per.get(f.qualname, 0) + 1
        arg, how = effective_arg(init, c, "available", bound=True)
        ctx.require(how in ("explicit", "default"), f"C21.R9: {f.qualname}: cannot read the `available` argument of `{unparse(c)[:80]}`")
        at = enclosing_stmt(c) or c
        ok = how == "explicit" and _is_true(prog, f, arg, at)
        shown = "the default (False)" if how == "default" else f"`{' '.join(unparse(arg).split())[:70]}`"
        via = "" if f is put else f" (in {f.qualname}, followed from put)"
        ctx.ob("R9", f"put: the DataLocation it creates itself{via} is constructed with available=True", ok, func=f, node=c,
               instance=f"{f.name}:DataLocation:available" + (f":{k}" if k > 1 else ""),
               message=(f"the DataLocation that put creates for an ancestor directory{via} gets available={shown} instead of the constant True: nobody ever sets the event of a "
                        "location that put created itself (register_path calls put before it sets the event of the caller's own location), so everything that waits for "
                        "the ancestor (`get_source_location`, transfers from it) blocks forever"),
               witness=[f"constructor: {' '.join(unparse(c).split())[:160]}"])


RULES = [("R1", r1), ("R2", r2), ("R3", r3), ("R4", r4), ("R5", r5), ("R6", r6), ("R7", lambda ctx: (r7(ctx), r7b(ctx))), ("R8", r8), ("R9", r9)]
FLOORS = {"R1": 5, "R2": 9, "R3": 4, "R4": 6, "R5": 3, "R6": 1, "R7": 3, "R8": 1, "R9": 1}

M = MAPPER
_PUT_GUARD = "if location.path in node.valid_paths.get(location.deployment, {}).get(location.name, set()):"
_GET_LOOPS = ("result = []\n    for dep in [deployment] if deployment is not None else node.locations:\n"
              "        for n in [name] if name is not None else node.locations.get(dep, {}):\n"
              "            result.extend([loc for loc in node.locations.get(dep, {}).get(n, []) if not (data_type is not None and loc.data_type != data_type)])\n"
              "    return result")
_GET_FLAT = ("deployments = [deployment] if deployment is not None else node.locations\n"
             "    return [loc for dep in deployments for n in ([name] if name is not None else node.locations.get(dep, {})) "
             "for loc in node.locations.get(dep, {}).get(n, []) if not (data_type is not None and loc.data_type != data_type)]")
_SRC_LOOPS = ("for loc in same_connector_locations:\n                await loc.available.wait()\n                if loc.data_type == DataType.PRIMARY:\n                    return loc\n"
              "        if (local_locations := {loc for loc in data_locations if loc.location.local}):\n"
              "            for loc in local_locations:\n                await loc.available.wait()\n                if loc.data_type == DataType.PRIMARY:\n                    return loc\n"
              "        for loc in data_locations:\n            await loc.available.wait()\n            if loc.data_type == DataType.PRIMARY:\n                return loc")
_SRC_HELPED = ("if (loc := (await _wait_primary_location(same_connector_locations))) is not None:\n                return loc\n"
               "        if (local_locations := {loc for loc in data_locations if loc.location.local}):\n"
               "            if (loc := (await _wait_primary_location(local_locations))) is not None:\n                return loc\n"
               "        return await _wait_primary_location(data_locations)")
_SRC_HELPER = ("async def _wait_primary_location(data_locations):\n    for loc in data_locations:\n        await loc.available.wait()\n"
               "        if loc.data_type == DataType.PRIMARY:\n            return loc\n    return None\n")
_SRC_FOUND = ("found = None\n        for loc in data_locations:\n            await loc.available.wait()\n            if loc.data_type == DataType.PRIMARY:\n"
              "                found = loc\n                break\n        return found")
_SRC_LAST = "for loc in data_locations:\n            await loc.available.wait()\n            if loc.data_type == DataType.PRIMARY:\n                return loc"
_GET_APPEND = ("result = []\n    for dep in [deployment] if deployment is not None else node.locations:\n"
               "        for n in [name] if name is not None else node.locations.get(dep, {}):\n"
               "            for loc in node.locations.get(dep, {}).get(n, []):\n"
               "                if data_type is not None and loc.data_type != data_type:\n                    continue\n"
               "                result.append(loc)\n    return result")
_MNT_LOOP = "for mount in sorted(path.location.mounts.keys(), reverse=True):"
_MNT_HEAD = _MNT_LOOP + "\n            if path.is_relative_to(mount):\n                inner_path"
_MNT_LAST = ("found = None\n        for m in sorted(path.location.mounts):\n            if path.is_relative_to(m):\n                found = m\n"
             "        for mount in [found] if found is not None else []:\n            if True:\n                inner_path")
_MNT_NEXT = ("mount = next((m for m in sorted(path.location.mounts, reverse=True) if path.is_relative_to(m)), None)\n"
             "        if mount is not None:\n            if True:\n                inner_path")
_MNT_MAX = ("mount = max((m for m in path.location.mounts if path.is_relative_to(m)), key=len, default=None)\n"
            "        if mount is not None:\n            if True:\n                inner_path")
INNER_FILE = "streamflow/data/remotepath.py"
_ANC_RELPATH = "relpath if relpath and node_path.endswith(relpath) else path_processor.basename(node_path)"
_ANC_CTOR = f"DataLocation(location=data_location.location, path=node_path, relpath={_ANC_RELPATH}, data_type=DataType.PRIMARY, available=True)"
_ANC_SPAN = ("relpath = data_location.relpath\n    for node_path in reversed(nodes):\n        node = nodes[node_path]\n"
             f"        location = data_location if node_path == path else {_ANC_CTOR}")
_ANC_HELPER = ("def _ancestor_location(data_location, node_path, relpath, available):\n"
               "    return DataLocation(location=data_location.location, path=node_path, relpath=relpath, data_type=DataType.PRIMARY, available=available)\n")
VARIANTS = [
    # ---- R1
    V("put: valid_paths.add dropped", FILE, f"{M}.put",
      "node.valid_paths.setdefault(location.deployment, {}).setdefault(location.name, set()).add(location.path)\n            ", "", "R1", control=True),
    V("put: valid path stored under another name key", FILE, f"{M}.put",
      "node.valid_paths.setdefault(location.deployment, {}).setdefault(location.name, set()).add(location.path)",
      "node.valid_paths.setdefault(location.deployment, {}).setdefault(location.deployment, set()).add(location.path)", "R1"),
    V("put: relpath stored as valid path", FILE, f"{M}.put", ".add(location.path)", ".add(location.relpath)", "R1"),
    V("_remove_node: valid_paths entry kept", FILE, f"{M}._remove_node",
      "del node.locations[location.deployment][location.name]\n        del node.valid_paths[location.deployment][location.name]",
      "del node.locations[location.deployment][location.name]", "R1"),
    V("invalidate: valid_paths.discard dropped", FILE, f"{M}.invalidate_location",
      "data_loc.data_type = DataType.INVALID\n        node.valid_paths[location.deployment][location.name].discard(data_loc.path)", "data_loc.data_type = DataType.INVALID", "R1"),
    V("invalidate: discard only for primary copies", FILE, f"{M}.invalidate_location",
      "data_loc.data_type = DataType.INVALID\n        node.valid_paths[location.deployment][location.name].discard(data_loc.path)",
      "if data_loc.data_type == DataType.PRIMARY:\n            node.valid_paths[location.deployment][location.name].discard(data_loc.path)\n        data_loc.data_type = DataType.INVALID", "R1"),
    V("invalidate: INVALID mark dropped, path still discarded", FILE, f"{M}.invalidate_location", "data_loc.data_type = DataType.INVALID\n        ", "", "R1"),
    # ---- R2
    V("get_data_locations: INVALID filter dropped", FILE, f"{MGR}.get_data_locations",
      "return [loc for loc in data_locations if loc.data_type != DataType.INVALID]", "return [loc for loc in data_locations]", "R2", control=True),
    V("get_data_locations: filter inverted", FILE, f"{MGR}.get_data_locations", "loc.data_type != DataType.INVALID", "loc.data_type == DataType.INVALID", "R2"),
    V("external writer of data_type", "streamflow/cwl/token.py", None, None, None, "R2",
      append="def _force(loc):\n    loc.data_type = None\n"),
    V("external user of path_mapper", "streamflow/cwl/token.py", None, None, None, "R2",
      append="def _peek(context, p):\n    return context.data_manager.path_mapper.get(p)\n"),
    # ---- R3
    V("recursion without the location filter", FILE, f"{M}.invalidate_location",
      "for data_loc in node_child.locations.get(location.deployment, {}).get(location.name, set()):\n            if data_loc.data_type != DataType.INVALID:\n                self.invalidate_location(data_loc.location, data_loc.path)",
      "for dep_locs in node_child.locations.values():\n            for name_locs in dep_locs.values():\n                for data_loc in name_locs:\n                    if data_loc.data_type != DataType.INVALID:\n                        self.invalidate_location(data_loc.location, data_loc.path)",
      "R3", control=True),
    V("recursion keyed by deployment twice", FILE, f"{M}.invalidate_location",
      "node_child.locations.get(location.deployment, {}).get(location.name, set())", "node_child.locations.get(location.deployment, {}).get(location.deployment, set())", "R3"),
    V("own sweep keyed by the wrong name", FILE, f"{M}.invalidate_location",
      "node.locations.get(location.deployment, {}).get(location.name, set())", "node.locations.get(location.deployment, {}).get(location.deployment, set())", "R3"),
    V("recursion passes the parent's path", FILE, f"{M}.invalidate_location", "self.invalidate_location(data_loc.location, data_loc.path)", "self.invalidate_location(data_loc.location, path)", "R3"),
    V("recursion only for primary children", FILE, f"{M}.invalidate_location", "if data_loc.data_type != DataType.INVALID:", "if data_loc.data_type == DataType.PRIMARY:", "R3"),
    V("recursion only for primary children, operands swapped", FILE, f"{M}.invalidate_location", "if data_loc.data_type != DataType.INVALID:", "if DataType.PRIMARY == data_loc.data_type:", "R3"),
    V("recursion only for children that are already INVALID (flipped and inverted)", FILE, f"{M}.invalidate_location", "if data_loc.data_type != DataType.INVALID:",
      "if DataType.INVALID == data_loc.data_type:", "R3"),
    V("recursion guarded by the state of another object", FILE, f"{M}.invalidate_location", "if data_loc.data_type != DataType.INVALID:",
      "if DataType.INVALID != data_loc.location.data_type:", "R3"),
    V("recursion removed", FILE, f"{M}.invalidate_location",
      "if data_loc.data_type != DataType.INVALID:\n                self.invalidate_location(data_loc.location, data_loc.path)", "pass", "R3"),
    # ---- R4
    V("return before the wait (same-connector branch)", FILE, f"{MGR}.get_source_location",
      "for loc in same_connector_locations:\n                await loc.available.wait()\n                if loc.data_type == DataType.PRIMARY:\n                    return loc",
      "for loc in same_connector_locations:\n                if loc.data_type == DataType.PRIMARY:\n                    return loc\n                await loc.available.wait()", "R4", control=True),
    V("PRIMARY test dropped in the fallback loop", FILE, f"{MGR}.get_source_location",
      "for loc in data_locations:\n            await loc.available.wait()\n            if loc.data_type == DataType.PRIMARY:\n                return loc",
      "for loc in data_locations:\n            await loc.available.wait()\n            return loc", "R4"),
    V("wait dropped in the local branch", FILE, f"{MGR}.get_source_location",
      "for loc in local_locations:\n                await loc.available.wait()\n                if", "for loc in local_locations:\n                if", "R4"),
    V("PRIMARY test before the wait", FILE, f"{MGR}.get_source_location",
      "for loc in local_locations:\n                await loc.available.wait()\n                if loc.data_type == DataType.PRIMARY:\n                    return loc",
      "for loc in local_locations:\n                if loc.data_type == DataType.PRIMARY:\n                    await loc.available.wait()\n                    return loc", "R4"),
    V("PRIMARY test inverted", FILE, f"{MGR}.get_source_location",
      "for loc in data_locations:\n            await loc.available.wait()\n            if loc.data_type == DataType.PRIMARY:", "for loc in data_locations:\n            await loc.available.wait()\n            if loc.data_type != DataType.PRIMARY:", "R4"),
    V("B15-1 shape: the extracted helper returns before the wait", FILE, f"{MGR}.get_source_location", _SRC_LOOPS, _SRC_HELPED, "R4",
      append=_SRC_HELPER.replace("        await loc.available.wait()\n", "")),
    V("B15-1 shape: the extracted helper tests PRIMARY before the wait", FILE, f"{MGR}.get_source_location", _SRC_LOOPS, _SRC_HELPED, "R4",
      append=_SRC_HELPER.replace("        await loc.available.wait()\n        if loc.data_type == DataType.PRIMARY:\n            return loc",
                                 "        if loc.data_type == DataType.PRIMARY:\n            await loc.available.wait()\n            return loc")),
    V("B15-1 shape: the extracted helper drops the PRIMARY test", FILE, f"{MGR}.get_source_location", _SRC_LOOPS, _SRC_HELPED, "R4",
      append=_SRC_HELPER.replace("        if loc.data_type == DataType.PRIMARY:\n            return loc", "        return loc")),
    V("B15-1 shape: the helper is not a coroutine (cannot wait)", FILE, f"{MGR}.get_source_location", _SRC_LOOPS, _SRC_HELPED.replace("return await _wait_primary_location(data_locations)", "return await _first_primary(data_locations)"), "R4",
      append=_SRC_HELPER + "\n\ndef _first_primary(data_locations):\n    for loc in data_locations:\n        if loc.data_type == DataType.PRIMARY:\n            return loc\n    return None\n"),
    V("found/break shape: the candidate is taken before the wait", FILE, f"{MGR}.get_source_location", _SRC_LAST,
      _SRC_FOUND.replace("            await loc.available.wait()\n            if loc.data_type == DataType.PRIMARY:\n                found = loc",
                         "            if loc.data_type == DataType.PRIMARY:\n                found = loc"), "R4"),
    # ---- R5
    V("put: guard tests locations instead of valid_paths", FILE, f"{M}.put", _PUT_GUARD,
      "if location.path in node.locations.get(location.deployment, {}).get(location.name, set()):", "R5"),
    V("put: guard inverted", FILE, f"{M}.put", _PUT_GUARD, "if location.path not in node.valid_paths.get(location.deployment, {}).get(location.name, set()):", "R5"),
    V("register_path: ancestors not registered", FILE, f"{MGR}.register_path", "self.path_mapper.put(path=path, data_location=data_locations[0], recursive=True)",
      "self.path_mapper.put(path=path, data_location=data_locations[0])", "R5"),
    V("register_relation: one direction only", FILE, f"{MGR}.register_relation",
      "self.path_mapper.put(data_location.path, dst_location)\n        self.path_mapper.put(dst_location.path, data_location)", "self.path_mapper.put(data_location.path, dst_location)", "R5"),
    V("put: hierarchy swept top-down", FILE, f"{M}.put", "for node_path in reversed(nodes):", "for node_path in nodes:", "R5"),
    V("put: ancestor prefix off by one", FILE, f"{M}.put", "parts[:i + 1]", "parts[:i]", "R5"),
    # ---- R6 (today's tree is the breaking case; the repaired shape must be accepted)
    # ---- R7
    V("get: data_type filter inverted", FILE, f"{M}.get", "loc.data_type != data_type", "loc.data_type == data_type", "R7"),
    V("get: data_type ignored", FILE, f"{M}.get", " if not (data_type is not None and loc.data_type != data_type)", "", "R7"),
    V("get_data_locations: location name passed as deployment", FILE, f"{MGR}.get_data_locations", "deployment=deployment, name=location_name", "deployment=location_name, name=location_name", "R7"),
    V("get: deployment argument ignored", FILE, f"{M}.get", "for dep in [deployment] if deployment is not None else node.locations:", "for dep in node.locations if deployment is not None else [deployment]:", "R7"),
    V("get: flattened comprehension, filter inverted", FILE, f"{M}.get", _GET_LOOPS, _GET_FLAT.replace("loc.data_type != data_type", "loc.data_type == data_type"), "R7"),
    V("get: flattened comprehension, name clause sweeps every name", FILE, f"{M}.get", _GET_LOOPS,
      _GET_FLAT.replace("for n in ([name] if name is not None else node.locations.get(dep, {}))", "for n in node.locations.get(dep, {})"), "R7"),
    V("get: flattened comprehension, names swept over the deployment keys", FILE, f"{M}.get", _GET_LOOPS,
      _GET_FLAT.replace("else node.locations.get(dep, {}))", "else node.locations)"), "R7"),
    V("get: name argument used as the key, no sweep when it is None", FILE, f"{M}.get",
      "for n in [name] if name is not None else node.locations.get(dep, {}):\n            result.extend([loc for loc in node.locations.get(dep, {}).get(n, [])",
      "if True:\n            result.extend([loc for loc in node.locations.get(dep, {}).get(name, [])", "R7"),
    V("get: append loop, filter keeps the other types", FILE, f"{M}.get", _GET_LOOPS, _GET_APPEND.replace("loc.data_type != data_type", "loc.data_type == data_type"), "R7"),
    V("get: every list answered twice when no type is requested", FILE, f"{M}.get", "\n    return result",
      "\n            if data_type is None:\n                result.extend(node.locations.get(dep, {}).get(n, []))\n    return result", "R7"),
    # ---- benign
    V("benign: B4-1 nested loops + extend flattened into one comprehension with a temporary", FILE, f"{M}.get", _GET_LOOPS, _GET_FLAT, None),
    V("benign: get written as loops with append and an early continue", FILE, f"{M}.get", _GET_LOOPS, _GET_APPEND, None),
    V("benign: get, key choice written as if/else assignments, .keys() and a boolean temporary", FILE, f"{M}.get", _GET_LOOPS,
      "result = []\n    if deployment is None:\n        deployments = list(node.locations.keys())\n    else:\n        deployments = [deployment]\n    for dep in deployments:\n"
      "        names = node.locations.get(dep, {})\n        if name is not None:\n            names = [name]\n        for n in names:\n"
      "            for loc in node.locations.get(dep, {}).get(n, []):\n                keep = data_type is None or loc.data_type == data_type\n                if keep:\n"
      "                    result.append(loc)\n    return result", None),
    V("benign: get, name given / not given handled in two branches", FILE, f"{M}.get",
      "for n in [name] if name is not None else node.locations.get(dep, {}):\n            result.extend([loc for loc in node.locations.get(dep, {}).get(n, []) if not (data_type is not None and loc.data_type != data_type)])",
      "if name is not None:\n            result.extend([loc for loc in node.locations.get(dep, {}).get(name, []) if data_type is None or loc.data_type == data_type])\n"
      "        else:\n            for n in node.locations.get(dep, {}):\n                if data_type is None:\n                    result.extend(node.locations.get(dep, {}).get(n, []))\n"
      "                else:\n                    result += [loc for loc in node.locations.get(dep, {}).get(n, []) if loc.data_type == data_type]", None),
    V("benign: mirrored statements swapped in invalidate", FILE, f"{M}.invalidate_location",
      "data_loc.data_type = DataType.INVALID\n        node.valid_paths[location.deployment][location.name].discard(data_loc.path)",
      "node.valid_paths[location.deployment][location.name].discard(data_loc.path)\n        data_loc.data_type = DataType.INVALID", None),
    V("benign: discard -> remove", FILE, f"{M}.invalidate_location", ".discard(data_loc.path)", ".remove(data_loc.path)", None),
    V("benign: B15-1 the three wait-and-check loops extracted into one module-level coroutine", FILE, f"{MGR}.get_source_location", _SRC_LOOPS, _SRC_HELPED, None,
      append=_SRC_HELPER),
    V("benign: fallback loop records the chosen location in a temporary and breaks", FILE, f"{MGR}.get_source_location", _SRC_LAST, _SRC_FOUND, None),
    V("benign: returned location through a temporary", FILE, f"{MGR}.get_source_location", _SRC_LAST, _SRC_LAST.replace("return loc", "chosen = loc\n                return chosen"), None),
    V("benign: rename loop variable", FILE, f"{MGR}.get_source_location", "for loc in data_locations:\n            await loc.available.wait()\n            if loc.data_type == DataType.PRIMARY:\n                return loc",
      "for candidate in data_locations:\n            await candidate.available.wait()\n            if candidate.data_type == DataType.PRIMARY:\n                return candidate", None),
    V("benign: temporaries for the keys in _remove_node", FILE, f"{M}._remove_node",
      "del node.locations[location.deployment][location.name]\n        del node.valid_paths[location.deployment][location.name]",
      "dep = location.deployment\n        del node.valid_paths[dep][location.name]\n        logger.debug('removed')\n        del node.locations[dep][location.name]", None),
    V("benign: filter in get written as or", FILE, f"{M}.get", "if not (data_type is not None and loc.data_type != data_type)", "if data_type is None or loc.data_type == data_type", None),
    V("benign: PRIMARY test with swapped operands and logging", FILE, f"{MGR}.get_source_location",
      "for loc in data_locations:\n            await loc.available.wait()\n            if loc.data_type == DataType.PRIMARY:",
      "for loc in data_locations:\n            await loc.available.wait()\n            logger.debug('checked')\n            if DataType.PRIMARY == loc.data_type:", None),
    V("benign: temporary for the swept list", FILE, f"{M}.invalidate_location",
      "for data_loc in node.locations.get(location.deployment, {}).get(location.name, set()):\n        data_loc.data_type",
      "locs = node.locations.get(location.deployment, {}).get(location.name, set())\n    for data_loc in locs:\n        data_loc.data_type", None),
    V("benign: early-continue style in get_source_location", FILE, f"{MGR}.get_source_location",
      "for loc in data_locations:\n            await loc.available.wait()\n            if loc.data_type == DataType.PRIMARY:\n                return loc",
      "for loc in data_locations:\n            await loc.available.wait()\n            if loc.data_type != DataType.PRIMARY:\n                continue\n            return loc", None),
    V("benign: children iterated with items()", FILE, f"{M}.invalidate_location", "for node_child in node.children.values():", "for _name, node_child in node.children.items():", None),
    V("benign: cmpflip, INVALID test of the recursion with swapped operands", FILE, f"{M}.invalidate_location", "if data_loc.data_type != DataType.INVALID:",
      "if DataType.INVALID != data_loc.data_type:", None),
    V("benign: INVALID test of the recursion as a negated identity test through a temporary, guard clause", FILE, f"{M}.invalidate_location",
      "if data_loc.data_type != DataType.INVALID:\n                self.invalidate_location(data_loc.location, data_loc.path)",
      "state = data_loc.data_type\n            if DataType.INVALID is state:\n                continue\n            self.invalidate_location(data_loc.location, data_loc.path)", None),
    V("benign: cmpflip of the PRIMARY tests of get_source_location", FILE, f"{MGR}.get_source_location", "if loc.data_type == DataType.PRIMARY:", "if DataType.PRIMARY == loc.data_type:", None, count=3),
    V("benign: cmpflip of the INVALID filter", FILE, f"{MGR}.get_data_locations", "loc.data_type != DataType.INVALID", "DataType.INVALID != loc.data_type", None),
    V("benign: cmpflip of the data_type filter of get", FILE, f"{M}.get", "loc.data_type != data_type", "data_type != loc.data_type", None),
    V("benign: S12 repaired with a path guard", FILE, f"{M}.invalidate_location",
      "data_loc.data_type = DataType.INVALID\n        node.valid_paths[location.deployment][location.name].discard(data_loc.path)",
      "if data_loc.path == path:\n            data_loc.data_type = DataType.INVALID\n            node.valid_paths[location.deployment][location.name].discard(data_loc.path)", None),
    # ---- R8
    V("get_inner_path: mount points tried in ascending order (the containing mount first)", INNER_FILE, INNER, _MNT_LOOP, "for mount in sorted(path.location.mounts):", "R8"),
    V("get_inner_path: mount points tried in dictionary order", INNER_FILE, INNER, _MNT_LOOP, "for mount in path.location.mounts:", "R8"),
    V("get_inner_path: reverse=False", INNER_FILE, INNER, _MNT_LOOP, "for mount in sorted(path.location.mounts.keys(), reverse=False):", "R8"),
    V("get_inner_path: descending order reversed again", INNER_FILE, INNER, _MNT_LOOP, "for mount in reversed(sorted(path.location.mounts.keys(), reverse=True)):", "R8"),
    V("get_inner_path: shortest mount point first", INNER_FILE, INNER, _MNT_LOOP, "for mount in sorted(path.location.mounts, key=len):", "R8"),
    V("get_inner_path: list sorted in place, ascending", INNER_FILE, INNER, _MNT_LOOP,
      "mounts = list(path.location.mounts)\n        mounts.sort()\n        for mount in mounts:", "R8"),
    V("get_inner_path: order taken from a helper that sorts ascending", INNER_FILE, INNER, _MNT_LOOP, "for mount in _mount_points(path.location):", "R8",
      append="def _mount_points(location):\n    return sorted(location.mounts)\n"),
    V("get_inner_path: pairs ordered by the target, prefix test on the mount point", INNER_FILE, INNER, _MNT_LOOP,
      "for mount, _target in sorted(path.location.mounts.items(), key=lambda item: item[1], reverse=True):", "R8"),
    V("get_inner_path: last match kept over a descending enumeration", INNER_FILE, INNER, _MNT_HEAD, _MNT_LAST.replace("sorted(path.location.mounts)", "sorted(path.location.mounts, reverse=True)"), "R8"),
    V("get_inner_path: first match of an ascending generator", INNER_FILE, INNER, _MNT_HEAD, _MNT_NEXT.replace(", reverse=True", ""), "R8"),
    V("get_inner_path: shortest matching mount point selected", INNER_FILE, INNER, _MNT_HEAD, _MNT_MAX.replace("max(", "min("), "R8"),
    V("benign: sorted over the mapping itself", INNER_FILE, INNER, _MNT_LOOP, "for mount in sorted(path.location.mounts, reverse=True):", None),
    V("benign: reversed(sorted(...))", INNER_FILE, INNER, _MNT_LOOP, "for mount in reversed(sorted(path.location.mounts)):", None),
    V("benign: sorted(...)[::-1]", INNER_FILE, INNER, _MNT_LOOP, "for mount in sorted(path.location.mounts.keys())[::-1]:", None),
    V("benign: longest mount point first", INNER_FILE, INNER, _MNT_LOOP, "for mount in sorted(path.location.mounts, key=len, reverse=True):", None),
    V("benign: negated length as key", INNER_FILE, INNER, _MNT_LOOP, "for mount in sorted(path.location.mounts, key=lambda m: -len(m)):", None),
    V("benign: ordered mount points through a temporary", INNER_FILE, INNER, _MNT_LOOP,
      "mount_points = sorted(path.location.mounts.keys(), reverse=True)\n        for mount in mount_points:", None),
    V("benign: list sorted in place, descending", INNER_FILE, INNER, _MNT_LOOP,
      "mounts = list(path.location.mounts)\n        mounts.sort(reverse=True)\n        for mount in mounts:", None),
    V("benign: order taken from a helper that sorts descending", INNER_FILE, INNER, _MNT_LOOP, "for mount in _mount_points(path.location):", None,
      append="def _mount_points(location):\n    return sorted(location.mounts, reverse=True)\n"),
    V("benign: private helper sorts the mapping it is handed", INNER_FILE, INNER, _MNT_LOOP, "for mount in _most_specific_first(path.location.mounts):", None,
      append="def _most_specific_first(mounts):\n    return sorted(mounts, reverse=True)\n"),
    V("benign: (mount point, target) pairs in descending order", INNER_FILE, INNER, _MNT_LOOP, "for mount, _target in sorted(path.location.mounts.items(), reverse=True):", None),
    V("benign: last match kept over an ascending enumeration", INNER_FILE, INNER, _MNT_HEAD, _MNT_LAST, None),
    V("benign: first match of a descending generator", INNER_FILE, INNER, _MNT_HEAD, _MNT_NEXT, None),
    V("benign: longest matching mount point selected with max", INNER_FILE, INNER, _MNT_HEAD, _MNT_MAX, None),
    # ---- R9
    V("put: ancestors inherit the (not yet set) availability of the registered location", FILE, f"{M}.put", "available=True)", "available=data_location.available.is_set())", "R9"),
    V("put: ancestors created with the default availability", FILE, f"{M}.put", ", available=True)", ")", "R9"),
    V("put: ancestors created unavailable", FILE, f"{M}.put", "available=True)", "available=False)", "R9"),
    V("put: availability of the ancestors through a temporary that copies the caller's event", FILE, f"{M}.put",
      _ANC_SPAN, "ready = data_location.available.is_set()\n    " + _ANC_SPAN.replace("available=True)", "available=ready)"), "R9"),
    V("put: extracted constructor is handed the caller's availability", FILE, f"{M}.put", _ANC_CTOR,
      f"_ancestor_location(data_location, node_path, {_ANC_RELPATH}, data_location.available.is_set())", "R9", append=_ANC_HELPER),
    V("put: extracted constructor drops the availability", FILE, f"{M}.put", _ANC_CTOR,
      f"_ancestor_location(data_location, node_path, {_ANC_RELPATH}, True)", "R9", append=_ANC_HELPER.replace(", available=available)", ")")),
    V("benign: availability of the ancestors through a constant temporary", FILE, f"{M}.put",
      _ANC_SPAN, "ready = True\n    " + _ANC_SPAN.replace("available=True)", "available=ready)"), None),
    V("benign: ancestor constructor extracted into a module-level helper that is handed True", FILE, f"{M}.put", _ANC_CTOR,
      f"_ancestor_location(data_location, node_path, {_ANC_RELPATH}, True)", None, append=_ANC_HELPER),
    V("benign: ancestor constructor with positional arguments", FILE, f"{M}.put", _ANC_CTOR,
      f"DataLocation(data_location.location, node_path, {_ANC_RELPATH}, DataType.PRIMARY, True)", None),
    V("benign: B21-4 shape, conditional expression of put written as if/else", FILE, f"{M}.put",
      f"location = data_location if node_path == path else {_ANC_CTOR}",
      f"if node_path == path:\n            location = data_location\n        else:\n            location = {_ANC_CTOR}", None),
]
