"""C07 Recorded provenance is complete and acyclic.

Clauses decided (necessary conditions visible in the code's shape):
R1 every emitted data token is persisted: in every method of every `Step` subclass (class table), the argument of
   `<port>.put(arg)` is `await self._persist_token(...)` and the `port=` handed to `_persist_token` is the port the token
   is put on.  `TerminationToken(...)` constructions are control tokens (never persisted by design) and pass; three
   further sites are table exceptions, each checked against the reason it is listed for:
   `CWLLoopConditionalStep._on_false` (IterationTerminationToken, control), `ScatterStep.restore` (re-puts tokens of the
   old port's `token_list`, already persisted), `DefaultTransformer.restore` (placeholder `Token(None)` on restore).
R2 job-bound steps link the job token: in every class that adds the `__job__` input port in its constructor (and its
   subclasses) every `_persist_token(...)` passes `input_token_ids=get_entity_ids(<collection>)` whose collection holds
   `get_job_token(<job>.name, self.get_input_port('__job__').token_list)` next to the consumed inputs.
R3 acyclic by construction: `add_provenance` is called only from `BaseStep._persist_token` (which nobody overrides);
   there `raise if token.persistent_id` dominates the awaited `token.save(...)`, which dominates the awaited
   `add_provenance(inputs=input_token_ids, token=token.persistent_id)`; a None among the ids raises before the insert;
   the function returns the very token it saved; `Token.save` takes the id from `database.add_token`.
R4 `get_entity_ids` maps entities to `persistent_id` and drops only those without one; every concrete
   `Database.add_provenance` inserts one `(dependee=input, depender=token)` row per input (column order of the SQL text).
R5 (added) inputs are recorded: `input_token_ids` of every `_persist_token` call in a Step is `get_entity_ids(<non-empty>)`,
   or the combinator's collected `input_ids`, or `[]` only where the branch fact "the step has no input ports" holds at the
   call (sfverif.facts: a dominating test whose outcome on every path to the call implies it, whatever the spelling --
   `if P: .. else: HERE`, `if not P: HERE else: ..`, a guard clause, `len(P) == 0`, `empty = not P; if empty:`).  P is
   recognised by what it evaluates -- `self.input_ports`, `get_input_ports()`, a Step method returning a selection of
   them -- not by the name of the local it is bound to; the polarity of a `not` is tracked through locals.
   Helper extraction: when the site sits in a *private* method and what it records is decided by a parameter (the ids
   themselves, or the root of the get_entity_ids collection: `get_entity_ids(tokens)`, `get_entity_ids(inputs.values())`),
   the site is checked once per resolved call site of that method (dataflow._param_args, one level) with the parameter
   read as the caller's argument: `helper([])` / `_on_true({})` is an empty record and needs the no-ports fact at that
   call site (or at the site inside the helper); the finding names the call that passes the empty collection.
R6 (added) the consumed tag group is what is recorded: in every Step method that groups a received batch by tag
   (`_group_by_tag(<batch>, <map>)`) and binds a completed group (`<g> = <map>.pop(<tag>)`), nothing in the region dominated
   by the pop that feeds provenance or the step's own processing (the `input_token_ids` of a `_persist_token`, the arguments
   of calls to Step methods and of `Job(...)`) is computed from the raw batch (flow-sensitive reaching definitions): the
   batch holds the *last received* token of every port, which belongs to the completed group only when all ports deliver
   tags in the same order.  Table exception: DeployStep.run discards the popped group and records the batch (its ports
   carry one default-tagged connector token each, so batch == group); it is reported as an observation.  The exception
   covers *recording only*: the batch reaches `input_token_ids` of `_persist_token` directly, or through a private Step
   helper (resolved call, inlined one level) in which the bound parameter and the locals computed from it are read
   nowhere but in such `input_token_ids`; a helper that also processes the batch is a violation.
R7 (added) recorded inputs are persisted before they are recorded: `get_entity_ids` silently drops entities without id, so
   for every step field read by the `get_entity_ids(...)` collection of a `_persist_token` site, every store of a freshly
   constructed Token (sub)class instance into that field must be followed by an awaited `<that token>.save(...)` on every
   path from the construction to a call of the method that records it (or to the exit when there is no such call).
R8 (added) combinators hand on the ids of everything a combined token is made of: in every method of every `Combinator`
   subclass, each entry `{'token': T, 'input_ids': I}`: every schema entry whose `['token']` T is computed from (def-use
   closure, loop / comprehension variables replaced by what they range over) also has its `['input_ids']` (or, for a
   plain token, its `.persistent_id`) collected in I.  `X[<int>]` on the token side is covered by `<each of X>` in I.

Not decided here: that `inputs` handed to user-defined `transform` / `_on_true` implementations are all used (see META).
"""

from __future__ import annotations

import ast
import re

from ..dataflow import _param_args, reaching_defs
from ..facts import facts_at
from ..model import parent, unparse
from ..selftest import V
from ._util_C import (
    attr_of,
    binders,
    branch,
    const,
    defs_of,
    is_name,
    kwarg,
    leads_only_to_raise,
    must_pass,
    origins,
    resolves_to,
    strip_await,
    within,
)

WF = "streamflow.core.workflow"
STEP_BASE = f"{WF}.Step"
STEPM = "streamflow.workflow.step"
BASE = f"{STEPM}.BaseStep"
PERSIST = f"{BASE}._persist_token"
TERM = "streamflow.workflow.token.TerminationToken"
ITERM = "streamflow.workflow.token.IterationTerminationToken"
TOKEN = f"{WF}.Token"
PORT = f"{WF}.Port"
GEI = "streamflow.core.utils.get_entity_ids"
GJT = "streamflow.workflow.utils.get_job_token"
DB = "streamflow.core.persistence.Database"
GROUP = f"{STEPM}._group_by_tag"
JOB = f"{WF}.Job"
COMBINATOR = f"{STEPM}.Combinator"
SFILE = "streamflow/workflow/step.py"
CWLFILE = "streamflow/cwl/step.py"
UFILE = "streamflow/core/utils.py"
QFILE = "streamflow/persistence/sqlite.py"
CFILE = "streamflow/workflow/combinator.py"
CWLCFILE = "streamflow/cwl/combinator.py"
WFILE = "streamflow/core/workflow.py"

META = {
    "explanation": (
        "Class-table enumeration of every `.put(...)` in every Step subclass with def-use origin of the emitted token "
        "(persisted through BaseStep._persist_token on the same port), origin of `input_token_ids` (get_entity_ids over "
        "the consumed inputs, plus the job token in job-bound steps), CFG dominance inside _persist_token "
        "(id guard < save < add_provenance, None check), who-may-call add_provenance / overrides of _persist_token, and the "
        "shape of get_entity_ids and of the SQL insert. Decides necessary structural conditions; no workflow is executed "
        "and no provenance table is inspected."
    ),
    "undecided": (
        "that the listed inputs are exactly the tokens a value was computed from in user-defined transformers / "
        "combinators; monotonicity of SQLite row ids; steps loaded through plugins"
    ),
    "assumptions": [
        "SQLite assigns increasing row ids to inserted tokens (no deletion during a run)",
        "Combinator implementations collect `input_ids` from persisted tokens (see C02)",
    ],
}


# --------------------------------------------------------------------------- helpers


def _step_classes(p):
    return set(p.subclasses(STEP_BASE)) | {STEP_BASE}


def _sites(p, attr, classes):
    """(function, call) for every call `<x>.attr(...)` inside a method (or nested function) of `classes`,
    grouped per function in source order (syntactic call index of the engine, then filtered)."""
    out = [(f, c) for f, c in p.calls_by_attr(attr) if f.cls is not None and f.cls.qualname in classes
           and isinstance(c.func, ast.Attribute)]
    out.sort(key=lambda fc: (fc[0].file, fc[0].qualname, fc[1].lineno, fc[1].col_offset))
    return out


def _follow(f, e, depth=4):
    """Expressions a value may denote, following plain local assignments but keeping `await` visible."""
    if depth and is_name(e):
        ds = defs_of(f, e.id)
        if ds and all(d.kind in ("assign", "walrus") and d.index is None and d.value is not None for d in ds):
            out = []
            for d in ds:
                out.extend(_follow(f, d.value, depth - 1))
            return out
    return [e]


def _is_port_callee(p, f, c) -> bool:
    """The call may invoke a method of a Port subclass: unresolved receivers count, receivers whose static type is a
    program function/class outside the Port hierarchy or an external class (asyncio.Queue, ...) do not."""
    for r in p.resolve_call(f, c):
        if r.startswith("?"):
            return True
        k = p.functions.get(r)
        if k is not None:
            if k.cls is not None and p.is_subclass(k.cls.qualname, PORT):
                return True
            continue
        cq = r.rpartition(".")[0]
        if cq in p.classes and p.is_subclass(cq, PORT):
            return True
    return False


def _port_puts(p, classes):
    """(function, call, emitted expression) for every `<port>.put(<token>)` in the given classes."""
    out = []
    for f, c in _sites(p, "put", classes):
        if _is_port_callee(p, f, c):
            out.append((f, c, kwarg(c, "token", 0)))
    return out


def _putting_helpers(p) -> set[str]:
    """Names of Port-subclass methods (other than `put`) that emit a token themselves (`self.put(...)`, `super().put(...)`,
    `<target>.put(...)`), e.g. put_connector / put_job: calling them from a Step bypasses _persist_token."""
    names = set()
    for cq in [PORT, *p.subclasses(PORT)]:
        for m in p.cls(cq).methods.values():
            if m.name != "put" and any(isinstance(c.func, ast.Attribute) and c.func.attr == "put" for c in m.calls()):
                names.add(m.name)
    return names


def _persist_of(p, f, e):
    """(call, awaited) when `e` is `[await] self._persist_token(...)`."""
    aw = isinstance(e, ast.Await)
    c = strip_await(e)
    if isinstance(c, ast.Call) and resolves_to(p, f, c, PERSIST):
        return c, aw
    return None


def _persist_sites(p, classes):
    """Calls `<x>._persist_token(...)` (resolved to BaseStep._persist_token) in the given classes."""
    return [(f, c) for f, c in _sites(p, "_persist_token", classes) if resolves_to(p, f, c, PERSIST)]


def _same_port(f, recv, port_arg) -> bool:
    a = {unparse(o) for o in origins(f, recv)} | {unparse(recv)}
    b = {unparse(o) for o in origins(f, port_arg)} | {unparse(port_arg)}
    return bool(a & b)


# exceptions of R1: qualname -> (reason, predicate(p, f, put_call, value_expr))
def _is_ctor(p, f, e, *names):
    return isinstance(e, ast.Call) and resolves_to(p, f, e, *names)


def _ex_iteration_termination(p, f, c, e):
    return _is_ctor(p, f, e, ITERM)


def _ex_replay_token_list(p, f, c, e):
    # the loop variable of `for token in <port>.token_list`
    if not is_name(e):
        return False
    return any(is_name(t, e.id) and isinstance(it, ast.Attribute) and it.attr == "token_list" for t, it in binders(c))


def _ex_placeholder_none(p, f, c, e):
    return _is_ctor(p, f, e, TOKEN) and len(e.args) + len(e.keywords) == 1 and const(kwarg(e, "value", 0)) is None


EXCEPTIONS = {
    "streamflow.cwl.step.CWLLoopConditionalStep._on_false": ("IterationTerminationToken is a control token", _ex_iteration_termination),
    f"{STEPM}.ScatterStep.restore": ("re-puts already persisted tokens of the old port", _ex_replay_token_list),
    "streamflow.cwl.transformer.DefaultTransformer.restore": ("placeholder default on restore", _ex_placeholder_none),
}


# --------------------------------------------------------------------------- R1


def r1(ctx):
    p = ctx.prog
    seen_exc = set()
    classes = _step_classes(p)
    for f, c, val in _port_puts(p, classes):
        recv = c.func.value
        if val is None:
            ctx.ob("R1", "the emitted token of a port put can be identified", False, func=f, node=c,
                   instance=f"put-shape:{unparse(c)}"[:160], message=f"cannot interpret `{unparse(c)[:100]}` (no token argument)")
            continue
        for e in _follow(f, val):
            where = f"{f.qualname.split('.', 2)[-1]}"
            pc = _persist_of(p, f, e)
            if pc is not None:
                call, aw = pc
                port_arg = kwarg(call, "port", 1)
                tok = kwarg(call, "token", 0)
                ok = aw and tok is not None
                ctx.ob("R1", f"{where}: the emitted token is `await self._persist_token(...)`", ok, func=f, node=c,
                       instance=f"put:{unparse(recv)}:{unparse(tok) if tok is not None else '?'}"[:160],
                       message="the result of _persist_token is put without being awaited")
                ctx.ob("R1", f"{where}: the token is persisted on the port it is emitted on",
                       port_arg is not None and _same_port(f, recv, port_arg), func=f, node=c,
                       instance=f"put-port:{unparse(recv)}:{unparse(port_arg) if port_arg is not None else '?'}"[:160],
                       message=f"token put on `{unparse(recv)}` but persisted with port `{unparse(port_arg) if port_arg is not None else '?'}`")
                continue
            if _is_ctor(p, f, e, TERM):
                ctx.ob("R1", f"{where}: TerminationToken is a control token (not persisted by design)", True, func=f, node=c,
                       instance=f"put-termination:{unparse(recv)}", trivial=True)
                continue
            exc = EXCEPTIONS.get(f.qualname)
            if exc is not None and exc[1](p, f, c, e):
                seen_exc.add(f.qualname)
                ctx.ob("R1", f"{where}: table exception ({exc[0]})", True, func=f, node=c,
                       instance=f"put-exception:{unparse(c)}"[:160], trivial=True)
                continue
            ctx.ob("R1", f"{where}: the emitted token is persisted", False, func=f, node=c,
                   instance=f"put-raw:{unparse(recv)}:{unparse(e)}"[:160],
                   message=f"`{unparse(c)[:120]}` emits a token that did not pass through self._persist_token: it is missing "
                           "from the token and provenance tables")
    helpers = _putting_helpers(p)
    ctx.require({"put_connector", "put_job"} <= helpers, f"C07.R1: token-building Port helpers not recognised ({sorted(helpers)})")
    via = [(f, c) for h in sorted(helpers) for f, c in _sites(p, h, classes) if _is_port_callee(p, f, c)]
    ctx.ob("R1", f"no Step emits through a token-building Port helper ({', '.join(sorted(helpers))})", not via,
           func=via[0][0] if via else p.func(PERSIST), node=via[0][1] if via else None, instance="put-helper",
           message=f"`{unparse(via[0][1])[:100]}` builds and emits a token inside the port, bypassing _persist_token" if via else "")
    missing = [q for q in EXCEPTIONS if p.has(q) and q not in seen_exc]
    if missing:
        ctx.observe(f"C07.R1: exception table entries no longer needed: {missing}")


# --------------------------------------------------------------------------- R2


def _job_bound_classes(p):
    roots = []
    for cq in p.subclasses(STEP_BASE):
        init = p.cls(cq).methods.get("__init__")
        if init is None:
            continue
        for c in init.calls():
            if isinstance(c.func, ast.Attribute) and c.func.attr == "add_input_port" and is_name(c.func.value, "self") \
                    and c.args and const(c.args[0]) == "__job__":
                roots.append(cq)
    out = set()
    for r in roots:
        out.add(r)
        out.update(p.subclasses(r))
    return roots, out


def _job_token_elt(p, f, e):
    """`e` denotes get_job_token(<x>.name, self.get_input_port('__job__').token_list)."""
    for o in _follow(f, e):
        o = strip_await(o)
        if not (isinstance(o, ast.Call) and resolves_to(p, f, o, GJT)):
            return False
        a0, a1 = kwarg(o, "job_name", 0), kwarg(o, "token_list", 1)
        ok0 = isinstance(a0, ast.Attribute) and a0.attr == "name" and is_name(a0.value)
        ok1 = isinstance(a1, ast.Attribute) and a1.attr == "token_list" and isinstance(a1.value, ast.Call) \
            and isinstance(a1.value.func, ast.Attribute) and a1.value.func.attr == "get_input_port" \
            and a1.value.args and const(a1.value.args[0]) == "__job__"
        if not (ok0 and ok1):
            return False
    return True


def _entity_collection(p, f, ids):
    """Elements of the collection handed to get_entity_ids in `input_token_ids=get_entity_ids(<collection>)`."""
    for o in _follow(f, ids):
        if isinstance(o, ast.Call) and resolves_to(p, f, o, GEI) and len(o.args) == 1:
            for coll in _follow(f, o.args[0]):
                if isinstance(coll, (ast.List, ast.Tuple, ast.Set)):
                    return list(coll.elts)
    return None


def r2(ctx):
    p = ctx.prog
    roots, classes = _job_bound_classes(p)
    ctx.require(len(roots) >= 3, f"C07.R2: only {len(roots)} constructors add the `__job__` input port (floor 3)")
    for f, call in _persist_sites(p, classes):
        ids = kwarg(call, "input_token_ids", 2)
        elts = _entity_collection(p, f, ids) if ids is not None else None
        where = f.qualname.split(".", 2)[-1]
        if elts is None:
            ctx.ob("R2", f"{where}: input_token_ids is get_entity_ids(<collection with the job token>)", False, func=f, node=call,
                   instance=f"jobtoken:{where}",
                   message=f"`input_token_ids={unparse(ids)[:80] if ids is not None else '?'}` is not get_entity_ids over a literal "
                           "collection: the job token link cannot be established")
            ctx.ob("R2", f"{where}: consumed inputs next to the job token (not examinable)", True, func=f, node=call,
                   instance=f"jobtoken-inputs:{where}", trivial=True)
            continue
        jobs = [e for e in elts if not isinstance(e, ast.Starred) and _job_token_elt(p, f, e)]
        others = [e for e in elts if e not in jobs and not isinstance(e, ast.Constant)]
        ctx.ob("R2", f"{where}: the job token is among the recorded inputs", bool(jobs), func=f, node=call,
               instance=f"jobtoken:{where}",
               message=f"`{unparse(ids)[:120]}` does not contain get_job_token(job.name, self.get_input_port('__job__').token_list): "
                       "outputs are not linked to the job that produced them")
        ctx.ob("R2", f"{where}: the consumed inputs are recorded next to the job token", bool(others), func=f, node=call,
               instance=f"jobtoken-inputs:{where}",
               message=f"`{unparse(ids)[:120]}` records the job token only (consumed inputs missing)")


# --------------------------------------------------------------------------- R3


def r3(ctx):
    p = ctx.prog
    f = p.func(PERSIST)
    ctx.require(len(f.params) == 4, "C07.R3: _persist_token signature changed")
    _, tok_p, port_p, ids_p = f.params
    g = f.cfg
    # who may call add_provenance / who overrides _persist_token
    for cf, c in p.calls_by_attr("add_provenance"):
        ctx.ob("R3", "add_provenance is called only from BaseStep._persist_token", cf.qualname == PERSIST, func=cf, node=c,
               instance=f"add_provenance-caller:{cf.qualname}",
               message="a second writer of the provenance table bypasses the fresh-token guard of _persist_token (edges may point "
                       "to older tokens: cycles become possible)")
    for o in p.overrides(BASE, "_persist_token"):
        ctx.ob("R3", "_persist_token is defined once (no override without the guard)", o.qualname == PERSIST, func=o, node=o.node,
               instance=f"persist-override:{o.qualname}")
    # nodes
    def is_id_of_token(e):
        return attr_of(e, tok_p) == "persistent_id"

    guards = []
    for n in g.nodes.values():
        if n.kind != "test":
            continue
        e = n.ast
        if is_id_of_token(e):
            guards.append((n, "t"))
        elif isinstance(e, ast.Compare) and len(e.ops) == 1 and is_id_of_token(e.left) and const(e.comparators[0]) is None:
            guards.append((n, "t" if isinstance(e.ops[0], ast.IsNot) else "f"))
    saves = [n for n in g.nodes.values() if any(
        isinstance(c.func, ast.Attribute) and c.func.attr == "save" and is_name(c.func.value, tok_p) for c in n.calls())]
    provs = [(n, c) for n in g.nodes.values() for c in n.calls() if isinstance(c.func, ast.Attribute) and c.func.attr == "add_provenance"]
    ctx.require(len(saves) >= 1, "C07.R3: `token.save(...)` not found in _persist_token")
    ctx.require(len(provs) >= 1, "C07.R3: add_provenance call not found in _persist_token")
    save_ids = [n.id for n in saves]
    ok_guard = any(
        leads_only_to_raise(g, branch(g, t.id, edge)) and all(g.dominates(t.id, s) for s in save_ids) for t, edge in guards)
    ctx.ob("R3", "a token that already has an id is rejected before anything is saved", ok_guard, func=f,
           node=guards[0][0].ast if guards else f.node, instance="persist:fresh-guard",
           message="`raise if token.persistent_id` no longer dominates token.save: an existing token could become the depender of a "
                   "new edge (cycles possible)")
    for s in saves:
        c = [c for c in s.calls() if isinstance(c.func, ast.Attribute) and c.func.attr == "save"][0]
        pid = kwarg(c, "port_id", 1)
        ctx.ob("R3", "the token is saved (awaited) with the id of the port it belongs to",
               isinstance(parent(c), ast.Await) and pid is not None and attr_of(pid, port_p) == "persistent_id",
               func=f, node=c, instance="persist:save-port",
               message=f"`{unparse(parent(c))[:100]}`: the save is not awaited (the id is not assigned when edges are written) or uses another port id")
    for n, c in provs:
        ok_aw = isinstance(parent(c), ast.Await)
        ok_args = is_name(kwarg(c, "inputs", 0), ids_p) and is_id_of_token(kwarg(c, "token", 1) or ast.Constant(0))
        ctx.ob("R3", "awaited add_provenance(inputs=<input ids>, token=<the saved token's id>)", ok_aw and ok_args, func=f, node=c,
               instance="persist:add_provenance-args",
               message=f"`{unparse(c)[:120]}` is not awaited or does not record (input ids -> this token)")
        ctx.ob("R3", "token.save dominates add_provenance (the depender exists, with a fresh id, before edges are written)",
               g.dominates(save_ids, n.id), func=f, node=c, instance="persist:save<add_provenance",
               message="provenance edges are written before the token is saved: token.persistent_id is still None")
        # None among the ids raises first
        nchecks = [
            t for t in g.nodes.values()
            if t.kind == "test" and any(is_name(x, ids_p) for x in ast.walk(t.ast))
            and any(isinstance(x, ast.Constant) and x.value is None for x in ast.walk(t.ast))
        ]
        ok_none = any(g.dominates(t.id, n.id) and leads_only_to_raise(g, branch(g, t.id, "t")) for t in nchecks)
        ctx.ob("R3", "an unpersisted (None) input id raises before the insert", ok_none, func=f, node=c, instance="persist:none-check",
               message="a None among input_token_ids reaches add_provenance: a dependee that was never persisted is recorded")
    rets = [r for r in f.body_nodes() if isinstance(r, ast.Return)]
    ctx.ob("R3", "_persist_token returns the token it saved", bool(rets) and all(is_name(r.value, tok_p) for r in rets), func=f,
           node=rets[0] if rets else f.node, instance="persist:return")
    ctx.ob("R3", "every normal exit of _persist_token has saved the token", g.escape(g.entry, save_ids) is None, func=f, node=f.node,
           instance="persist:save-on-all-paths", message="a path through _persist_token returns without saving the token")
    # Token.save: the id comes from the database insert
    ts = p.func(f"{TOKEN}.save")
    asg = [n for n in ts.body_nodes() if isinstance(n, ast.Assign) and any(unparse(t) == "self.persistent_id" for t in n.targets)]
    ok = bool(asg) and all(
        isinstance(n.value, ast.Await) and isinstance(n.value.value, ast.Call) and isinstance(n.value.value.func, ast.Attribute)
        and n.value.value.func.attr == "add_token" for n in asg)
    ctx.ob("R3", "Token.save takes the persistent id from database.add_token", ok, func=ts, node=asg[0] if asg else ts.node,
           instance="token.save:id-source")
    subs = [o for o in p.overrides(TOKEN, "save") if o.qualname != f"{TOKEN}.save"]
    ctx.ob("R3", "no Token subclass overrides save()", not subs, func=subs[0] if subs else ts, node=(subs[0] if subs else ts).node,
           instance="token.save:overrides")


# --------------------------------------------------------------------------- R4


def r4(ctx):
    p = ctx.prog
    f = p.func(GEI)
    ctx.require(len(f.params) == 1, "C07.R4: get_entity_ids signature changed")
    src = f.params[0]
    rets = [r for r in f.body_nodes() if isinstance(r, ast.Return)]
    ctx.require(len(rets) == 1, "C07.R4: get_entity_ids has not exactly one return")
    ok = False
    for v in _follow(f, rets[0].value):
        if not (isinstance(v, ast.ListComp) and len(v.generators) == 1 and is_name(v.generators[0].target)):
            continue
        gen = v.generators[0]
        var = gen.target.id
        it = gen.iter
        over_src = is_name(it, src) or (isinstance(it, ast.BoolOp) and isinstance(it.op, ast.Or) and is_name(it.values[0], src)
                                        and all(isinstance(x, (ast.List, ast.Tuple)) and not x.elts for x in it.values[1:]))
        elt_ok = attr_of(v.elt, var) == "persistent_id"
        conds_ok = all(
            attr_of(c, var) == "persistent_id"
            or (isinstance(c, ast.Compare) and len(c.ops) == 1 and isinstance(c.ops[0], ast.IsNot)
                and attr_of(c.left, var) == "persistent_id" and const(c.comparators[0]) is None)
            for c in gen.ifs)
        ok = over_src and elt_ok and conds_ok and len(gen.ifs) <= 1
    ctx.ob("R4", "get_entity_ids maps every entity to its persistent_id and drops only those without id", ok, func=f, node=rets[0],
           instance="get_entity_ids:shape", message=f"`{unparse(rets[0])[:120]}` filters or maps differently")
    impls = p.concrete_impls(DB, "add_provenance")
    ctx.require(bool(impls), "C07.R4: no concrete Database.add_provenance")
    for m in impls:
        ctx.require(len(m.params) == 3, f"C07.R4: {m.qualname} signature changed")
        _, in_p, tok_p = m.params
        sqls = [n for n in m.body_nodes() if isinstance(n, ast.Constant) and isinstance(n.value, str) and "provenance" in n.value.lower()]
        ctx.require(len(sqls) == 1, f"C07.R4: SQL text of {m.qualname} not found")
        mm = re.search(r"insert\s+(?:or\s+\w+\s+)?into\s+provenance\s*\(([^)]*)\)\s*values\s*\(([^)]*)\)", sqls[0].value, re.I)
        ctx.require(mm is not None, f"C07.R4: cannot parse `{sqls[0].value}`")
        cols = [c.strip().lower() for c in mm.group(1).split(",")]
        ctx.require(sorted(cols) == ["dependee", "depender"] and mm.group(2).count("?") == 2,
                    f"C07.R4: unexpected column list {cols} in {m.qualname}")
        call = parent(sqls[0])
        ctx.require(isinstance(call, ast.Call) and len(call.args) >= 2, "C07.R4: SQL text is not the first argument of an execute call")
        many = isinstance(call.func, ast.Attribute) and call.func.attr == "executemany"
        ok = False
        for rows in _follow(m, call.args[1]):
            if many and isinstance(rows, (ast.ListComp, ast.GeneratorExp)) and len(rows.generators) == 1 and not rows.generators[0].ifs \
                    and is_name(rows.generators[0].iter, in_p) and is_name(rows.generators[0].target) \
                    and isinstance(rows.elt, ast.Tuple) and len(rows.elt.elts) == 2:
                var = rows.generators[0].target.id
                ok = is_name(rows.elt.elts[cols.index("dependee")], var) and is_name(rows.elt.elts[cols.index("depender")], tok_p)
        ctx.ob("R4", f"{m.cls.name}.add_provenance inserts one (dependee=input, depender=token) row per input", ok, func=m, node=call,
               instance=f"add_provenance:rows:{m.cls.name}",
               message=f"`{unparse(call.args[1])[:100]}` does not produce one (input, token) row per input in column order {cols}")


# --------------------------------------------------------------------------- R5


def _is_ports_value(p, f, e, depth=2, _seen=None) -> bool:
    """`e` *is* (a selection of) the step's input ports: `self.input_ports`, `get_input_ports()`, a Step method returning
    such a value, `.items()/.keys()/.values()`, `dict(..)`, a comprehension over one, or a local bound to one (whatever
    the local is called).  `not e` and `(x := e)` are looked through."""
    _seen = set() if _seen is None else _seen
    e = strip_await(e)
    while isinstance(e, (ast.NamedExpr, ast.UnaryOp)):
        if isinstance(e, ast.UnaryOp) and not isinstance(e.op, ast.Not):
            return False
        e = strip_await(e.value if isinstance(e, ast.NamedExpr) else e.operand)
    if isinstance(e, ast.Attribute):
        return e.attr == "input_ports"
    if isinstance(e, (ast.DictComp, ast.ListComp, ast.SetComp, ast.GeneratorExp)):
        return _is_ports_value(p, f, e.generators[0].iter, depth, _seen)
    if isinstance(e, ast.Call):
        if isinstance(e.func, ast.Attribute) and e.func.attr in ("items", "keys", "values", "copy") and not e.args:
            return _is_ports_value(p, f, e.func.value, depth, _seen)
        if isinstance(e.func, ast.Name) and e.func.id in ("dict", "list", "tuple", "set") and len(e.args) == 1:
            return _is_ports_value(p, f, e.args[0], depth, _seen)
        for r in p.resolve_call(f, e):
            if r.rpartition(".")[2] == "get_input_ports":
                return True
            k = p.functions.get(r)
            if k is not None and depth and k.cls is not None and p.is_subclass(k.cls.qualname, STEP_BASE) and r not in _seen:
                _seen.add(r)
                rets = [n.value for n in k.body_nodes() if isinstance(n, ast.Return) and n.value is not None]
                if rets and all(_is_ports_value(p, k, v, depth - 1, _seen) for v in rets):
                    return True
        return False
    if isinstance(e, ast.Name) and (f.qualname, e.id) not in _seen:
        _seen.add((f.qualname, e.id))
        ds = defs_of(f, e.id)
        return bool(ds) and all(d.kind in ("assign", "walrus") and d.index is None and d.value is not None
                                and _is_ports_value(p, f, d.value, depth, _seen) for d in ds)
    return False


def _ports_polarity(p, f, e, depth=4):
    """+1 when `e` is truthy exactly when the step has input ports (`_is_ports_value`), -1 when it is the negation
    (`not <ports>`, or a local bound to that: `empty = not ports`), None otherwise.  Walrus targets and local
    aliases are followed through def-use with the polarity they carry."""
    neg = False
    e = strip_await(e)
    while isinstance(e, ast.NamedExpr) or (isinstance(e, ast.UnaryOp) and isinstance(e.op, ast.Not)):
        if isinstance(e, ast.UnaryOp):
            neg = not neg
        e = strip_await(e.value if isinstance(e, ast.NamedExpr) else e.operand)
    pol = None
    if is_name(e) and depth:
        ds = defs_of(f, e.id)
        if ds and all(d.kind in ("assign", "walrus") and d.index is None and d.value is not None for d in ds):
            pols = {_ports_polarity(p, f, d.value, depth - 1) for d in ds}
            pol = pols.pop() if len(pols) == 1 else None
    elif not isinstance(e, (ast.UnaryOp, ast.BoolOp, ast.Compare)) and _is_ports_value(p, f, e):
        pol = 1
    if pol is None:
        return None
    return -pol if neg else pol


def _no_ports_fact(p, f, atom, truth) -> bool:
    """The branch fact `atom is truth` says that the step has no input ports: `<ports>` is false, `not <ports>` (through a
    local) is true, `len(<ports>)` is false, `len(<ports>) == 0` / `< 1` / `<= 0` is true, `len(<ports>) > 0` / `>= 1` is
    false (`!=` and a leading `not` are folded into the truth value by facts.atoms)."""
    def is_len(e):
        return isinstance(e, ast.Call) and isinstance(e.func, ast.Name) and e.func.id == "len" and len(e.args) == 1 \
            and not e.keywords and _ports_polarity(p, f, e.args[0]) == 1

    if isinstance(atom, ast.Compare):
        if len(atom.ops) != 1 or not is_len(atom.left):
            return False
        op, k = atom.ops[0], const(atom.comparators[0])
        if type(k) is not int:
            return False
        if (isinstance(op, ast.Eq) and k == 0) or (isinstance(op, ast.Lt) and k == 1) or (isinstance(op, ast.LtE) and k == 0):
            return truth is True
        if (isinstance(op, ast.Gt) and k == 0) or (isinstance(op, ast.GtE) and k == 1):
            return truth is False
        return False
    if is_len(atom):
        return truth is False
    if any(isinstance(x, ast.Call) and isinstance(x.func, ast.Name) and x.func.id == "len" for x in ast.walk(atom)):
        return False
    pol = _ports_polarity(p, f, atom)
    return pol is not None and (pol == 1) == (truth is False)


_VIEWS = ("values", "keys", "items", "copy")
_COPIES = ("list", "tuple", "set", "dict", "frozenset", "sorted")


def _view_root(e):
    """`X` of `X.values()` / `list(X)` / `tuple(X.items())` ...: wrappers that are empty exactly when `X` is."""
    while isinstance(e, ast.Call) and not e.keywords:
        if isinstance(e.func, ast.Attribute) and e.func.attr in _VIEWS and not e.args:
            e = e.func.value
        elif isinstance(e.func, ast.Name) and e.func.id in _COPIES and len(e.args) == 1 and not isinstance(e.args[0], ast.Starred):
            e = e.args[0]
        else:
            break
    return e


def _only_param(f, name) -> bool:
    ds = defs_of(f, name)
    return bool(ds) and all(d.kind == "param" for d in ds)


def _bound(e, bind):
    """`e` with a helper parameter at its root replaced by the argument of the calling context (`bind`: name -> expr)."""
    r = _view_root(e)
    if is_name(r) and r.id in bind:
        return _view_root(bind[r.id]), True
    return r, False


def _is_empty_display(e) -> bool:
    return e is None or (isinstance(e, (ast.List, ast.Tuple, ast.Set)) and not e.elts) or (isinstance(e, ast.Dict) and not e.keys) \
        or const(e) is None


def _ids_kinds(p, f, ids, bind, _depth=1):
    """Classification of every value `input_token_ids=<ids>` may denote in `f`: 'ids' (get_entity_ids over something),
    'empty' (`[]`, `get_entity_ids([])`, `get_entity_ids({}.values())`), 'combinator' (collected `input_ids`), 'other'.
    `bind` maps the parameters of a private helper to the argument expressions of one calling context: a parameter that
    is the recorded ids, or the root of the collection handed to get_entity_ids, is read as what that caller passes.
    -> [(kind, via_caller)]"""
    kinds = []
    for o in _follow(f, ids):
        if is_name(o) and o.id in bind and _depth:
            g, e = bind[o.id]
            kinds.extend((k, True) for k, _ in _ids_kinds(p, g, e, {}, _depth - 1))
        elif isinstance(o, ast.Call) and resolves_to(p, f, o, GEI):
            arg = kwarg(o, "persistable_entities", 0)
            root, via = _bound(arg, {k: v[1] for k, v in bind.items()}) if arg is not None else (None, False)
            kinds.append(("empty" if _is_empty_display(root) else "ids", via))
        elif isinstance(o, (ast.List, ast.Tuple)) and not o.elts:
            kinds.append(("empty", False))
        elif any(isinstance(x, ast.Subscript) and const(x.slice) == "input_ids" for x in ast.walk(o)):
            kinds.append(("combinator", False))
        else:
            kinds.append(("other", False))
    return kinds


def _ids_params(p, f, ids):
    """Parameters of `f` that decide what `input_token_ids=<ids>` records: the ids themselves (`input_token_ids=ids`) or the
    root of the get_entity_ids collection (`get_entity_ids(tokens)`, `get_entity_ids(inputs.values())`)."""
    out = []
    for o in _follow(f, ids):
        r = None
        if is_name(o):
            r = o
        elif isinstance(o, ast.Call) and resolves_to(p, f, o, GEI) and o.args:
            r = _view_root(o.args[0])
        if is_name(r) and r.id not in ("self", "cls") and _only_param(f, r.id) and r.id not in out:
            out.append(r.id)
    return out


def _calling_contexts(p, f, names):
    """[(caller, call, {param: (caller, argument)})] for every resolved call site of the *private* method `f` (helper
    extraction: the recording site moved into a helper, what is recorded is decided by the callers); None when `f` is
    not a private helper with resolved call sites or a binding is unknown (dataflow._param_args)."""
    if not names:
        return None
    per = {n: _param_args(p, f, n) for n in names}
    if any(v is None for v in per.values()):
        return None
    sites = p.callers(f.qualname)
    if not sites or any(len(v) != len(sites) for v in per.values()) or len(sites) > 8:
        return None
    return [(g, c, {n: per[n][i] for n in names}) for i, (g, c) in enumerate(sites)]


def _no_ports_at(p, f, node) -> bool:
    g = f.cfg
    cid = g.node_containing(node)
    return bool(cid) and all(any(_no_ports_fact(p, f, a, v) for a, v in facts_at(g, i)) for i in cid)


def r5(ctx):
    p = ctx.prog
    for f, call in _persist_sites(p, _step_classes(p)):
        ids = kwarg(call, "input_token_ids", 2)
        where = f.qualname.split(".", 2)[-1]
        inst = f"inputs:{where}:{unparse(kwarg(call, 'token', 0) or call)[:60]}:{unparse(ids)[:60] if ids is not None else '?'}"
        if ids is None:
            ctx.ob("R5", f"{where}: input_token_ids is passed", False, func=f, node=call, instance=inst)
            continue
        # one instance per calling context when the site sits in a private helper whose parameter decides what is recorded
        contexts = _calling_contexts(p, f, _ids_params(p, f, ids)) or [(None, None, {})]
        many = len(contexts) > 1
        seen_inst = {}
        for g, site, bind in contexts:
            kinds = _ids_kinds(p, f, ids, bind)
            via = g is not None and any(v for _, v in kinds)  # decided by what this caller passes
            ok = bool(kinds) and all(k in ("ids", "combinator") for k, _ in kinds)
            frm = f" (called from {g.qualname.split('.', 2)[-1]}: `{unparse(site)[:70]}`)" if g is not None else ""
            msg = f"`input_token_ids={unparse(ids)[:80]}`{frm} is not derived from the consumed inputs"
            if kinds and all(k == "empty" for k, _ in kinds):
                # allowed only where the step has no input ports: a branch fact "<the ports> is empty" holds at the call
                # (facts are independent of the spelling of the test: `if P: .. else: HERE`, `if not P: HERE`, guard clauses);
                # for a helper the fact may hold at the call site of this context instead
                ok = _no_ports_at(p, f, call) or (g is not None and _no_ports_at(p, g, site))
                what = f"`{unparse(site)[:80]}` makes {f.name} record `input_token_ids=[]`" if via else "`input_token_ids=[]`"
                msg = f"{what} on a path where the step consumed inputs: the emitted token has no provenance"
            ci = inst
            if many:
                ci = f"{inst}@{g.qualname.split('.', 2)[-1]}:{unparse(site)[:60]}"
                seen_inst[ci] = seen_inst.get(ci, 0) + 1
                if seen_inst[ci] > 1:
                    ci += f"#{seen_inst[ci]}"
            at_site = via and not ok
            ctx.ob("R5", f"{where}: the consumed inputs are recorded as provenance{frm if many else ''}", ok,
                   func=g if at_site else f, node=site if at_site else call, instance=ci, message=msg)


# --------------------------------------------------------------------------- R6


def _def_key(name, d):
    return (name, d.kind, id(d.stmt))


def _slice(f, expr, at, depth=6, _seen=None):
    """(name, Def) of the local definitions `expr` (evaluated at `at`) is computed from, transitively, following the
    definitions that *reach* each use (flow-sensitive)."""
    _seen = {} if _seen is None else _seen
    for n in ast.walk(expr):
        if not (isinstance(n, ast.Name) and isinstance(n.ctx, ast.Load)):
            continue
        for d in reaching_defs(f, n.id, at):
            k = _def_key(n.id, d)
            if k in _seen:
                continue
            _seen[k] = (n.id, d)
            if depth and d.value is not None and d.kind in ("assign", "walrus", "aug", "for", "with"):
                nxt = d.stmt if isinstance(d.stmt, (ast.stmt, ast.NamedExpr)) else at
                _slice(f, d.value, nxt, depth - 1, _seen)
    return list(_seen.values())


def _group_sites(p, classes):
    """(function, batch name, map name, call) for every `_group_by_tag(<batch>, <map>)` in a Step method."""
    out = []
    for f, c in p.callers(GROUP):
        if f.cls is None or f.cls.qualname not in classes:
            continue
        b, m = kwarg(c, "inputs", 0), kwarg(c, "inputs_map", 1)
        out.append((f, b, m, c))
    out.sort(key=lambda x: (x[0].file, x[0].qualname, x[3].lineno))
    return out


def _processing_args(p, f, node, classes):
    """(call, argument expressions) of the calls evaluated at a CFG node that hand values to the step's own processing:
    methods of Step classes and the Job constructor (for `_persist_token` only the recorded ids)."""
    out = []
    for c in node.calls():
        rs = p.resolve_call(f, c)
        if PERSIST in rs:
            ids = kwarg(c, "input_token_ids", 2)
            out.append((c, [ids] if ids is not None else []))
            continue
        hit = JOB in rs
        for r in rs:
            k = p.functions.get(r)
            if k is not None and k.cls is not None and k.cls.qualname in classes:
                hit = True
        if hit:
            out.append((c, [*c.args, *[kw.value for kw in c.keywords]]))
    return out


# exceptions of R6: qualname -> reason (applies only when the sole stale use is the recorded ids of a discarded group)
R6_EXCEPTIONS = {
    f"{STEPM}.DeployStep.run": "the ports of a DeployStep carry one connector token each, all with the default tag: batch == group; "
                               "latent: would mislink with several differently ordered tags",
}


def _param_bound_to(k, c, a):
    """Name of the parameter of method `k` that the argument expression `a` of the call `c` is bound to (None: unknown)."""
    args = k.node.args
    pos = [x.arg for x in args.posonlyargs + args.args]
    names = set(pos) | {x.arg for x in args.kwonlyargs}
    if pos and pos[0] in ("self", "cls") and k.cls is not None and isinstance(c.func, ast.Attribute):
        pos = pos[1:]
    for i, x in enumerate(c.args):
        if isinstance(x, ast.Starred):
            return None
        if x is a:
            return pos[i] if i < len(pos) else None
    for kw in c.keywords:
        if kw.value is a:
            return kw.arg if kw.arg in names else None
    return None


def _only_recorded(p, f, c, a, classes):
    """The argument `a` of the call `c` (evaluated in `f`) only ever becomes recorded provenance: `c` is `_persist_token`
    itself (then `a` is its `input_token_ids`), or `c` resolves to private Step helper(s) in which the parameter bound to
    `a` -- and the locals computed from it -- are read only inside the `input_token_ids` of `_persist_token` calls
    (helper extraction, inlined one level).  -> (True, [helper names]) or (False, [])"""
    if resolves_to(p, f, c, PERSIST):
        return True, []
    rs = p.resolve_call(f, c)
    if not rs:
        return False, []
    via = []
    for r in rs:
        k = p.functions.get(r)
        if k is None or k.cls is None or k.cls.qualname not in classes or not k.name.startswith("_") or k.name.startswith("__"):
            return False, []
        name = _param_bound_to(k, c, a)
        if name is None or not _only_param(k, name):
            return False, []
        ids = [kwarg(pc, "input_token_ids", 2) for pc in k.calls() if resolves_to(p, k, pc, PERSIST)]
        ids = [e for e in ids if e is not None]
        if not ids:
            return False, []
        tainted, grew = {name}, True
        plain = [n for n in ast.walk(k.node) if isinstance(n, ast.Assign) and len(n.targets) == 1 and is_name(n.targets[0])]
        while grew:
            grew = False
            for n in plain:
                if n.targets[0].id not in tainted and any(is_name(x) and x.id in tainted for x in ast.walk(n.value)):
                    tainted.add(n.targets[0].id)
                    grew = True
        for n in ast.walk(k.node):
            if not (isinstance(n, ast.Name) and isinstance(n.ctx, ast.Load) and n.id in tainted):
                continue
            if any(within(n, e) for e in ids) or any(n_.targets[0].id in tainted and within(n, n_.value) for n_ in plain):
                continue
            return False, []
        via.append(k.name)
    return True, via


def r6(ctx):
    p = ctx.prog
    classes = _step_classes(p)
    sites = _group_sites(p, classes)
    ctx.require(len(sites) >= 5, f"C07.R6: only {len(sites)} Step methods group a batch by tag (floor 5)")
    for f, b, m, gc in sites:
        where = f.qualname.split(".", 2)[-1]
        if not (is_name(b) and is_name(m)):
            ctx.ob("R6", f"{where}: the batch and the grouping map of _group_by_tag are locals", False, func=f, node=gc,
                   instance=f"group-shape:{where}", message=f"cannot interpret `{unparse(gc)[:100]}`")
            continue
        g = f.cfg
        batch = {_def_key(b.id, d) for d in reaching_defs(f, b.id, gc)}
        # completed groups: `<g> = <map>.pop(<tag>)` (tgt None: the popped group is not bound to a local)
        pops = []
        for n in f.body_nodes():
            if isinstance(n, ast.Call) and isinstance(n.func, ast.Attribute) and n.func.attr == "pop" and is_name(n.func.value, m.id):
                st = parent(n)
                while isinstance(st, ast.Await):
                    st = parent(st)
                tgt = None
                if isinstance(st, ast.Assign) and len(st.targets) == 1 and is_name(st.targets[0]):
                    tgt = st.targets[0].id
                elif isinstance(st, ast.AnnAssign) and is_name(st.target):
                    tgt = st.target.id
                elif isinstance(st, ast.NamedExpr):
                    tgt = st.target.id
                pops.append((n, st, tgt))
        ctx.ob("R6", f"{where}: a completed tag group is taken out of the grouping map", bool(pops), func=f, node=gc,
               instance=f"group-pop:{where}", trivial=bool(pops),
               message=f"`{unparse(gc)}` groups the batch by tag but no `{m.id}.pop(<tag>)` selects a completed group")
        for k, (n, st, tgt) in enumerate(pops):
            pid = g.node_containing(n)
            ctx.require(bool(pid), f"C07.R6: {f.qualname}: `{unparse(st)[:80]}` not found in the CFG")
            stale = []
            outside = g.reach([g.entry], avoid=pid, include_src=True)  # nodes reachable without evaluating the pop
            for node in g.nodes.values():
                if node.id in pid or node.id in outside or not node.calls():
                    continue
                for c, args in _processing_args(p, f, node, classes):
                    for a in args:
                        hit = next((nm for nm, d in _slice(f, a, c) if _def_key(nm, d) in batch), None)
                        if hit is not None:
                            stale.append((c, a, hit))
            inst = f"group:{where}" + (f":{k}" if k else "")
            exc = R6_EXCEPTIONS.get(f.qualname)
            rec = [_only_recorded(p, f, c, a, classes) for c, a, _ in stale] if tgt is None and exc is not None else []
            if rec and all(r for r, _ in rec):
                via = sorted({h for _, hs in rec for h in hs})
                ctx.observe(f"C07.R6: {f.qualname}: `{unparse(st)[:60]}` discards the completed tag group and `{unparse(stale[0][1])[:60]}` "
                            f"records the last received batch" + (f" (through the helper {', '.join(via)}, where it only becomes "
                                                                   "`input_token_ids`)" if via else "") + f"; table exception ({exc})")
                ctx.ob("R6", f"{where}: table exception ({exc})", True, func=f, node=st, instance=inst, trivial=True)
                continue
            grp = f"`{tgt} = {m.id}.pop(..)`" if tgt else f"`{m.id}.pop(..)`"
            what = f"`{unparse(stale[0][0])[:90]}` is computed from `{stale[0][2]}` as received by the last read" if stale else ""
            ctx.ob("R6", f"{where}: after {grp} only the completed tag group is processed and recorded", not stale,
                   func=f, node=stale[0][0] if stale else st, instance=inst,
                   message=f"{what}, not from the completed tag group `{unparse(st)[:60]}`: the recorded inputs are the tokens of the "
                           "last batch (other tags) whenever ports deliver tags in different orders",
                   witness=[f"line {c.lineno}: {unparse(a)[:80]}" for c, a, _ in stale[:6]])


# --------------------------------------------------------------------------- R7


def _is_token_ctor(p, f, e) -> bool:
    e = strip_await(e)
    if not isinstance(e, ast.Call):
        return False
    return any(r in p.classes and p.is_subclass(r, TOKEN) for r in p.resolve_call(f, e))


def _self_field(e):
    """`A` when `e` is rooted at `self.A` (self.A, self.A[k], self.A[k].x, self.A.get(k), ...)."""
    while True:
        if isinstance(e, ast.Attribute) and is_name(e.value, "self"):
            return e.attr
        if isinstance(e, (ast.Attribute, ast.Subscript, ast.Starred)):
            e = e.value
        elif isinstance(e, ast.Call):
            e = e.func
        else:
            return None


def _recorded_fields(p, classes):
    """{(class, field): [consumer Func]}: step fields read by the get_entity_ids collection of a _persist_token site."""
    out = {}
    for f, call in _persist_sites(p, classes):
        ids = kwarg(call, "input_token_ids", 2)
        if ids is None:
            continue
        for o in _follow(f, ids):
            if not (isinstance(o, ast.Call) and resolves_to(p, f, o, GEI) and o.args):
                continue
            for coll in _follow(f, o.args[0]):
                for x in ast.walk(coll):
                    if isinstance(x, ast.Attribute) and is_name(x.value, "self") and p.resolve_method(f.cls.qualname, x.attr) is None:
                        out.setdefault((f.cls.qualname, x.attr), [])
                        if f not in out[(f.cls.qualname, x.attr)]:
                            out[(f.cls.qualname, x.attr)].append(f)
    return out


def _field_stores(f, field):
    """(statement or call, target text or None, stored value) for the stores into `self.<field>` in `f`."""
    out = []
    for n in f.body_nodes():
        if isinstance(n, (ast.Assign, ast.AnnAssign)) and n.value is not None:
            for t in (n.targets if isinstance(n, ast.Assign) else [n.target]):
                if not is_name(t) and _self_field(t) == field:
                    out.append((n, unparse(t), n.value))
        elif isinstance(n, ast.Call) and isinstance(n.func, ast.Attribute) and n.func.attr in ("append", "add", "insert", "setdefault", "appendleft") \
                and _self_field(n.func.value) == field and n.args:
            out.append((n, None, n.args[-1]))
    return out


def r7(ctx):
    p = ctx.prog
    classes = _step_classes(p)
    fields = _recorded_fields(p, classes)
    for (cq, field), consumers in sorted(fields.items()):
        family = [c for c in classes if p.is_subclass(c, cq) or p.is_subclass(cq, c)]
        # methods whose call leads to the recording site (the consumer itself and its direct callers in the family)
        cons = {c.qualname for c in consumers}
        for q in [q for q in cons if q.rpartition(".")[2] != "run"]:
            cons.update(cf.qualname for cf, _ in p.callers(q) if cf.cls is not None and cf.cls.qualname in family and cf.name != "run")
        fresh = 0
        for c in sorted(family):
            for F in p.cls(c).methods.values():
                for st, tgt, val in _field_stores(F, field):
                    ctors = [e for e in _follow(F, val) if _is_token_ctor(p, F, e)]
                    if not ctors:
                        continue
                    fresh += 1
                    g = F.cfg
                    where = F.qualname.split(".", 2)[-1]
                    aliases = {x for x in (tgt, val.id if is_name(val) else None) if x}
                    saves = [n.id for n in g.nodes.values() for k in n.calls()
                             if isinstance(k.func, ast.Attribute) and k.func.attr == "save" and unparse(k.func.value) in aliases
                             and isinstance(parent(k), ast.Await)]
                    src = [i for e in ctors for i in g.node_containing(e)]
                    ctx.require(bool(src), f"C07.R7: {F.qualname}: construction `{unparse(ctors[0])[:60]}` not found in the CFG")
                    calls = [n.id for n in g.nodes.values() if any(set(p.resolve_call(F, k)) & cons for k in n.calls())]
                    after = [i for i in calls if any(g.path(s_, [i]) is not None for s_ in src)]
                    targets = after or [g.exit]
                    ok = bool(saves) and all(must_pass(g, s_, targets, saves) for s_ in src)
                    bad = next((g.path(s_, targets, avoid=saves) for s_ in src if not must_pass(g, s_, targets, saves)), None) if saves else None
                    ctx.ob("R7", f"{where}: the fresh token stored in self.{field} is saved before {', '.join(sorted(q.rpartition('.')[2] for q in cons))} records it",
                           ok, func=F, node=st, instance=f"fresh:{where}:{field}",
                           message=f"`{unparse(st)[:90]}` stores a token without id in self.{field}, which "
                                   f"{consumers[0].qualname.split('.', 2)[-1]} hands to get_entity_ids: "
                                   + ("it is never saved (awaited) here" if not saves else "a path reaches the recording call before the awaited save")
                                   + "; get_entity_ids drops it silently, the emitted token loses this provenance edge (and the dependee "
                                     "would be persisted after its depender)",
                           witness=g.describe(bad) if bad else [])
        ctx.ob("R7", f"{cq.rpartition('.')[2]}.{field}: stores of fresh tokens enumerated ({fresh})", True, func=consumers[0], node=consumers[0].node,
               instance=f"fresh-enum:{cq}:{field}", trivial=True)
    # floor: the forced gather of GatherStep.run (1 fresh store) + one enumeration record per recorded field (3)


# --------------------------------------------------------------------------- R8


class _Subst(ast.NodeTransformer):
    def __init__(self, env, generalise):
        self.env, self.generalise = env, generalise

    def visit_Name(self, node):
        return ast.Name(id=self.env[node.id], ctx=ast.Load()) if node.id in self.env else node

    def visit_Subscript(self, node):
        node = self.generic_visit(node)
        if self.generalise and isinstance(node.slice, ast.Constant) and isinstance(node.slice.value, int):
            return ast.Name(id=f"<each {unparse(node.value)}>", ctx=ast.Load())
        return node


def _render(e, env, generalise=False) -> str:
    # re-parse instead of deep-copying: program nodes carry parent links
    return unparse(_Subst(env, generalise).visit(ast.parse(unparse(e), mode="eval").body))


def _binders_in_scope(node):
    """`binders(node)` plus the earlier generators of a comprehension when `node` sits in a later generator
    (`[i for n in names for i in schema[n]['input_ids']]`: `n` is bound where `schema[n]` is evaluated)."""
    out = []
    child = node
    a = parent(node)
    while a is not None and not isinstance(a, (ast.FunctionDef, ast.AsyncFunctionDef, ast.Lambda)):
        if isinstance(a, (ast.For, ast.AsyncFor)):
            if any(child is s_ for s_ in a.body):
                out.append((a.target, a.iter))
        elif isinstance(a, (ast.ListComp, ast.SetComp, ast.GeneratorExp, ast.DictComp)):
            gens = list(a.generators)
            if any(child is gen for gen in gens):
                gens = gens[: [child is gen for gen in gens].index(True)]
            for gen in reversed(gens):
                out.append((gen.target, gen.iter))
        elif isinstance(a, ast.comprehension):
            # inside the iterable / conditions of a generator: the generator itself binds only for its `ifs`
            pass
        child = a
        a = parent(a)
    return out


def _describe(e, generalise=False) -> str:
    """Canonical text of `e` with the loop / comprehension variables in scope replaced by what they range over
    (`for k, t in X.items()` and `for t in X.values()` give the same text for `t`)."""
    env: dict[str, str] = {}
    for tgt, it in reversed(_binders_in_scope(e)):  # outermost first: inner binders see (and shadow) outer ones
        if is_name(tgt):
            env[tgt.id] = f"<each {_render(it, env)}>"
        elif isinstance(tgt, (ast.Tuple, ast.List)):
            new = {}
            for i, el in enumerate(tgt.elts):
                if not is_name(el):
                    continue
                if isinstance(it, ast.Call) and isinstance(it.func, ast.Attribute) and it.func.attr == "items" and not it.args and i < 2:
                    new[el.id] = f"<each {_render(it.func.value, env)}.{'keys' if i == 0 else 'values'}()>"
                else:
                    new[el.id] = f"<each {_render(it, env)}>#{i}"
            env.update(new)
    return _render(e, env, generalise)


def _closure(f, e, depth=6):
    """Expressions `e` is computed from: `e` and, transitively, the values assigned to the locals it mentions
    (flow-insensitive; loop variables are not followed, _describe expands them)."""
    out, seen, todo = [], set(), [(e, depth)]
    while todo:
        x, dep = todo.pop()
        out.append(x)
        if not dep:
            continue
        for n in ast.walk(x):
            if isinstance(n, ast.Name) and isinstance(n.ctx, ast.Load) and n.id not in seen:
                seen.add(n.id)
                for d in defs_of(f, n.id):
                    if d.kind in ("assign", "walrus", "aug") and d.value is not None:
                        todo.append((d.value, dep - 1))
    return out


def _entry_bases(f, e, key):
    """Bases B of the `B['<key>']` subscripts in the def-use closure of `e`."""
    return [x.value for c in _closure(f, e) for x in ast.walk(c) if isinstance(x, ast.Subscript) and const(x.slice) == key]


def r8(ctx):
    p = ctx.prog
    for cq in sorted([COMBINATOR, *p.subclasses(COMBINATOR)]):
        for f in p.cls(cq).methods.values():
            where = f.qualname.split(".", 2)[-1]
            n_entry = 0
            for d in f.body_nodes():
                if not isinstance(d, ast.Dict):
                    continue
                kv = {const(k): v for k, v in zip(d.keys, d.values) if k is not None}
                if "token" not in kv or "input_ids" not in kv:
                    continue
                n_entry += 1
                T, I = kv["token"], kv["input_ids"]
                need = [(_describe(b), _describe(b, True), f"{unparse(b)}['token']") for b in _entry_bases(f, T, "token")]
                have = {_describe(b) for b in _entry_bases(f, I, "input_ids")}
                have |= {_describe(x.value) for c in _closure(f, I) for x in ast.walk(c)
                         if isinstance(x, ast.Attribute) and x.attr == "persistent_id"}
                if not need:
                    # a plain token (not a schema entry): `tok`, `tok.retag(..)`, `tok.update(..)`
                    r = strip_await(T)
                    while isinstance(r, ast.Call) and isinstance(r.func, ast.Attribute) and r.func.attr in ("retag", "update"):
                        r = r.func.value
                    if is_name(r) or isinstance(r, (ast.Subscript, ast.Attribute)):
                        need = [(_describe(r), _describe(r, True), unparse(r))]
                    elif not _is_token_ctor(p, f, r):
                        ctx.ob("R8", f"{where}: the sources of a combined token can be identified", False, func=f, node=d,
                               instance=f"entry-shape:{where}:{n_entry}", message=f"cannot relate `{unparse(T)[:80]}` to the schema entries it is made of")
                        continue
                missing = [txt for exact, gen, txt in need if exact not in have and gen not in have]
                ctx.ob("R8", f"{where}: the input_ids of a combined entry cover every token it is made of", not missing, func=f, node=d,
                       instance=f"entry:{where}:{n_entry}",
                       message=f"the token is computed from {', '.join(f'`{m}`' for m in dict.fromkeys(missing))} but `input_ids={unparse(I)[:70]}` "
                               f"collects ids only from {sorted(have) or 'nothing'}: CombinatorStep records an incomplete provenance "
                               "for the combined token")


RULES = [("R1", r1), ("R2", r2), ("R3", r3), ("R4", r4), ("R5", r5), ("R6", r6), ("R7", r7), ("R8", r8)]
FLOORS = {"R1": 40, "R2": 8, "R3": 11, "R4": 2, "R5": 20, "R6": 12, "R7": 4, "R8": 6}

_GATHER_PUT = "output_port.put(await self._persist_token(token=ListToken(tag=key, value=sorted(self.token_map[key], key=cmp_to_key(lambda x, y: compare_tags(x.tag, y.tag)))), port=output_port, input_token_ids=get_entity_ids([self.size_map[key], *self.token_map[key]])))"

_PROV_BLOCK = (
    "    if input_token_ids:\n"
    "        if any((id_ is None for id_ in input_token_ids)):\n"
    "            raise WorkflowExecutionException(f'Step {self.name} cannot establish provenance: One or more input tokens have not been persisted: {input_token_ids}')\n"
    "        await self.workflow.context.database.add_provenance(inputs=input_token_ids, token=token.persistent_id)\n"
)

_TR_GROUP = (
    "inputs = inputs_map.pop(tag)\n"
    "                        if check_iteration_termination(inputs.values()):\n"
    "                            for port_name, token in inputs.items():\n"
    "                                self.get_output_port(port_name).put(await self._persist_token(token=token.update(token.value), "
    "port=self.get_output_port(port_name), input_token_ids=get_entity_ids(inputs.values())))\n"
    "                        else:\n"
    "                            for port_name, token in (await self.transform(inputs)).items():\n"
)

# `if A: X else: Y` of DeployStep.run / Transformer.run (normalised text) for the swapped-branches variants
_DEPLOY_PUT = (
    "self.get_output_port().put(await self._persist_token(token=Token(value=self.deployment_config.name, recoverable=True), "
    "port=self.get_output_port(), input_token_ids={}))\n"
)
_DEPLOY_THEN = (
    "            inputs_map: dict[str, dict[str, Token]] = {}\n"
    "            while True:\n"
    "                inputs = await self._get_inputs(self.get_input_ports())\n"
    "                if check_termination(inputs.values()):\n"
    "                    status = _reduce_statuses([t.value for t in inputs.values()])\n"
    "                    break\n"
    "                _group_by_tag(inputs, inputs_map)\n"
    "                for tag in list(inputs_map.keys()):\n"
    "                    if len(inputs_map[tag]) == len(self.input_ports):\n"
    "                        inputs_map.pop(tag)\n"
    "                        await self.workflow.context.deployment_manager.deploy(self.deployment_config)\n"
    "                        " + _DEPLOY_PUT.format("get_entity_ids(inputs.values())")
)
_DEPLOY_ELSE = (
    "            await self.workflow.context.deployment_manager.deploy(self.deployment_config)\n"
    "            " + _DEPLOY_PUT.format("[]") +
    "            status = Status.COMPLETED\n"
)
# helper extraction in DeployStep.run (benign B12-1): both deploy-and-put blocks move into a private coroutine that receives
# the tokens to record; the helper is appended after `run` (same class)
_DEPLOY_TAIL = (
    "        await self.terminate(self._get_status(status))\n"
    "    except KeyboardInterrupt:\n"
    "        raise\n"
    "    except asyncio.CancelledError:\n"
    "        await self.terminate(Status.CANCELLED)\n"
    "    except Exception as e:\n"
    "        logger.exception(e)\n"
    "        await self.terminate(Status.FAILED)"
)
_DEPLOY_BLOCKS = (
    "                        inputs_map.pop(tag)\n"
    "                        await self.workflow.context.deployment_manager.deploy(self.deployment_config)\n"
    "                        " + _DEPLOY_PUT.format("get_entity_ids(inputs.values())") +
    "        else:\n" + _DEPLOY_ELSE + _DEPLOY_TAIL
)
_DEPLOY_EXTRACTED = (
    "                        inputs_map.pop(tag)\n"
    "                        await self._deploy_and_propagate({})\n"
    "        else:\n"
    "            await self._deploy_and_propagate({})\n"
    "            status = Status.COMPLETED\n" + _DEPLOY_TAIL +
    "\n\nasync def _deploy_and_propagate(self, input_tokens) -> None:\n"
    "    await self.workflow.context.deployment_manager.deploy(self.deployment_config)\n"
    "    self.get_output_port().put(await self._persist_token(token=Token(value={}, recoverable=True), "
    "port=self.get_output_port(), input_token_ids=get_entity_ids(input_tokens)))\n"
)
_CWL_TRUE_LOOP = (
    "    for port_name, port in self.get_output_ports().items():\n"
    "        port.put(await self._persist_token(token=inputs[port_name].update(inputs[port_name].value), port=port, "
    "input_token_ids=get_entity_ids(inputs.values())))"
)
_TR_PUT = "self.get_output_port(port_name).put(await self._persist_token(token={}, port=self.get_output_port(port_name), input_token_ids={}))\n"
_TR_THEN = (
    "            inputs_map: dict[str, dict[str, Token]] = {}\n"
    "            while True:\n"
    "                inputs = await self._get_inputs(input_ports)\n"
    "                if check_termination(inputs.values()):\n"
    "                    status = _reduce_statuses([t.value for t in inputs.values()])\n"
    "                    break\n"
    "                _group_by_tag(inputs, inputs_map)\n"
    "                for tag in list(inputs_map.keys()):\n"
    "                    if len(inputs_map[tag]) == len(input_ports):\n"
    "                        inputs = inputs_map.pop(tag)\n"
    "                        if check_iteration_termination(inputs.values()):\n"
    "                            for port_name, token in inputs.items():\n"
    "                                " + _TR_PUT.format("token.update(token.value)", "get_entity_ids(inputs.values())") +
    "                        else:\n"
    "                            for port_name, token in (await self.transform(inputs)).items():\n"
    "                                if not isinstance(token, MutableSequence):\n"
    "                                    token = [token]\n"
    "                                for t in token:\n"
    "                                    " + _TR_PUT.format("t", "get_entity_ids(inputs.values())")
)
_TR_ELSE = (
    "            for port_name, token in (await self.transform({})).items():\n"
    "                " + _TR_PUT.format("token", "[]") +
    "            status = Status.COMPLETED\n"
)
_TR_IF = "        if (input_ports := self._filter_input_ports()):\n"
_TR_IFNOT = "        if not (input_ports := self._filter_input_ports()):\n"

VARIANTS = [
    # ---- R1
    V("put of a freshly built Token without _persist_token", SFILE, f"{STEPM}.ScatterStep._scatter",
      "size_port.put(await self._persist_token(token=Token(len(token.value), tag=token.tag, recoverable=True), port=size_port, input_token_ids=get_entity_ids([token])))",
      "size_port.put(Token(len(token.value), tag=token.tag, recoverable=True))", "R1"),
    V("gather emits the list token raw", SFILE, f"{STEPM}.GatherStep._gather", _GATHER_PUT,
      "output_port.put(ListToken(tag=key, value=sorted(self.token_map[key], key=cmp_to_key(lambda x, y: compare_tags(x.tag, y.tag)))))", "R1"),
    V("skip token of a CWL conditional not persisted", CWLFILE, "streamflow.cwl.step.CWLConditionalStep._on_false",
      "port.put(await self._persist_token(token=Token(value=None, tag=get_tag(inputs.values())), port=port, input_token_ids=get_entity_ids(inputs.values())))",
      "port.put(Token(value=None, tag=get_tag(inputs.values())))", "R1", control=True),
    V("new sibling method emits without the idiom", SFILE, f"{STEPM}.GatherStep._get_input_port_name",
      "return next((n for n in self.input_ports if n != '__size__'))",
      "return next((n for n in self.input_ports if n != '__size__'))\n\nasync def _flush(self, key: str) -> None:\n    self.get_output_port().put(ListToken(tag=key, value=list(self.token_map[key])))", "R1"),
    V("token persisted on another port than it is emitted on", SFILE, f"{STEPM}.ScatterStep._scatter",
      "token=Token(len(token.value), tag=token.tag, recoverable=True), port=size_port", "token=Token(len(token.value), tag=token.tag, recoverable=True), port=output_port", "R1"),
    V("put with a keyword argument and no persistence", CWLFILE, "streamflow.cwl.step.CWLEmptyScatterConditionalStep._on_true",
      "port.put(await self._persist_token(token=inputs[port_name].update(inputs[port_name].value), port=port, input_token_ids=get_entity_ids(inputs.values())))",
      "port.put(token=inputs[port_name].update(inputs[port_name].value))", "R1"),
    V("emission through ConnectorPort.put_connector", SFILE, f"{STEPM}.DeployStep.run",
      "self.get_output_port().put(await self._persist_token(token=Token(value=self.deployment_config.name, recoverable=True), port=self.get_output_port(), input_token_ids=[]))",
      "self.get_output_port().put_connector(self.deployment_config.name)", "R1"),
    V("terminate emits a data token", SFILE, f"{BASE}.terminate", "port.put(TerminationToken(status))", "port.put(Token(value=status))", "R1"),
    # ---- R2
    V("job token omitted from input_token_ids", SFILE, f"{STEPM}.ExecuteStep._retrieve_output",
      "get_entity_ids((*job.inputs.values(), job_token))", "get_entity_ids((*job.inputs.values(),))", "R2"),
    V("job token omitted in the CWL override", CWLFILE, "streamflow.cwl.step.CWLExecuteStep._retrieve_output",
      "get_entity_ids((*job.inputs.values(), job_token))", "get_entity_ids(job.inputs.values())", "R2", control=True),
    V("transfer records only the job token", SFILE, f"{STEPM}.TransferStep._run_transfer",
      "self.get_input_port('__job__').token_list), *inputs.values()]", "self.get_input_port('__job__').token_list)]", "R2"),
    V("injector looks the job token up on another port", SFILE, f"{STEPM}.InputInjectorStep.run",
      "in_list = [get_job_token(job.name, self.get_input_port('__job__').token_list), token]",
      "in_list = [get_job_token(job.name, self.get_input_port(key_port).token_list), token]", "R2"),
    # ---- R3
    V("add_provenance before token.save", SFILE, PERSIST,
      "    await token.save(self.workflow.context.database, port_id=port.persistent_id)\n" + _PROV_BLOCK + "    return token",
      _PROV_BLOCK + "    await token.save(self.workflow.context.database, port_id=port.persistent_id)\n    return token", "R3"),
    V("token.save not awaited", SFILE, PERSIST, "await token.save(", "token.save(", "R3"),
    V("guard on existing id removed", SFILE, PERSIST, "if token.persistent_id:", "if False:", "R3"),
    V("guard only logs", SFILE, PERSIST, "raise WorkflowDefinitionException(", "logger.warning(", "R3"),
    V("second caller of add_provenance", SFILE, None, None, None, "R3",
      append="async def _link(step, a, b):\n    await step.workflow.context.database.add_provenance(inputs=[a.persistent_id], token=b.persistent_id)\n"),
    V("None check removed", SFILE, PERSIST, "if any((id_ is None for id_ in input_token_ids)):", "if False:", "R3"),
    V("edge recorded towards the first input instead of the token", SFILE, PERSIST, "token=token.persistent_id)", "token=input_token_ids[0])", "R3"),
    V("subclass overrides _persist_token without the guard", CWLFILE, "streamflow.cwl.step.CWLScheduleStep", "class CWLScheduleStep(ScheduleStep):\n",
      "class CWLScheduleStep(ScheduleStep):\n\n    async def _persist_token(self, token, port, input_token_ids):\n        await token.save(self.workflow.context.database, port_id=port.persistent_id)\n        return token\n", "R3"),
    # ---- R4
    V("provenance columns swapped", QFILE, "streamflow.persistence.sqlite.SqliteDatabase.add_provenance", "[(i, token) for i in inputs]", "[(token, i) for i in inputs]", "R4", control=True),
    V("get_entity_ids filters on something else", UFILE, GEI, " if pe.persistent_id]", " if pe.persistent_id and pe.persistent_id > 1]", "R4"),
    # ---- R5
    V("provenance dropped at one emission site", SFILE, f"{STEPM}.GatherStep._gather",
      "input_token_ids=get_entity_ids([self.size_map[key], *self.token_map[key]])", "input_token_ids=[]", "R5"),
    V("empty provenance on the branch with inputs", SFILE, f"{STEPM}.DeployStep.run", "input_token_ids=get_entity_ids(inputs.values())", "input_token_ids=[]", "R5"),
    V("empty provenance although the (renamed) ports local is non-empty", SFILE, f"{STEPM}.Transformer.run",
      "input_token_ids=get_entity_ids(inputs.values())))\n        else:", "input_token_ids=[]))\n        else:", "R5"),
    V("branches of the Transformer swapped without negating the test: [] recorded where ports were selected", SFILE, f"{STEPM}.Transformer.run",
      _TR_IF + _TR_THEN + "        else:\n" + _TR_ELSE, _TR_IF + _TR_ELSE + "        else:\n" + _TR_THEN, "R5"),
    V("test negated but branches kept: the deploy step records [] exactly when it has input ports", SFILE, f"{STEPM}.DeployStep.run",
      "        if self.input_ports:\n            inputs_map:", "        if not self.input_ports:\n            inputs_map:", "R5"),
    V("negation hidden in a local: `empty = not <ports>` and [] on the not-empty side", SFILE, f"{STEPM}.Transformer.run",
      _TR_IF, "        empty = not (input_ports := self._filter_input_ports())\n        if empty:\n", "R5"),
    V("[] where some ports exist (`len(<ports>) > 1` false does not mean none)", SFILE, f"{STEPM}.DeployStep.run",
      "        if self.input_ports:\n            inputs_map:", "        if len(self.input_ports) > 1:\n            inputs_map:", "R5"),
    V("extracted deploy helper is handed [] on the branch that consumed inputs (the helper's parameter decides what is recorded)", SFILE,
      f"{STEPM}.DeployStep.run", _DEPLOY_BLOCKS, _DEPLOY_EXTRACTED.format("[]", "[]", "self.deployment_config.name"), "R5"),
    V("conditional step hands an empty mapping to _on_true where inputs were consumed: every override records get_entity_ids({}.values())",
      SFILE, f"{STEPM}.ConditionalStep.run", "await self._on_true(inputs)", "await self._on_true({})", "R5"),
    # ---- R6
    V("extracted deploy helper also builds the emitted value from the raw batch (more than recording: no table exception)", SFILE,
      f"{STEPM}.DeployStep.run", _DEPLOY_BLOCKS, _DEPLOY_EXTRACTED.format("inputs.values()", "[]", "[t.value for t in input_tokens]"), "R6"),
    V("partial rename: transformer outputs linked to the last batch instead of the completed tag group", SFILE, f"{STEPM}.Transformer.run",
      _TR_GROUP, _TR_GROUP.replace("inputs", "tag_inputs").replace("tag_inputs_map", "inputs_map"), "R6", control=True),
    V("conditional step evaluates and forwards the raw batch", SFILE, f"{STEPM}.ConditionalStep.run",
      "inputs = inputs_map.pop(tag)", "group = inputs_map.pop(tag)", "R6"),
    V("job built from the raw batch (popped group discarded)", SFILE, f"{STEPM}.ScheduleStep.run",
      "inputs = inputs_map.pop(tag)", "inputs_map.pop(tag)", "R6"),
    V("transfer step records the batch next to the job token", SFILE, f"{STEPM}.TransferStep.run",
      "inputs = inputs_map.pop(tag)\n                        for port_name, token in inputs.items():\n                            await self._run_transfer(job=job, inputs=inputs,",
      "group = inputs_map.pop(tag)\n                        for port_name, token in group.items():\n                            await self._run_transfer(job=job, inputs=inputs,", "R6"),
    # ---- R7
    V("forced gather emits before the synthesised size token is saved", SFILE, f"{STEPM}.GatherStep.run",
      "            await self.size_map[key].save(self.workflow.context.database, size_port.persistent_id)\n            await self._gather(key)",
      "            await self._gather(key)\n            await self.size_map[key].save(self.workflow.context.database, size_port.persistent_id)", "R7"),
    V("synthesised size token never saved", SFILE, f"{STEPM}.GatherStep.run",
      "            await self.size_map[key].save(self.workflow.context.database, size_port.persistent_id)\n", "", "R7"),
    V("save of the synthesised size token not awaited", SFILE, f"{STEPM}.GatherStep.run",
      "await self.size_map[key].save(self.workflow.context.database, size_port.persistent_id)",
      "asyncio.create_task(self.size_map[key].save(self.workflow.context.database, size_port.persistent_id))", "R7"),
    # ---- R8
    V("list merge links the merged token to its first source only", CWLCFILE, "streamflow.cwl.combinator.ListMergeCombinator.combine",
      "input_token_ids = [id for name in self.input_names for id in schema[name]['input_ids']]", "input_token_ids = schema[self.input_names[0]]['input_ids']", "R8"),
    V("loop termination token without the ids of the schema it closes", CFILE, "streamflow.workflow.combinator.LoopTerminationCombinator._product",
      "'input_ids': [id for t in schema.values() for id in t['input_ids']]", "'input_ids': []", "R8"),
    V("dot product entry drops the id of its element", CFILE, "streamflow.workflow.combinator.DotProductCombinator._product",
      "'input_ids': [element.persistent_id]", "'input_ids': []", "R8"),
    V("cartesian entry takes the ids of another token of the schema", CFILE, "streamflow.workflow.combinator.CartesianProductCombinator._product",
      "'input_ids': [t.persistent_id]} for k, t in schema.items()", "'input_ids': [next(iter(schema.values())).persistent_id]} for k, t in schema.items()", "R8"),
    # ---- benign
    V("if/else swapped under a negated test (deploy step): [] still only where there are no input ports", SFILE, f"{STEPM}.DeployStep.run",
      "        if self.input_ports:\n" + _DEPLOY_THEN + "        else:\n" + _DEPLOY_ELSE,
      "        if not self.input_ports:\n" + _DEPLOY_ELSE + "        else:\n" + _DEPLOY_THEN, None, control=True),
    V("if/else swapped under a negated walrus test (transformer)", SFILE, f"{STEPM}.Transformer.run",
      _TR_IF + _TR_THEN + "        else:\n" + _TR_ELSE, _TR_IFNOT + _TR_ELSE + "        else:\n" + _TR_THEN, None),
    V("negation through a local with the test on its complement", SFILE, f"{STEPM}.Transformer.run",
      _TR_IF, "        empty = not (input_ports := self._filter_input_ports())\n        if not empty:\n", None),
    V("emptiness of the ports spelled with len()", SFILE, f"{STEPM}.DeployStep.run",
      "        if self.input_ports:\n            inputs_map:", "        if len(self.input_ports) != 0:\n            inputs_map:", None),
    V("no-ports case as an early return (guard clause) before the receive loop", SFILE, f"{STEPM}.DeployStep.run",
      "        if self.input_ports:\n" + _DEPLOY_THEN + "        else:\n" + _DEPLOY_ELSE,
      "        if not self.input_ports:\n" + _DEPLOY_ELSE + "            await self.terminate(self._get_status(status))\n            return\n"
      + _DEPLOY_THEN.replace("\n    ", "\n")[4:], None),
    V("ports of the transformer selected into differently named locals (R5 finds the branch test by what it evaluates)", SFILE,
      f"{STEPM}.Transformer.run", "if (input_ports := self._filter_input_ports()):",
      "selected = self._filter_input_ports()\n        input_ports = selected\n        if selected:", None),
    V("B12-1: both deploy-and-put blocks extracted into a private coroutine receiving the tokens to record ([] only from the no-ports "
      "branch; the batch only becomes input_token_ids inside the helper)", SFILE, f"{STEPM}.DeployStep.run",
      _DEPLOY_BLOCKS, _DEPLOY_EXTRACTED.format("inputs.values()", "[]", "self.deployment_config.name"), None),
    V("same extraction with the ids computed by the callers and handed over by keyword", SFILE, f"{STEPM}.DeployStep.run", _DEPLOY_BLOCKS,
      _DEPLOY_EXTRACTED.format("ids=get_entity_ids(inputs.values())", "ids=[]", "self.deployment_config.name")
      .replace("(self, input_tokens)", "(self, ids)").replace("input_token_ids=get_entity_ids(input_tokens)", "input_token_ids=ids"), None),
    V("B17-6: the propagate loop of a CWL conditional step moved into a private helper of the class", CWLFILE,
      "streamflow.cwl.step.CWLConditionalStep._on_true", _CWL_TRUE_LOOP,
      "    await self._propagate_outputs(inputs)\n\nasync def _propagate_outputs(self, inputs) -> None:\n" + _CWL_TRUE_LOOP, None),
    V("grouping map renamed", SFILE, f"{STEPM}.ConditionalStep.run", "inputs_map", "groups", None, count=5),
    V("group through a temporary", SFILE, f"{STEPM}.Transformer.run",
      "inputs = inputs_map.pop(tag)", "group = inputs_map.pop(tag)\n                        inputs = group", None),
    V("logging the batch inside the group region is not processing", SFILE, f"{STEPM}.ScheduleStep.run",
      "inputs = inputs_map.pop(tag)", "logger.debug(f'batch {inputs}')\n                        inputs = inputs_map.pop(tag)", None),
    V("size token built and saved through a local before it is stored", SFILE, f"{STEPM}.GatherStep.run",
      "            self.size_map[key] = Token(value=len(self.token_map[key]), tag=key, recoverable=True)\n            await self.size_map[key].save(self.workflow.context.database, size_port.persistent_id)\n",
      "            size_token = Token(value=len(self.token_map[key]), tag=key, recoverable=True)\n            await size_token.save(self.workflow.context.database, size_port.persistent_id)\n            self.size_map[key] = size_token\n", None),
    V("list merge collects the ids of every source on both branches", CWLCFILE, "streamflow.cwl.combinator.ListMergeCombinator.combine",
      "input_token_ids = schema[self.input_names[0]]['input_ids']", "input_token_ids = [i for n in self.input_names for i in schema[n]['input_ids']]", None),
    V("ids of a loop-termination entry collected into a local first", CFILE, "streamflow.workflow.combinator.LoopTerminationCombinator._product",
      "        yield {k: {'token': IterationTerminationToken(tag=tag), 'input_ids': [id for t in schema.values() for id in t['input_ids']]} for k in self.output_items}",
      "        ids = [i for _, e in schema.items() for i in e['input_ids']]\n        yield {k: {'token': IterationTerminationToken(tag=tag), 'input_ids': ids} for k in self.output_items}", None),
    V("compute ids into a local first", SFILE, f"{STEPM}.ExecuteStep._retrieve_output",
      "        output_port.put(await self._persist_token(token=token, port=output_port, input_token_ids=get_entity_ids((*job.inputs.values(), job_token))))",
      "        ids = get_entity_ids((*job.inputs.values(), job_token))\n        persisted = await self._persist_token(token=token, port=output_port, input_token_ids=ids)\n        output_port.put(persisted)", None),
    V("rename locals", SFILE, f"{STEPM}.InputInjectorStep.run", "in_list", "sources", None, count=2),
    V("logging added in _persist_token", SFILE, PERSIST, "    await token.save(", "    logger.debug(f'saving token {token.tag}')\n    await token.save(", None),
    V("explicit is-not-None guard and reordered checks", SFILE, PERSIST, "if token.persistent_id:", "if token.persistent_id is not None:", None),
    V("port into a local in the transfer step", SFILE, f"{STEPM}.TransferStep._run_transfer",
      "    self.get_output_port(port_name).put(await self._persist_token(token=await self.transfer(job, token), port=self.get_output_port(port_name),",
      "    out = self.get_output_port(port_name)\n    out.put(await self._persist_token(token=await self.transfer(job, token), port=out,", None),
]
