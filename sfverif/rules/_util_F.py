"""Helpers shared by the group-F rule modules (C13, C14, C27).

* `builtin(prog, f, call)`      -- name of the builtin a call denotes (the engine resolver
                                   reports builtins as `<module>.<name>`).
* `bind_args(call, fn)`         -- parameter -> argument expression of a call, by signature.
* `OrderClassifier`             -- does a sequence expression preserve the order of a declared
                                   source sequence?  (def-use + loop nesting, helper inlining)
* `fold3`, `guarded_reach`      -- three-valued folding of guards over recognised atoms and CFG
                                   reachability under a valuation of those atoms (P10 on a CFG).
* `edge_succ`, `raises_only`    -- small CFG conveniences.
"""

from __future__ import annotations

import ast
from dataclasses import dataclass, field

from ..cfg import NORMAL
from ..dataflow import defs_of
from ..model import Func, Program, ancestors, dotted, unparse, walk_no_nested

# --------------------------------------------------------------------------- calls


def builtin(prog: Program, f: Func, call: ast.Call) -> str | None:
    """`list`, `set`, `sorted`, `any` ... when the call's function is a bare name that is neither a
    local, nor imported, nor defined in the module."""
    fn = call.func
    if not isinstance(fn, ast.Name):
        return None
    name = fn.id
    if prog._is_local(f, name) or name in f.module.imports:
        return None
    q = f"{f.module.name}.{name}"
    if q in prog.functions or q in prog.classes:
        return None
    g = f
    while g is not None:
        if f"{g.qualname}.<locals>.{name}" in prog.functions:
            return None
        g = g.outer
    for n in f.module.tree.body:
        if isinstance(n, (ast.Assign, ast.AnnAssign)):
            tg = n.targets if isinstance(n, ast.Assign) else [n.target]
            if any(isinstance(t, ast.Name) and t.id == name for t in tg):
                return None
    return name


def resolved(prog: Program, f: Func, call: ast.Call, fanout: bool = True) -> list[str]:
    try:
        return prog.resolve_call(f, call, fanout=fanout)
    except Exception:  # pragma: no cover - resolver must never break a rule
        return ["?"]


def call_is(prog: Program, f: Func, call: ast.Call, *suffixes: str) -> bool:
    for q in resolved(prog, f, call):
        for s in suffixes:
            if q == s or q.endswith("." + s):
                return True
    return False


def bind_args(call: ast.Call, fn: ast.FunctionDef | ast.AsyncFunctionDef, skip_self: bool = False) -> dict[str, ast.AST]:
    """Map parameter names of `fn` to the argument expressions of `call` (positional + keyword)."""
    a = fn.args
    names = [x.arg for x in a.posonlyargs + a.args]
    if skip_self and names and names[0] in ("self", "cls"):
        names = names[1:]
    out: dict[str, ast.AST] = {}
    for i, arg in enumerate(call.args):
        if isinstance(arg, ast.Starred):
            break
        if i < len(names):
            out[names[i]] = arg
    for k in call.keywords:
        if k.arg is not None:
            out[k.arg] = k.value
    return out


def strip_await(e: ast.AST) -> ast.AST:
    while isinstance(e, ast.Await):
        e = e.value
    return e


def names_in(node: ast.AST) -> set[str]:
    return {n.id for n in ast.walk(node) if isinstance(n, ast.Name)}


def enclosing_loops(node: ast.AST, stop: ast.AST) -> list[ast.AST]:
    """For/AsyncFor statements inside `stop` whose *body* contains `node`, outermost first."""
    out = []
    child = node
    for a in ancestors(node):
        if isinstance(a, (ast.For, ast.AsyncFor)) and any(child is s for s in a.body):
            out.append(a)
        if a is stop:
            break
        child = a
    return list(reversed(out))


# --------------------------------------------------------------------------- order classifier

ORD, BAD, UNK, NEUTRAL = "ord", "bad", "unk", "neutral"


@dataclass
class Res:
    kind: str
    bads: list[tuple[ast.AST, str]] = field(default_factory=list)  # (node, why)
    unk: list[str] = field(default_factory=list)

    @staticmethod
    def ord() -> "Res":
        return Res(ORD)

    @staticmethod
    def bad(node: ast.AST, why: str) -> "Res":
        return Res(BAD, [(node, why)])

    @staticmethod
    def unknown(why: str) -> "Res":
        return Res(UNK, unk=[why])

    @staticmethod
    def neutral() -> "Res":
        return Res(NEUTRAL)


def join(*rs: Res) -> Res:
    bads: list[tuple[ast.AST, str]] = []
    unk: list[str] = []
    kinds = set()
    seen = set()
    for r in rs:
        kinds.add(r.kind)
        for n, w in r.bads:
            if id(n) not in seen:
                seen.add(id(n))
                bads.append((n, w))
        unk.extend(r.unk)
    if bads:
        return Res(BAD, bads, unk)
    if UNK in kinds:
        return Res(UNK, [], unk)
    if ORD in kinds:
        return Res(ORD)
    return Res(NEUTRAL)


REORDER_METHODS = {"sort", "reverse", "insert"}
ACCUMULATE_METHODS = {"append", "add", "extend", "update"}
PASS_BUILTINS = {"list", "tuple", "iter"}
UNORDERED_BUILTINS = {"set", "frozenset"}


class OrderClassifier:
    """Classify a sequence-valued expression as ORD (an order-preserving construction over a declared
    source sequence, or an empty/new sequence), BAD (flows through an unordered container, a sort on
    another key, a reversal, `random.*`, or is accumulated in an order that is not source-major) or
    UNK (a shape the classifier does not interpret).

    `sources(f, expr) -> bool` declares the ordered source expressions (a parameter, an attribute).
    `passthrough` maps a method name to the (positional index, keyword) of the argument whose order
    the call is *assumed* to preserve (assume/guarantee: the callee is checked by its own rule).
    `complete=True` additionally treats constructions that may drop elements (slices, `filter`,
    comprehension conditions) as BAD.
    """

    def __init__(self, prog: Program, sources, passthrough: dict[str, tuple[int, str]] | None = None, complete: bool = False, depth: int = 3):
        self.prog = prog
        self.sources = sources
        self.passthrough = passthrough or {}
        self.complete = complete
        self.depth = depth

    # -- public
    def classify(self, f: Func, expr: ast.AST) -> Res:
        return self._c(f, expr, {}, frozenset(), self.depth)

    # -- names
    def _name(self, f: Func, node: ast.Name, env, seen, depth) -> Res:
        name = node.id
        key = (f.qualname, name)
        if key in seen:
            return Res.neutral()
        seen = seen | {key}
        parts: list[Res] = []
        if self.sources(f, node):
            parts.append(Res.ord())
        elif name in env:
            parts.append(env[name])
        else:
            ds = defs_of(f, name)
            if not ds:
                return Res.unknown(f"name `{name}` has no definition in {f.name}")
            for d in ds:
                if d.kind in ("assign", "walrus") and d.index is None:
                    parts.append(self._c(f, d.value, env, seen, depth))
                elif d.kind == "aug":
                    parts.append(self._c(f, d.value, env, seen, depth))
                elif d.kind == "param":
                    parts.append(Res.unknown(f"parameter `{name}` of {f.name} is not a declared ordered source"))
                else:
                    parts.append(Res.unknown(f"`{name}` is bound by a {d.kind} construct"))
        parts.extend(self._mutations(f, name, env, seen, depth))
        return join(*parts)

    def _mutations(self, f: Func, name: str, env, seen, depth) -> list[Res]:
        out: list[Res] = []
        for n in walk_no_nested(f.node):
            if not isinstance(n, ast.Call):
                continue
            fn = n.func
            if isinstance(fn, ast.Attribute) and isinstance(fn.value, ast.Name) and fn.value.id == name:
                if fn.attr in REORDER_METHODS:
                    out.append(Res.bad(n, f"`{unparse(n)[:60]}` re-orders `{name}` in place"))
                elif fn.attr in ACCUMULATE_METHODS:
                    out.append(self._accumulate(f, n, env, seen, depth))
                continue
            # name handed to random.* (shuffle, sample, ...)
            if any(isinstance(a, ast.Name) and a.id == name for a in n.args):
                if any(q == "random" or q.startswith("random.") for q in resolved(self.prog, f, n, fanout=False)):
                    out.append(Res.bad(n, f"`{unparse(n)[:60]}` randomises `{name}`"))
        return out

    def _accumulate(self, f: Func, call: ast.Call, env, seen, depth) -> Res:
        """`acc.append(x)` / `acc.add(x)` / `acc.extend(xs)`: order of accumulation = order of the
        enclosing loops, outermost first."""
        parts: list[Res] = []
        if call.func.attr in ("extend", "update") and call.args:
            parts.append(self._c(f, call.args[0], env, seen, depth))
        loops = enclosing_loops(call, f.node)
        if not loops:
            parts.append(Res.neutral())
            return join(*parts)
        outer = self._c(f, loops[0].iter, env, seen, depth)
        if outer.kind in (ORD, BAD):
            parts.append(outer)
            return join(*parts)
        # outermost loop is over something else: an inner loop over the ordered source makes the
        # accumulation order <something>-major
        for lp in loops[1:]:
            r = self._c(f, lp.iter, env, seen, depth)
            if r.kind == ORD:
                parts.append(
                    Res.bad(call, f"`{unparse(call)[:50]}` accumulates under an outer loop over `{unparse(loops[0].iter)[:40]}`: the result is not in source order")
                )
                return join(*parts)
            if r.kind == BAD:
                parts.append(r)
                return join(*parts)
        parts.append(Res.unknown(f"accumulation `{unparse(call)[:50]}` under a loop over `{unparse(loops[0].iter)[:40]}`"))
        return join(*parts)

    # -- expressions
    def _c(self, f: Func, e: ast.AST, env, seen, depth) -> Res:
        c = lambda x: self._c(f, x, env, seen, depth)  # noqa: E731
        if isinstance(e, (ast.Await, ast.Starred)):
            return c(e.value)
        if isinstance(e, ast.Name):
            return self._name(f, e, env, seen, depth)
        if self.sources(f, e):
            return Res.ord()
        if isinstance(e, ast.Attribute):
            return Res.unknown(f"attribute `{unparse(e)[:50]}` is not a declared ordered source")
        if isinstance(e, (ast.Set, ast.SetComp)):
            return Res.bad(e, f"`{unparse(e)[:50]}` is a set (iteration order is by hash, not by declaration)")
        if isinstance(e, (ast.List, ast.Tuple)):
            st = [x for x in e.elts if isinstance(x, ast.Starred)]
            return join(Res.ord(), *[c(x.value) for x in st])
        if isinstance(e, ast.Dict):
            return Res.ord()
        if isinstance(e, (ast.ListComp, ast.GeneratorExp, ast.DictComp)):
            gens = e.generators
            if self.complete and any(g.ifs for g in gens):
                return Res.bad(e, f"`{unparse(e)[:60]}` may drop elements")
            r0 = c(gens[0].iter)
            if r0.kind in (ORD, BAD):
                return r0
            for g in gens[1:]:
                r = c(g.iter)
                if r.kind == ORD:
                    return Res.bad(e, f"`{unparse(e)[:60]}` iterates the ordered source in an inner position: the result is not in source order")
                if r.kind == BAD:
                    return r
            return r0
        if isinstance(e, ast.Subscript):
            if isinstance(e.slice, ast.Slice):
                if self.complete:
                    return Res.bad(e, f"slice `{unparse(e)[:50]}` may drop elements")
                st = e.slice.step
                if st is not None:
                    neg = isinstance(st, ast.UnaryOp) and isinstance(st.op, ast.USub)
                    if neg or not isinstance(st, ast.Constant):
                        return Res.bad(e, f"slice `{unparse(e)[:50]}` with a negative/unknown step reverses the sequence")
                return c(e.value)
            return Res.unknown(f"subscript `{unparse(e)[:50]}`")
        if isinstance(e, ast.BinOp) and isinstance(e.op, (ast.Add, ast.BitOr)):
            return join(c(e.left), c(e.right))
        if isinstance(e, ast.IfExp):
            return join(c(e.body), c(e.orelse))
        if isinstance(e, ast.BoolOp):
            return join(*[c(v) for v in e.values])
        if isinstance(e, ast.NamedExpr):
            return c(e.value)
        if isinstance(e, ast.Call):
            return self._call(f, e, env, seen, depth)
        return Res.unknown(f"expression `{unparse(e)[:50]}`")

    def _call(self, f: Func, e: ast.Call, env, seen, depth) -> Res:
        c = lambda x: self._c(f, x, env, seen, depth)  # noqa: E731
        b = builtin(self.prog, f, e)
        if b is not None:
            if b in PASS_BUILTINS:
                return c(e.args[0]) if e.args else Res.ord()
            if b == "dict":
                return c(e.args[0]) if e.args else Res.ord()
            if b in UNORDERED_BUILTINS:
                return Res.bad(e, f"`{unparse(e)[:50]}` builds a set (iteration order is by hash, not by declaration)")
            if b == "reversed":
                return Res.bad(e, f"`{unparse(e)[:50]}` reverses the sequence")
            if b == "sorted":
                key = next((k.value for k in e.keywords if k.arg == "key"), None)
                rev = next((k.value for k in e.keywords if k.arg == "reverse"), None)
                if (
                    key is not None
                    and rev is None
                    and isinstance(key, ast.Attribute)
                    and key.attr == "index"
                    and c(key.value).kind == ORD
                ):
                    return Res.ord()  # order re-established from the ordered source
                return Res.bad(e, f"`{unparse(e)[:60]}` sorts by another key than the declared position")
            if b in ("filter", "map"):
                if b == "filter" and self.complete:
                    return Res.bad(e, f"`{unparse(e)[:50]}` may drop elements")
                return c(e.args[1]) if len(e.args) == 2 else Res.unknown(f"`{unparse(e)[:50]}`")
            return Res.unknown(f"builtin call `{unparse(e)[:50]}`")
        names = resolved(self.prog, f, e, fanout=False)
        if any(q == "random" or q.startswith("random.") for q in names):
            return Res.bad(e, f"`{unparse(e)[:50]}` randomises the order")
        fn = e.func
        if isinstance(fn, ast.Attribute):
            if fn.attr in self.passthrough:
                idx, kw = self.passthrough[fn.attr]
                arg = next((k.value for k in e.keywords if k.arg == kw), None)
                if arg is None and len(e.args) > idx:
                    arg = e.args[idx]
                if arg is None:
                    return Res.unknown(f"`{unparse(e)[:50]}`: pass-through argument not found")
                return c(arg)
            if fn.attr in ("copy", "keys", "values", "items") and not e.args:
                return c(fn.value)
            d = dotted(fn) or ""
            if d in ("dict.fromkeys", "copy.copy", "copy.deepcopy", "itertools.chain") and e.args:
                return join(*[c(a) for a in e.args[:1 if d != "itertools.chain" else None]])
            if d == "asyncio.gather" and e.args:
                return join(*[c(a) for a in e.args])
        # helper defined in the program: inline its returns
        if depth > 0:
            for q in names:
                g = self.prog.functions.get(q)
                if g is None:
                    continue
                if any(isinstance(n, (ast.Yield, ast.YieldFrom)) for n in g.body_nodes()):
                    return Res.unknown(f"generator helper `{q}`")
                bound = bind_args(e, g.node, skip_self=isinstance(fn, ast.Attribute) and g.cls is not None)
                env2 = {p: self._c(f, a, env, seen, depth) for p, a in bound.items()}
                rets = [n for n in g.body_nodes() if isinstance(n, ast.Return) and n.value is not None]
                if not rets:
                    return Res.unknown(f"helper `{q}` returns nothing")
                sub = OrderClassifier(self.prog, lambda *_: False, self.passthrough, self.complete, depth - 1)
                return join(*[sub._c(g, r.value, env2, seen, depth - 1) for r in rets])
        return Res.unknown(f"call `{unparse(e)[:60]}`")


# --------------------------------------------------------------------------- guards on a CFG


def edge_succ(g, nid: int, kind: str) -> list[int]:
    return [b for b, k in g.succ[nid] if k == kind]


def raises_only(g, starts: list[int]) -> bool:
    """No normal path from any of `starts` to the function's normal exit."""
    return bool(starts) and g.exit not in g.reach(starts, kinds=NORMAL, include_src=True)


def fold3(expr: ast.AST, atom) -> bool | None:
    """Three-valued fold of a guard.  `atom(node) -> True | False | None` evaluates recognised atoms
    (None = unknown).  Handles and/or/not and constants."""
    if isinstance(expr, ast.BoolOp):
        vals = [fold3(v, atom) for v in expr.values]
        if isinstance(expr.op, ast.And):
            if any(v is False for v in vals):
                return False
            return True if all(v is True for v in vals) else None
        if any(v is True for v in vals):
            return True
        return False if all(v is False for v in vals) else None
    if isinstance(expr, ast.UnaryOp) and isinstance(expr.op, ast.Not):
        v = fold3(expr.operand, atom)
        return None if v is None else (not v)
    if isinstance(expr, ast.Constant):
        return bool(expr.value)
    if isinstance(expr, ast.NamedExpr):
        return fold3(expr.value, atom)
    return atom(expr)


def guarded_reach(g, atom, starts: list[int] | None = None) -> set[int]:
    """Nodes reachable over normal edges when every `test` node whose guard folds to a definite value
    under `atom` takes only that branch."""
    seen: set[int] = set()
    stack = list(starts) if starts is not None else [g.entry]
    seen.update(stack)
    while stack:
        a = stack.pop()
        n = g.nodes[a]
        verdict = None
        if n.kind == "test" and n.ast is not None:
            verdict = fold3(n.ast, atom)
        for b, k in g.succ[a]:
            if k not in NORMAL:
                continue
            if verdict is True and k == "f":
                continue
            if verdict is False and k == "t":
                continue
            if b not in seen:
                seen.add(b)
                stack.append(b)
    return seen


def compare_pair(e: ast.AST) -> tuple[ast.AST, ast.cmpop, ast.AST] | None:
    if isinstance(e, ast.Compare) and len(e.ops) == 1:
        return e.left, e.ops[0], e.comparators[0]
    return None


def is_none(e: ast.AST) -> bool:
    return isinstance(e, ast.Constant) and e.value is None


def may_be_truthy(ret: ast.Return) -> bool:
    v = ret.value
    if v is None:
        return False
    if isinstance(v, ast.Constant):
        return bool(v.value)
    return True
