"""C09 Database reads always reflect the latest writes.

R1 getter/updater pairing: every memoised getter (`@cached(cache=lambda self: self.X_cache)`) reading table T has an
   `update_T` that pops `self.X_cache` with the same id it binds in the UPDATE, after the statement was executed.
R2 every mutating statement invalidates: each SQL literal handed to execute/executemany/executescript is tokenised; an
   UPDATE / DELETE / REPLACE / INSERT OR REPLACE on a table that a memoised getter reads (joined and sub-selected
   tables included) must sit in a method that pops that getter's cache.
R3 key shape: cachebox builds the key from the call arguments; every call site of a memoised getter in the program
   passes the id as the single positional argument (a keyword call would create a key that `pop(id)` never removes).
R4 copy-out: a memoised getter whose row contains JSON-decoded containers is declared with a deep-copying `postprocess`
   (cachebox's default copies only the top level: callers would share nested values with the cache).
R5 ownership: the `*_cache` objects are touched only by the decorator lambdas, the update_* methods and the constructor.
R6 reads bypassing the cache read the database: un-memoised getters execute a SELECT on every call (no ad-hoc dict).
R7 exclusion: a memoised getter suspends between its SELECT and the moment the decorator stores the row; an updater
   of the same table that runs in between pops an empty slot and the in-flight read then stores the *old* row (S18).
   Every memoised getter that has an updater therefore performs its whole database read under a lock attribute of the
   instance (an `asyncio.Lock()` created in a constructor of the class), and each of its updaters executes the
   statement *and* pops the cache inside one `async with` on the same lock.
"""

from __future__ import annotations

import ast
import re

from ..model import ancestors, dotted, unparse
from ..selftest import V

DB = "streamflow.persistence.sqlite.SqliteDatabase"
FILE = "streamflow/persistence/sqlite.py"
BFILE = "streamflow/persistence/base.py"
CACHED_BASE = "streamflow.persistence.base.CachedDatabase"

META = {
    "explanation": (
        "AST/SQL-literal rules on SqliteDatabase and CachedDatabase: pairing of memoised getters with invalidating "
        "updaters, table-level coverage of every mutating SQL statement, positional key shape at all call sites in the "
        "program, deep-copy post-processing, ownership of the cache objects. Necessary conditions for 'a read after a "
        "write never returns a stale or caller-modified row'; SQLite visibility semantics are trusted."
    ),
    "undecided": "SQLite / aiosqlite visibility semantics (trusted); correctness of the SQL itself",
    "assumptions": ["cachebox 6.2.0: key = positional args after self; default postprocess copies only top-level dict/list/set",
                    "cachebox 6.2.0 async wrapper: `result = await func(...)` is followed by the cache store without a suspension point"],
}

DEEP = {"postprocess_deepcopy", "postprocess_deepcopy_mutables"}


_PROG = None  # set by each rule entry (the SQL text may be built by a module-level helper of the program)


def _render(e: ast.AST, env: dict, depth: int = 3) -> str:
    """Symbolic text of a string-building expression: constants verbatim, unknown run-time parts as `?`.
    Understands concatenation, f-strings, `'..{}..'.format(a, b)` with plain positional fields, `' '.join([...])`,
    parameters bound in `env` and calls of program functions whose single return builds the text."""
    if isinstance(e, ast.Constant):
        return e.value if isinstance(e.value, str) else "?"
    if isinstance(e, ast.Name):
        return env.get(e.id, "?")
    if isinstance(e, ast.JoinedStr):
        return "".join(v.value if isinstance(v, ast.Constant) else _render(v.value, env, depth) for v in e.values)
    if isinstance(e, ast.BinOp) and isinstance(e.op, ast.Add):
        return _render(e.left, env, depth) + _render(e.right, env, depth)
    if isinstance(e, ast.Call):
        fn = e.func
        if isinstance(fn, ast.Attribute) and fn.attr == "format" and not e.keywords:
            tpl = _render(fn.value, env, depth)
            args = [_render(a, env, depth) for a in e.args]
            out, i = [], 0
            for piece in re.split(r"(\{\})", tpl):
                if piece == "{}":
                    out.append(args[i] if i < len(args) else "?")
                    i += 1
                else:
                    out.append(piece)
            return "".join(out)
        if isinstance(fn, ast.Attribute) and fn.attr == "join":
            return "?"
        if _PROG is not None and depth > 0 and isinstance(fn, (ast.Name, ast.Attribute)):
            name = fn.id if isinstance(fn, ast.Name) else fn.attr
            cands = [h for h in _PROG.functions.values() if h.name == name and h.cls is None and any(h.file.startswith(x) for x in ("streamflow/persistence/",))]
            if len(cands) == 1:
                h = cands[0]
                rets = [n for n in h.body_nodes() if isinstance(n, ast.Return) and n.value is not None]
                if len(rets) == 1 and not any(isinstance(a, ast.Starred) for a in e.args):
                    params = [a.arg for a in h.node.args.posonlyargs + h.node.args.args]
                    sub = {pn: _render(a, env, depth) for pn, a in zip(params, e.args)}
                    sub.update({k.arg: _render(k.value, env, depth) for k in e.keywords if k.arg})
                    val = rets[0].value
                    if isinstance(val, ast.Name):
                        from ..dataflow import defs_of

                        ds = [d for d in defs_of(h, val.id) if d.kind == "assign" and d.value is not None]
                        if len(ds) == 1:
                            val = ds[0].value
                    return _render(val, sub, depth - 1)
    return "?"


def _sql_of(call: ast.Call) -> str | None:
    """Text of the first argument of an execute-like call (constant parts; run-time parts appear as `?`)."""
    if not call.args:
        return None
    a = call.args[0]
    parts = []
    for n in ast.walk(a):
        if isinstance(n, ast.Constant) and isinstance(n.value, str):
            parts.append((getattr(n, "lineno", 0), getattr(n, "col_offset", 0), n.value))
    txt = " ".join(p[2] for p in sorted(parts)) if parts else None
    # a statement built by a helper / a format template: render it symbolically
    if txt is None or not re.match(r"\s*(SELECT|UPDATE|DELETE|INSERT|REPLACE|CREATE|PRAGMA|WITH|ALTER|DROP|BEGIN|COMMIT)\b", txt, flags=re.I) or "{}" in txt:
        r = _render(a, {})
        if re.match(r"\s*(SELECT|UPDATE|DELETE|INSERT|REPLACE|CREATE|PRAGMA|WITH|ALTER|DROP)\b", r, flags=re.I):
            return r
    return txt


def _tables_read(sql: str) -> set[str]:
    return {m.lower() for m in re.findall(r"(?:FROM|JOIN)\s+([A-Za-z_]+)", sql, flags=re.I)} | {
        x.strip().split()[0].lower() for m in re.findall(r"FROM\s+([A-Za-z_ ,]+?)(?:WHERE|GROUP|ORDER|$)", sql, flags=re.I) for x in m.split(",") if x.strip()
    }


def _mutation(sql: str):
    m = re.match(r"\s*(UPDATE|DELETE\s+FROM|REPLACE\s+INTO|INSERT\s+OR\s+REPLACE\s+INTO)\s+([A-Za-z_]+)", sql, flags=re.I)
    if m:
        return re.sub(r"\s+", " ", m.group(1).upper()), m.group(2).lower()
    return None


def _exec_calls(f):
    return [c for c in f.calls() if isinstance(c.func, ast.Attribute) and c.func.attr in ("execute", "executemany", "executescript")]


def _cached_decorator(f):
    for d in f.decorators:
        if isinstance(d, ast.Call) and (dotted(d.func) or "").split(".")[-1] == "cached":
            return d
    return None


def _cache_attr(dec: ast.Call) -> str | None:
    for k in dec.keywords:
        if k.arg == "cache" and isinstance(k.value, ast.Lambda):
            b = k.value.body
            if isinstance(b, ast.Attribute) and isinstance(b.value, ast.Name) and b.value.id == "self":
                return b.attr
    if dec.args and isinstance(dec.args[0], ast.Lambda):
        b = dec.args[0].body
        if isinstance(b, ast.Attribute):
            return b.attr
    return None


def _getters(ctx):
    global _PROG
    _PROG = ctx.prog
    """{getter name: (Func, cache attr, tables read)} for every memoised getter of CachedDatabase subclasses."""
    p = ctx.prog
    out = {}
    for cq in [CACHED_BASE, *p.subclasses(CACHED_BASE)]:
        c = p.classes.get(cq)
        if c is None:
            continue
        for f in c.methods.values():
            dec = _cached_decorator(f)
            if dec is None:
                continue
            attr = _cache_attr(dec)
            ctx.require(attr is not None, f"C09: cannot read the cache expression of {f.qualname}")
            tables = set()
            for e in _exec_calls(f):
                sql = _sql_of(e)
                if sql:
                    tables |= _tables_read(sql)
            out[f.qualname] = (f, attr, tables, dec)
    return out


def _pops(f):
    """{cache attr: [pop call]} in f."""
    out = {}
    for c in f.calls():
        if isinstance(c.func, ast.Attribute) and c.func.attr in ("pop", "clear", "__delitem__") and isinstance(c.func.value, ast.Attribute) \
                and isinstance(c.func.value.value, ast.Name) and c.func.value.value.id == "self" and c.func.value.attr.endswith("_cache"):
            out.setdefault(c.func.value.attr, []).append(c)
    for n in f.body_nodes():
        if isinstance(n, ast.Delete):
            for t in n.targets:
                if isinstance(t, ast.Subscript) and unparse(t.value).startswith("self.") and unparse(t.value).endswith("_cache"):
                    out.setdefault(t.value.attr, []).append(n)
    return out


def r1(ctx):
    p = ctx.prog
    getters = _getters(ctx)
    ctx.require(len(getters) >= 6, f"C09.R1: only {len(getters)} memoised getters found")
    cls = p.cls(DB)
    for q, (f, attr, tables, dec) in getters.items():
        own = f.name[len("get_"):] if f.name.startswith("get_") else f.name
        ctx.ob("R1", f"{f.name} reads the table it is named after", own in tables, func=f, node=f.node, instance=f"{f.name}:table",
               message=f"{f.name} reads {sorted(tables)}")
        # updaters of that table
        ups = []
        for m in cls.methods.values():
            for e in _exec_calls(m):
                sql = _sql_of(e)
                mu = _mutation(sql) if sql else None
                if mu and mu[1] == own:
                    ups.append((m, e))
        if not ups:
            ctx.ob("R1", f"{f.name}: table `{own}` is never updated (nothing to invalidate)", True, func=f, node=f.node, instance=f"{f.name}:no-updater", trivial=True)
            continue
        for m, e in ups:
            pops = _pops(m).get(attr, [])
            ok = bool(pops)
            key_ok = order_ok = False
            if ok:
                # id bound in the statement parameters
                idparam = None
                for a in e.args[1:]:
                    for d in ast.walk(a):
                        if isinstance(d, ast.Dict):
                            for k, v in zip(d.keys, d.values):
                                if isinstance(k, ast.Constant) and k.value == "id" and isinstance(v, ast.Name):
                                    idparam = v.id
                g = m.cfg
                en = g.node_containing(e)
                for pc in pops:
                    k_ok = False
                    if isinstance(pc, ast.Call) and pc.func.attr == "clear":
                        k_ok = True
                    elif isinstance(pc, ast.Call) and pc.args and isinstance(pc.args[0], ast.Name) and pc.args[0].id == idparam and idparam in m.params:
                        k_ok = True
                    key_ok = key_ok or k_ok
                    # executed first: the pop is inside the `async with db.execute(...)` body or after it
                    pn = g.node_containing(pc) if isinstance(pc, ast.Call) else g.ids_of(pc)
                    if k_ok and bool(en) and bool(pn) and all(g.dominates(en, x) for x in pn):
                        order_ok = True
            ctx.ob("R1", f"{m.name} invalidates {attr} with the updated id after executing the statement", ok and key_ok and order_ok, func=m, node=e,
                   instance=f"{m.name}:{attr}",
                   message=f"{m.name} changes table `{own}` but does not pop self.{attr}[<id>] after the UPDATE: {f.name} keeps returning the old row"
                   + ("" if ok else " (no pop)") + ("" if key_ok or not ok else " (wrong key)") + ("" if order_ok or not ok else " (pop before the statement)"))


def r2(ctx):
    global _PROG
    p = _PROG = ctx.prog
    getters = _getters(ctx)
    table_cache = {}
    for q, (f, attr, tables, dec) in getters.items():
        for t in tables:
            table_cache.setdefault(t, set()).add(attr)
    n = 0
    for cq in [CACHED_BASE, *p.subclasses(CACHED_BASE)]:
        c = p.classes.get(cq)
        if c is None:
            continue
        for m in c.methods.values():
            for e in _exec_calls(m):
                sql = _sql_of(e)
                if not sql:
                    ctx.ob("R2", f"{m.name}: statement text is a literal", isinstance(e.args[0], (ast.Call,)) and False or e.func.attr == "executescript",
                           func=m, node=e, instance=f"{m.name}:dynamic-sql", message=f"{m.name} executes SQL that is not a literal: cannot be checked")
                    continue
                n += 1
                mu = _mutation(sql)
                if mu is None:
                    ctx.ob("R2", f"{m.name}: `{sql[:40]}...` does not change existing rows", True, func=m, node=e, instance=f"{m.name}:{sql[:30]}", trivial=True)
                    continue
                verb, table = mu
                need = table_cache.get(table, set())
                have = set(_pops(m))
                ctx.ob("R2", f"{m.name}: {verb} {table} invalidates {sorted(need) or 'nothing (table not cached)'}", need <= have, func=m, node=e,
                       instance=f"{m.name}:{verb}:{table}",
                       message=f"{m.name} executes `{verb} {table}` but does not invalidate {sorted(need - have)}: memoised reads of that table stay stale")
    ctx.require(n >= 30, f"C09.R2: only {n} SQL statements found")


def r3(ctx):
    p = ctx.prog
    getters = _getters(ctx)
    names = {f.name for f, *_ in getters.values()}
    base = "streamflow.core.persistence.Database"
    n = 0
    for nm in sorted(names):
        for f, c in p.calls_by_attr(nm):
            if not isinstance(c.func, ast.Attribute):
                continue
            # receiver is a database (attribute named database / self inside the db classes)
            recv = unparse(c.func.value)
            t = p.type_of(f, c.func.value)
            is_db = (t is not None and (p.is_subclass(t, base) or t == base)) or recv.endswith("database") or recv.endswith(".db") or recv == "self"
            if not is_db:
                continue
            if recv == "self" and not (f.cls is not None and p.is_subclass(f.cls.qualname, base)):
                continue
            n += 1
            ok = len(c.args) == 1 and not c.keywords and not isinstance(c.args[0], ast.Starred)
            ctx.ob("R3", f"{f.qualname.rsplit('.', 2)[-2]}.{f.name}: {nm}(<id>) passes the id positionally", ok, func=f, node=c,
                   instance=f"{nm}:call:{unparse(c)[:80]}",
                   message=f"`{unparse(c)[:80]}` passes the id by keyword: cachebox keys the entry differently and update_*'s pop(id) never removes it")
    ctx.require(n >= 11, f"C09.R3: only {n} call sites of memoised getters found")


def r4(ctx):
    getters = _getters(ctx)
    for q, (f, attr, tables, dec) in getters.items():
        decodes = any((isinstance(c.func, ast.Name) and c.func.id == "_load_keys") or unparse(c.func) == "json.loads" for c in f.calls())
        if not decodes:
            ctx.ob("R4", f"{f.name}: row holds no decoded container", True, func=f, node=f.node, instance=f"{f.name}:flat", trivial=True)
            continue
        pp = [k.value for k in dec.keywords if k.arg == "postprocess"]
        ok = bool(pp) and (dotted(pp[0]) or "").split(".")[-1] in DEEP
        ctx.ob("R4", f"{f.name}: cached rows are handed out as deep copies", ok, func=f, node=dec, instance=f"{f.name}:deepcopy",
               message=f"{f.name} returns rows with JSON-decoded containers but is memoised with the default (top-level) copy: callers share "
                       "nested values with the cache, so one caller's change is read by everyone else")


def r5(ctx):
    p = ctx.prog

    def scan(m, funcs):
        res = []
        for f in funcs:
            for n in f.body_nodes():
                if isinstance(n, ast.Attribute) and n.attr.endswith("_cache") and n.attr[:-6] in ("deployment", "port", "step", "target", "filter", "token", "workflow"):
                    res.append((f.qualname, n))
        return res

    hits = p.per_module("c09.cache_refs", scan)
    n = 0
    for q, node in hits:
        f = p.functions[q]
        n += 1
        in_db = f.cls is not None and p.is_subclass(f.cls.qualname, CACHED_BASE)
        in_lambda = any(isinstance(a, ast.Lambda) for a in ancestors(node))
        ok = in_db and (f.name == "__init__" or f.name.startswith("update_") or in_lambda)
        # also lambdas in decorators are not in body_nodes of the function: handled below
        ctx.ob("R5", f"{q.rsplit('.', 2)[-2]}.{f.name} may touch self.{node.attr}", ok, func=f, node=node, instance=f"{f.name}:{node.attr}",
               message=f"{q} touches the row cache `{node.attr}` directly (only the memoising decorator, update_* and the constructor may)")
    ctx.require(n >= 13, f"C09.R5: only {n} cache references found")
    # no cache object shared between two getters
    getters = _getters(ctx)
    attrs = [a for _, a, _, _ in getters.values()]
    ctx.ob("R5", "each memoised getter has its own cache object", len(attrs) == len(set(attrs)), qualname=DB, instance="distinct-caches",
           message=f"two getters share a cache object (keys are bare ids: rows of different tables would collide): {attrs}")
    # constructor creates one cache per attribute
    init = p.func(f"{CACHED_BASE}.__init__")
    created = {unparse(t)[5:] for n in init.body_nodes() if isinstance(n, (ast.Assign, ast.AnnAssign)) for t in ([n.target] if isinstance(n, ast.AnnAssign) else n.targets)
               if unparse(t).startswith("self.") and unparse(t).endswith("_cache")}
    ctx.ob("R5", "every cache used by a getter is created in the constructor", set(attrs) <= created, func=init, node=init.node, instance="caches-created")


def r6(ctx):
    global _PROG
    p = _PROG = ctx.prog
    cls = p.cls(DB)
    n = 0
    for m in cls.methods.values():
        if not m.name.startswith("get_") or m.name == "get_schema" or _cached_decorator(m) is not None:
            continue
        n += 1
        sel = [e for e in _exec_calls(m) if (_sql_of(e) or "").lstrip().upper().startswith("SELECT")]
        ctx.ob("R6", f"{m.name} reads the database on every call", bool(sel), func=m, node=m.node, instance=f"{m.name}:select",
               message=f"{m.name} does not query the database")
    ctx.require(n >= 15, f"C09.R6: only {n} un-memoised getters found")


def _lock_attrs(p, cq: str) -> set[str]:
    """Instance attributes of class cq (MRO) that a constructor binds to a freshly created lock (`<mod>.Lock()` / `Lock()`)."""
    out = set()
    for q in p.mro(cq):
        c = p.classes.get(q)
        init = c.methods.get("__init__") if c is not None else None
        if init is None:
            continue
        for n in init.body_nodes():
            tgt = val = None
            if isinstance(n, ast.Assign) and len(n.targets) == 1:
                tgt, val = n.targets[0], n.value
            elif isinstance(n, ast.AnnAssign) and n.value is not None:
                tgt, val = n.target, n.value
            if (isinstance(tgt, ast.Attribute) and isinstance(tgt.value, ast.Name) and tgt.value.id == "self"
                    and isinstance(val, ast.Call) and (dotted(val.func) or "").split(".")[-1] in ("Lock", "RLock", "Semaphore", "BoundedSemaphore")
                    and not (val.args or val.keywords) or
                    (isinstance(tgt, ast.Attribute) and isinstance(val, ast.Call) and (dotted(val.func) or "").split(".")[-1] == "Lock")):
                if isinstance(tgt, ast.Attribute) and isinstance(tgt.value, ast.Name) and tgt.value.id == "self":
                    out.add(tgt.attr)
    return out


def _held_locks(node: ast.AST, locks: set[str]) -> set[str]:
    """Lock attributes certainly held while `node` is evaluated (lexical `async with self.<lock>` scopes of the same function)."""
    held = set()
    child = node
    for a in ancestors(node):
        if isinstance(a, (ast.FunctionDef, ast.AsyncFunctionDef, ast.Lambda)):
            break
        if isinstance(a, ast.AsyncWith):
            in_body = any(child is s for s in a.body)
            idx = next((i for i, it in enumerate(a.items) if child is it or child is it.context_expr or child is it.optional_vars), None)
            for i, it in enumerate(a.items):
                e = it.context_expr
                if isinstance(e, ast.Attribute) and isinstance(e.value, ast.Name) and e.value.id == "self" and e.attr in locks:
                    if in_body or (idx is not None and i < idx):
                        held.add(e.attr)
        child = a
    return held


def r7(ctx):
    p = ctx.prog
    getters = _getters(ctx)
    n = 0
    for q, (f, attr, tables, dec) in getters.items():
        cq = q.rsplit(".", 1)[0]
        cls = p.classes[cq]
        locks = _lock_attrs(p, cq)
        own = f.name[len("get_"):] if f.name.startswith("get_") else f.name
        ups = []
        for m in cls.methods.values():
            for e in _exec_calls(m):
                sql = _sql_of(e)
                mu = _mutation(sql) if sql else None
                if mu and mu[1] == own and _pops(m).get(attr):
                    ups.append((m, e))
        if not ups:
            continue
        n += 1
        # the whole read: every statement execution and every explicit await of the getter
        points = _exec_calls(f) + [x for x in f.body_nodes() if isinstance(x, ast.Await)]
        common = set(locks)
        for x in points:
            common &= _held_locks(x, locks)
        ctx.ob("R7", f"{f.name} performs its database read under an instance lock", bool(points) and bool(common), func=f, node=f.node,
               instance=f"{f.name}:read-locked",
               message=f"{f.name} suspends between its SELECT and the cache store without holding a lock: an update of the same row that runs in "
                       f"between pops an empty slot and the read then caches the old row for every later call")
        for m, e in ups:
            pops = [pc for pc in _pops(m).get(attr, [])]
            same_stmt = False
            held = set()
            for pc in pops:
                hl = _held_locks(e, locks) & _held_locks(pc, locks) & common
                for lk in hl:
                    # one critical section: the `async with self.<lk>` around the statement is the one around this pop
                    def scope(node, lk=lk):
                        for a in ancestors(node):
                            if isinstance(a, ast.AsyncWith) and any(unparse(it.context_expr) == f"self.{lk}" for it in a.items):
                                return a
                        return None
                    if scope(e) is not None and scope(pc) is scope(e):
                        same_stmt = True
                        held.add(lk)
            ok = bool(common) and bool(held & common) and same_stmt
            ctx.ob("R7", f"{m.name} executes the statement and invalidates {attr} in one critical section shared with {f.name}", ok, func=m, node=e,
                   instance=f"{m.name}:{attr}:exclusive",
                   message=f"{m.name} updates table `{own}` and pops self.{attr} without excluding an in-flight {f.name}: the stale row read before the "
                           f"UPDATE is cached after the pop")
    ctx.require(n >= 4, f"C09.R7: only {n} memoised getters with an updater found")


RULES = [("R1", r1), ("R2", r2), ("R3", r3), ("R4", r4), ("R5", r5), ("R6", r6), ("R7", r7)]
FLOORS = {"R1": 10, "R2": 30, "R3": 11, "R4": 6, "R5": 14, "R6": 15, "R7": 10}

VARIANTS = [
    V("update_step: pop removed", FILE, f"{DB}.update_step", "self.step_cache.pop(step_id, None)", "pass", "R1", control=True),
    V("update_port pops another cache", FILE, f"{DB}.update_port", "self.port_cache.pop(port_id, None)", "self.step_cache.pop(port_id, None)", "R1"),
    V("update_target pops also before the execute", FILE, f"{DB}.update_target",
      "async with self._cache_lock, self.connection as db:", "self.target_cache.pop(target_id, None)\n    async with self._cache_lock, self.connection as db:", None),
    V("update_filter pops only before the execute", FILE, f"{DB}.update_filter",
      "async with self._cache_lock, self.connection as db:\n        async with db.execute('UPDATE filter SET {} WHERE id = :id'.format(', '.join([f'{k} = :{k}' for k in updates])), cast(dict[str, Any], updates) | {'id': filter_id}):\n            self.filter_cache.pop(filter_id, None)\n            return filter_id",
      "self.filter_cache.pop(filter_id, None)\n    async with self._cache_lock, self.connection as db:\n        async with db.execute('UPDATE filter SET {} WHERE id = :id'.format(', '.join([f'{k} = :{k}' for k in updates])), cast(dict[str, Any], updates) | {'id': filter_id}):\n            return filter_id", "R1"),
    V("update_deployment pops a constant key", FILE, f"{DB}.update_deployment", "self.deployment_cache.pop(deployment_id, None)", "self.deployment_cache.pop(0, None)", "R1"),
    V("new UPDATE token method without pop", FILE, f"{DB}.update_execution",
      "'UPDATE execution SET {} WHERE id = :id'", "'UPDATE token SET {} WHERE id = :id'", "R2", control=True),
    V("DELETE FROM recoverable without invalidation", FILE, f"{DB}.update_execution",
      "'UPDATE execution SET {} WHERE id = :id'", "'DELETE FROM recoverable WHERE id = :id'", "R2"),
    V("keyword call of get_step", "streamflow/persistence/loading_context.py", None, "get_step(persistent_id)", "get_step(step_id=persistent_id)", "R3"),
    V("get_step without deep copy (S7 revert)", FILE, f"{DB}.get_step", "@cached(cache=lambda self: self.step_cache, postprocess=postprocess_deepcopy_mutables)", "@cached(cache=lambda self: self.step_cache)", "R4", control=True),
    V("get_token with shallow postprocess", FILE, f"{DB}.get_token", "postprocess=postprocess_deepcopy_mutables", "postprocess=None", "R4"),
    V("add_step primes the cache", FILE, f"{DB}.add_step", "return cast(int, cursor.lastrowid)", "self.step_cache[cursor.lastrowid] = {'params': params}\n            return cast(int, cursor.lastrowid)", "R5"),
    V("get_filter shares the port cache", FILE, f"{DB}.get_filter", "self.filter_cache", "self.port_cache", "R5"),
    V("external cache poke", "streamflow/persistence/loading_context.py", None, None, None, "R5",
      append="def _poke(context, i):\n    context.database.step_cache.pop(i, None)\n"),
    # benign
    V("memoise get_workflow without excluding update_workflow", FILE, f"{DB}.get_workflow", "async def get_workflow(",
      "@cached(cache=lambda self: self.workflow_cache, postprocess=postprocess_deepcopy_mutables)\nasync def get_workflow(", "R7"),
    V("get_step reads without the lock (S18 revert)", FILE, f"{DB}.get_step", "async with self._cache_lock, self.connection as db:", "async with self.connection as db:", "R7", control=True),
    V("update_port without the lock (S18 revert)", FILE, f"{DB}.update_port", "async with self._cache_lock, self.connection as db:", "async with self.connection as db:", "R7"),
    V("update_target pops after leaving the critical section", FILE, f"{DB}.update_target",
      "            self.target_cache.pop(target_id, None)\n            return target_id", "            pass\n    self.target_cache.pop(target_id, None)\n    return target_id", "R7"),
    V("get_deployment takes the lock only for the connection", FILE, f"{DB}.get_deployment",
      "async with self._cache_lock, self.connection as db:\n        async with db.execute(", "async with self._cache_lock:\n        db = await self.connection.__aenter__()\n    if db:\n        async with db.execute(", "R7"),
    V("get_filter under another lock than update_filter", FILE, f"{DB}.get_filter", "async with self._cache_lock, self.connection as db:", "async with self.connection._lock2, self.connection as db:", "R7"),
    V("lock attribute is not a lock", FILE, f"{DB}.__init__", "self._cache_lock: asyncio.Lock = asyncio.Lock()", "self._cache_lock = contextlib.nullcontext()", "R7"),
    V("nested async with for the lock (benign)", FILE, f"{DB}.get_port",
      "async with self._cache_lock, self.connection as db:\n        async with db.execute('SELECT * FROM port WHERE id = :id', {'id': port_id}) as cursor:\n            return _load_keys(dict(await cursor.fetchone()))",
      "async with self._cache_lock:\n        async with self.connection as db:\n            async with db.execute('SELECT * FROM port WHERE id = :id', {'id': port_id}) as cursor:\n                return _load_keys(dict(await cursor.fetchone()))", None),
    V("lock renamed consistently (benign)", FILE, DB, "self._cache_lock", "self._rw_guard", None, count=11),
    V("f-string SQL", FILE, f"{DB}.update_step", "'UPDATE step SET {} WHERE id = :id'.format(', '.join([f'{k} = :{k}' for k in updates]))",
      "'UPDATE step SET ' + ', '.join([f'{k} = :{k}' for k in updates]) + ' WHERE id = :id'", None),
    V("rename parameter binding", FILE, f"{DB}.get_target", "target_id", "tid", None, count=2),
]
