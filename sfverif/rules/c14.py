"""C14 Hardware arithmetic is consistent.

Clauses decided (facts extracted from the AST, compared between the dual operators -- P11 on facts, not syntax):
R1 operator duality: `Hardware.__add__`/`__sub__` return `Hardware(cores, memory, storage)` (arguments bound by
   the constructor signature) with `self.f (+|-) other.f` on the *same* field, and storage =
   `_reduce_storages(<self normalised>, <other normalised>; Storage.__add__|__sub__)` in the order (self, other)
   (the sequence may be a display with unpacking, `+`, `itertools.chain`; the fold may sit in a helper the storage
   argument resolves to -- extract-method: every result of the helper is followed, its parameters stand for the
   arguments of the entering call, at most 3 frames; anything else is reported as "not a _reduce_storages result");
   `Storage.__add__`/`__sub__` combine `size` with the same operator (self first), keep the mount point, unite
   `paths`, and both refuse different mount points before returning; `_reduce_storages` calls
   `operator(accumulated, disk)` in that argument order on the "already present" branch only and copies
   `disk.size` on the "first seen" branch.  The clause is quantified over *every* result of the operators (all
   returns, bare returns and fall-through, enumerated on the CFG): a result that is not such a construction is
   reported against the clause, never refused.  The only accepted shortcut is an operand returned unchanged
   (`X`, `X.normalized()`, a copy; for `__sub__` only the minuend) on paths the dropped operand can take only when
   its cores, memory *and* storage are empty -- decided per field by folding the guards under the witness
   "dropped.field is a positive amount" and requiring the shortcut return to be unreachable (a fast path whose
   emptiness test forgets the storage makes (a + r) - r != a for a storage-only r).
R2 comparison direction: `satisfies` may return a true value only when `self.cores >= other.cores` and
   `self.memory >= other.memory` (operators `>=`, guard table folded on the CFG); the storage clause is
   `all(...)` over every disk of *other's* normalised storage, comparing the size of *self's* normalised disk
   with the *same mount point* using `>=` -- or the loop that spells the quantifier out: a `for` over other's
   normalised disks whose size test is decided on the CFG (under "every disk stands in relation < / == / > to
   self's disk" a true return is reachable from inside the first iteration exactly for == and >; from the edge a
   too-small disk takes no true return is reachable at all, otherwise the loop decides like any()); a mount point
   missing in self raises (explicit key test -- `other - self` difference, `other <= self` subset, issubset /
   issuperset, through temporaries and negation -- whose "missing" edge only raises and which dominates the
   clause, or a plain subscript).  A storage loop that reports through a flag variable is refused (exit 2).
R3 normal form: *every* result of `_normalize_storage` (all returns, bare returns and fall-through, enumerated on
   the CFG, values followed through temporaries and conditional expressions) reduces `self.storage.values()` with
   `Storage.__add__` -- the fold is what re-keys by mount point; accepted shortcuts are an empty map on paths a
   non-empty `self.storage` cannot take and `self.storage` / a key-preserving copy on paths unreachable when
   `self.is_normalized()` is false (guards folded under those witnesses); any other result (e.g. a fast path
   guarded by the number of entries) is reported, never refused; `normalized()`
   goes through it and keeps cores/memory; `_reduce_storages` keys every entry by `disk.mount_point`;
   `is_normalized` is `all(key == disk.mount_point)` over `self.storage.items()`; no arithmetic/comparison
   method of `Hardware` (enumerated through the class table, merge operators `__or__/__ior__` excepted) reads
   `.storage` of an operand without normalising it.
R4 ownership: every `Hardware` owns its storage map.  The in-place operators (`Hardware.__ior__` inserts keys into
   `self.storage` and merges `self.storage[key] |= disk`, `Storage.__ior__` raises `size` in place) and the connectors
   that fill `Hardware(cores, memory).storage[mount] = ...` write into that map, so `Hardware()` stays the neutral
   element of `+`/`-`/`satisfies` only while no two instances share it.  Necessary condition, decided by def-use on
   every store into `<self>.storage` (whole map, `[key] = v`, `.update(m)`, `.setdefault(k, v)`) of every method of
   the class (enumerated through the class table; `__init__` must have one): each possible value -- `or`/`and`
   operands, both arms of a conditional expression, temporaries, loop/comprehension elements, the results of a helper
   the value resolves to (at most 3 frames, parameters bound by signature; a parameter of a private helper is
   followed to the call sites) -- is the caller's argument or an object created by that evaluation.  Reported: a
   module-level or class-level mutable object (also behind a shallow copy `dict(X)` / `X.copy()` / `{**X}` /
   `X[k]` / `X.get(k)`, because the `Storage` objects stay shared; `copy.deepcopy` is accepted), a mutable default
   argument (an empty one that is only the left operand of `or` can never be selected and is accepted), the result
   of a memoised helper (`functools.cache` / `lru_cache`), and a mutable class-level `storage` attribute.

Not decided (reported as violations rather than interpreted): a shortcut whose emptiness test uses a formulation the
guard folding does not know (anything but truthiness / comparison with 0 / len() / `any(d.size ...)` over the
operand's normalised storage, possibly through temporaries) is reported although it may be behaviour-preserving;
likewise a `_normalize_storage` shortcut whose guard establishes the normal form by other means than
`self.is_normalized()` (e.g. an inline `all(k == d.mount_point ...)`), or that rebuilds the map by a hand-written loop
instead of `_reduce_storages`, is reported.

Left out: the algebraic laws over fractional values (need symbolic evaluation) and `__or__/__ior__` semantics
(documented by the class as key-preserving merge, not part of the property).
"""

from __future__ import annotations

import ast

from ..dataflow import defs_of, origins
from ..model import dotted, parent, unparse
from ..selftest import V
from ._util_F import bind_args, builtin, call_is, compare_pair, edge_succ, enclosing_loops, fold3, guarded_reach, may_be_truthy, raises_only, resolved, strip_await

MOD = "streamflow.core.scheduling"
HW = f"{MOD}.Hardware"
ST = f"{MOD}.Storage"
RED = f"{MOD}._reduce_storages"
FILE = "streamflow/core/scheduling.py"

META = {
    "explanation": (
        "Fact extraction on Hardware/Storage operators in streamflow/core/scheduling.py: constructor calls are bound "
        "to parameters by signature, operands are resolved through def-use (temporaries, walrus), operator kinds and "
        "operand identities are compared between the dual operators (__add__/__sub__), satisfies' cores/memory guard "
        "is folded on the CFG (4-row table), the storage clause is checked for quantifier (all), iteration source "
        "(other, normalised), lookup key (same mount point) and direction (>=). Every value stored into self.storage is "
        "traced by def-use (helpers inlined, parameters followed) to the caller's argument or a fresh object; module-level, "
        "class-level, memoised and mutable-default objects are reported. Necessary conditions only."
    ),
    "undecided": "R4 is shape-based: sharing through `setattr` / `__dict__`, through a default built by an unresolved call or through an "
                 "object captured in a closure is not seen; the algebraic laws themselves over fractional values (would need symbolic evaluation); __or__/__ior__ semantics",
    "assumptions": ["dict iteration follows insertion order", "Storage sizes are compared as Python floats"],
}

# methods of Hardware that are allowed to read `.storage` un-normalised (merge operators keep the keys by
# contract -- see the class docstring -- and accessors look keys/paths up as stored)
RAW_OK = {"__init__", "__repr__", "__ior__", "__or__", "_normalize_storage", "get_mount_point", "get_mount_points",
          "get_size", "get_storage", "is_normalized"}


def _norm(node) -> str:
    return " ".join(unparse(node).split())[:90] if node is not None else "<missing>"


def _result_returns(ctx, f, cls_q: str):
    """Classify every result of `f`: `ctors` = (return stmt, constructor call) for each value built by `cls_q`;
    `others` = (return stmt | None, value | None) for each result that is *not* such a construction (a value of
    another shape, a bare `return`, or a path that falls off the end of the function).  `NotImplemented` is the
    operator protocol's refusal, not a result.  The callers decide what `others` mean for their obligation: they
    are reported against the obligation (never as an analysis error), because a path that does not build the
    result from both operands is exactly what the duality clause excludes."""
    g = f.cfg
    ctors, others = [], []
    for r in [n for n in f.body_nodes() if isinstance(n, ast.Return)]:
        if not any(g.reachable(i) for i in g.ids_of(r)):
            continue
        if r.value is None:
            others.append((r, None))
            continue
        for o in origins(f, r.value):
            o = strip_await(o)
            if isinstance(o, ast.Name) and o.id == "NotImplemented":
                continue
            if isinstance(o, ast.Call) and call_is(ctx.prog, f, o, cls_q):
                ctors.append((r, o))
            else:
                others.append((r, o))
    if any(k in ("n", "t", "f") and g.nodes[a].kind != "return" and g.reachable(a) for a, k in g.pred[g.exit]):
        others.append((None, None))
    ctx.require(bool(ctors or others), f"C14: {f.qualname} has no normal result at all (shape not interpretable)")
    return ctors, others


def _report_other_results(ctx, rule, f, others, label: str, what: str):
    """Every result of `f` that is not a `what` construction violates `rule` (generic form, used where no finer
    interpretation of the result is available)."""
    for r, o in others:
        text = _norm(o) if o is not None else ("<bare return>" if r is not None else "<falls off the end: None>")
        ctx.ob(rule, f"{label}: every result is a {what}", False, func=f, node=r if r is not None else f.node, instance=f"{label}:result:{text}",
               message=f"{label}: a path returns `{text}` instead of a {what}")


def _binop_fact(f, expr):
    """(op class, left dotted, right dotted) of every origin of expr, or None when an origin is not a BinOp."""
    facts = []
    for o in origins(f, expr):
        if not isinstance(o, ast.BinOp):
            return None
        facts.append((type(o.op), dotted(o.left), dotted(o.right)))
    return facts


def _check_field_op(ctx, rule, f, expr, field, want_op, me, other, what):
    facts = _binop_fact(f, expr) if expr is not None else None
    sym = {ast.Add: "+", ast.Sub: "-"}[want_op]
    ok = bool(facts)
    if ok:
        for op, left, right in facts:
            straight = left == f"{me}.{field}" and right == f"{other}.{field}"
            swapped = want_op is ast.Add and left == f"{other}.{field}" and right == f"{me}.{field}"
            if op is not want_op or not (straight or swapped):
                ok = False
    ctx.ob(rule, f"{what}: {field} = {me}.{field} {sym} {other}.{field}", ok, func=f, node=expr if expr is not None else f.node,
           instance=f"{f.cls.name}.{f.name}:{field}",
           message=f"{f.cls.name}.{f.name}: `{field}` is computed as `{_norm(expr)}` instead of `{me}.{field} {sym} {other}.{field}`")


def _only_param(f, name: str) -> bool:
    """`name` is a parameter of `f` that is never re-bound in its body."""
    return name in f.params and all(d.kind == "param" for d in defs_of(f, name))


def _root_name(f, name: str, env) -> str:
    """The name of the operator's own frame that local `name` of helper `f` denotes (`env` = (caller, parameter ->
    argument expression, caller's env), None in the operator itself); a text that matches no operand otherwise."""
    if env is None:
        return name
    caller, bind, up = env
    if _only_param(f, name) and name in bind:
        e = strip_await(bind[name])
        if isinstance(e, ast.Name):
            return _root_name(caller, e.id, up)
        return f"<{_norm(e)}>"
    return f"<{name} in {f.name}>"


def _helper_frames(p, f, call: ast.Call, env):
    """Frames `(helper, env)` of the program functions a call may run, parameters bound to the argument
    expressions by signature (the receiver of a bound method call binds `self`); None when a target is unknown
    or the binding is not expressible (*args / **kwargs)."""
    if any(isinstance(a, ast.Starred) for a in call.args) or any(k.arg is None for k in call.keywords):
        return None
    targets = resolved(p, f, call)
    fn = call.func
    if (all(q not in p.functions for q in targets) and f.cls is not None and isinstance(fn, ast.Attribute) and isinstance(fn.value, ast.Name) and fn.value.id in f.params
            and any(isinstance(c.func, ast.Name) and c.func.id == "isinstance" and len(c.args) == 2 and dotted(c.args[0]) == fn.value.id and dotted(c.args[1]) == f.cls.name
                    for c in f.calls())):
        # an untyped operand that the frame tests with isinstance(<operand>, <own class>): a method of the own class
        m = p.resolve_method(f.cls.qualname, fn.attr)
        targets = [m.qualname] if m is not None else targets
    if not targets:
        return None
    out = []
    for q in targets:
        h = p.functions.get(q)
        if h is None or h.is_async != isinstance(parent(call), ast.Await) or isinstance(h.node, ast.Lambda):
            return None
        a = h.node.args
        if a.vararg is not None or a.kwarg is not None or any(d in ("staticmethod", "classmethod", "property") for d in map(_deco_name, h.node.decorator_list)):
            return None
        pos = [x.arg for x in a.posonlyargs + a.args]
        bound = h.cls is not None and bool(pos) and pos[0] == "self" and isinstance(call.func, ast.Attribute)
        if bound:
            recv = call.func.value
            d = dotted(recv)
            if d is not None and p.resolve_dotted(f.module, d) in p.classes:  # Class.method(obj, ...)
                bound = False
        bind = bind_args(call, h.node, skip_self=bound)
        if bound:
            if isinstance(call.func.value, ast.Call) and isinstance(call.func.value.func, ast.Name) and call.func.value.func.id == "super":
                bind[pos[0]] = ast.Name(id=f.params[0], ctx=ast.Load()) if f.params else call.func.value
            else:
                bind[pos[0]] = call.func.value
        out.append((h, (f, bind, env)))
    return out


def _deco_name(d) -> str:
    d = d.func if isinstance(d, ast.Call) else d
    return (dotted(d) or "").rsplit(".", 1)[-1]


def _op_kind(p, f, expr, env=None) -> tuple[str | None, str]:
    """'add' / 'sub' for the callable handed to _reduce_storages (a parameter of a helper frame is followed to the
    argument of the call that entered the frame)."""
    for o in origins(f, expr):
        if isinstance(o, ast.Name) and env is not None and _only_param(f, o.id) and o.id in env[1]:
            return _op_kind(p, env[0], env[1][o.id], env[2])
        if isinstance(o, ast.Lambda):
            a = [x.arg for x in o.args.args]
            b = o.body
            if len(a) == 2 and isinstance(b, ast.BinOp) and dotted(b.left) == a[0] and dotted(b.right) == a[1]:
                return ({ast.Add: "add", ast.Sub: "sub"}.get(type(b.op)), _norm(o))
            return (None, _norm(o))
        d = dotted(o) or ""
        parts = d.split(".")
        if parts and parts[-1] == "__call__":
            parts = parts[:-1]
        owner = ".".join(parts[:-1])
        if owner and owner != "operator":
            q = p.resolve_dotted(f.module, owner)
            if q != ST:
                return (None, d)
        if parts and parts[-1] in ("__add__", "add"):
            return ("add", d)
        if parts and parts[-1] in ("__sub__", "sub"):
            return ("sub", d)
        return (None, d or _norm(o))
    return (None, "?")


def _operand(f, expr, depth: int = 6, env=None):
    """(owner name, normalised?) of a storage-map expression: `X._normalize_storage()`, `X.normalized().storage`
    -> (X, True); `X.storage` -> (X, False); `.values()/.keys()/.items()`, list()/tuple()/set() are transparent;
    locals are followed through their definitions.  Inside a helper frame (`env`, see `_root_name`) the owner is
    reported under the name it has in the operator that entered the frame, and a parameter that carries the map is
    followed to the argument."""
    if depth <= 0:
        return None
    expr = strip_await(expr)
    if isinstance(expr, ast.NamedExpr):
        return _operand(f, expr.value, depth - 1, env)
    if isinstance(expr, ast.Starred):
        return _operand(f, expr.value, depth - 1, env)
    if isinstance(expr, ast.Name):
        if env is not None and _only_param(f, expr.id) and expr.id in env[1]:
            return _operand(env[0], env[1][expr.id], depth - 1, env[2])
        outs = {_operand(f, o, depth - 1, env) for o in origins(f, expr) if o is not expr}
        return outs.pop() if len(outs) == 1 else None
    if isinstance(expr, ast.Call):
        fn = expr.func
        if isinstance(fn, ast.Attribute):
            if fn.attr in ("values", "keys", "items", "copy") and not expr.args:
                return _operand(f, fn.value, depth - 1, env)
            if fn.attr == "_normalize_storage" and isinstance(fn.value, ast.Name):
                return (_root_name(f, fn.value.id, env), True)
        if isinstance(fn, ast.Name) and fn.id in ("list", "tuple", "set", "frozenset", "dict", "iter") and len(expr.args) == 1:
            return _operand(f, expr.args[0], depth - 1, env)
        return None
    if isinstance(expr, ast.Attribute) and expr.attr == "storage":
        v = expr.value
        if isinstance(v, ast.Name):
            return (_root_name(f, v.id, env), False)
        if isinstance(v, ast.Call) and isinstance(v.func, ast.Attribute) and v.func.attr == "normalized" and isinstance(v.func.value, ast.Name):
            return (_root_name(f, v.func.value.id, env), True)
    return None


_CHAIN = ("itertools.chain", "chain")


def _pieces(f, expr, env=None, depth: int = 6) -> list[tuple]:
    """The storage maps concatenated into the sequence `expr`, in order, each as `(frame function, expression, env)`:
    tuple / list displays with unpacking, `+`, `itertools.chain(...)`, `chain.from_iterable(<display>)`; a parameter
    of a helper frame is followed to the argument."""
    out: list[tuple] = []
    for o in origins(f, expr):
        if isinstance(o, ast.Name) and env is not None and depth > 0 and _only_param(f, o.id) and o.id in env[1]:
            out.extend(_pieces(env[0], env[1][o.id], env[2], depth - 1))
        elif isinstance(o, (ast.Tuple, ast.List)):
            for e in o.elts:
                out.extend(_pieces(f, e.value, env, depth) if isinstance(e, ast.Starred) else [(f, e, env)])
        elif isinstance(o, ast.BinOp) and isinstance(o.op, ast.Add):
            out.extend(_pieces(f, o.left, env, depth) + _pieces(f, o.right, env, depth))
        elif isinstance(o, ast.Call) and isinstance(o.func, ast.Name) and o.func.id in ("list", "tuple", "iter") and len(o.args) == 1 and not o.keywords and depth > 0:
            out.extend(_pieces(f, o.args[0], env, depth - 1))
        elif isinstance(o, ast.Call) and (dotted(o.func) or "") in _CHAIN and not o.keywords:
            for a in o.args:
                out.extend(_pieces(f, a.value if isinstance(a, ast.Starred) else a, env, depth))
        elif (isinstance(o, ast.Call) and (dotted(o.func) or "") in tuple(c + ".from_iterable" for c in _CHAIN) and len(o.args) == 1 and not o.keywords
              and all(isinstance(x, (ast.Tuple, ast.List)) and not any(isinstance(e, ast.Starred) for e in x.elts) for x in origins(f, o.args[0]))):
            for x in origins(f, o.args[0]):
                for e in x.elts:
                    out.extend(_pieces(f, e, env, depth))
        else:
            out.append((f, o, env))
    return out


def _operands(f, expr, env=None) -> list:
    return [_operand(pf, x, env=pe) for pf, x, pe in _pieces(f, expr, env)]


def _reduce_sites(ctx, f, expr, env=None, depth: int = 3):
    """Every `_reduce_storages(...)` call the value `expr` of frame `f` may denote, as `(frame function, call, env)`;
    None when some possible value is not such a call.  Temporaries are followed by def-use, a parameter of a helper
    frame to its argument, and a call that resolves to program functions (extract-method: `self._combine(other, op)`)
    into *every* result of each target -- all returns, a bare return or a fall-through make the answer None -- with
    the parameters bound by signature (inlining bound: `depth` frames)."""
    if expr is None:
        return None
    p = ctx.prog
    out = []
    for o in origins(f, expr):
        o = strip_await(o)
        if isinstance(o, ast.Name) and env is not None and _only_param(f, o.id) and o.id in env[1]:
            sub = _reduce_sites(ctx, env[0], env[1][o.id], env[2], depth)
            if sub is None:
                return None
            out.extend(sub)
            continue
        if not isinstance(o, ast.Call):
            return None
        if call_is(p, f, o, RED):
            out.append((f, o, env))
            continue
        frames = _helper_frames(p, f, o, env) if depth > 0 else None
        if not frames:
            return None
        for h, henv in frames:
            g = h.cfg
            if any(k in ("n", "t", "f") and g.nodes[a].kind != "return" and g.reachable(a) for a, k in g.pred[g.exit]):
                return None
            rets = [n for n in h.body_nodes() if isinstance(n, ast.Return) and any(g.reachable(i) for i in g.ids_of(n))]
            if not rets:
                return None
            for r in rets:
                sub = _reduce_sites(ctx, h, r.value, henv, depth - 1)
                if sub is None:
                    return None
                out.extend(sub)
    return out or None


# =========================================================================== R1

HW_FIELDS = ("cores", "memory", "storage")


def _is_zero(e, field: str) -> bool:
    if isinstance(e, ast.Constant) and isinstance(e.value, (int, float)) and not isinstance(e.value, bool):
        return e.value == 0
    if field == "storage":
        if isinstance(e, ast.Dict) and not e.keys:
            return True
        if isinstance(e, ast.Call) and isinstance(e.func, ast.Name) and e.func.id == "dict" and not e.args and not e.keywords:
            return True
    return False


def _positive_atom(f, owner: str, field: str):
    """Guard atoms evaluated under the witness `owner.field is a positive amount` (cores / memory > 0; storage: a
    non-empty map holding a disk of positive size).  Unrecognised atoms stay unknown (both branches are taken), so
    `guarded_reach` over-approximates the paths such an operand can take."""

    def is_field(e) -> bool:
        e = strip_await(e)
        if isinstance(e, ast.Call) and isinstance(e.func, ast.Name) and e.func.id in ("len", "bool", "float", "int", "abs") and len(e.args) == 1 and not e.keywords:
            return is_field(e.args[0])
        if field != "storage":
            return dotted(e) == f"{owner}.{field}"
        if isinstance(e, ast.Call) and isinstance(e.func, ast.Name) and e.func.id in ("any", "sum") and len(e.args) == 1 and isinstance(e.args[0], (ast.GeneratorExp, ast.ListComp)):
            comp = e.args[0]
            gen = comp.generators[0]
            if len(comp.generators) != 1 or gen.ifs or not isinstance(gen.target, ast.Name):
                return False
            it = strip_await(gen.iter)
            if not (isinstance(it, ast.Call) and isinstance(it.func, ast.Attribute) and it.func.attr == "values"):
                return False
            src = _operand(f, it)
            size = f"{gen.target.id}.size"
            cp = compare_pair(comp.elt)
            positive = dotted(comp.elt) == size or (cp is not None and dotted(cp[0]) == size and isinstance(cp[1], (ast.Gt, ast.NotEq)) and _is_zero(cp[2], "size"))
            return src is not None and src[0] == owner and positive
        src = _operand(f, e)
        return src is not None and src[0] == owner

    def atom(e, depth: int = 4):
        if isinstance(e, ast.Name):
            defs = [o for o in origins(f, e) if o is not e]
            if depth > 0 and len(defs) == 1 and not is_field(e):
                return fold3(defs[0], lambda x: atom(x, depth - 1))
        if is_field(e):
            return True
        cp = compare_pair(e)
        if cp is not None and type(cp[1]) in _FLIP:
            left, op, right = cp[0], type(cp[1]), cp[2]
            if _is_zero(left, field) and is_field(right):
                left, right, op = right, left, _FLIP[op]
            if is_field(left) and _is_zero(right, field):
                return {ast.Eq: False, ast.NotEq: True, ast.Gt: True, ast.GtE: True, ast.LtE: False, ast.Lt: False}[op]
        return None

    return atom


def _unchanged_operand(o, names) -> str | None:
    """The parameter that `o` denotes unchanged: `X`, `X.normalized()`, `copy.copy(X)` / `copy.deepcopy(X)`."""
    o = strip_await(o)
    if isinstance(o, ast.Name) and o.id in names:
        return o.id
    if isinstance(o, ast.Call) and not o.keywords:
        fn = o.func
        if isinstance(fn, ast.Attribute) and fn.attr == "normalized" and not o.args and isinstance(fn.value, ast.Name) and fn.value.id in names:
            return fn.value.id
        if (dotted(fn) or "") in ("copy.copy", "copy.deepcopy", "copy", "deepcopy") and len(o.args) == 1 and isinstance(o.args[0], ast.Name) and o.args[0].id in names:
            return o.args[0].id
    return None


def _may_select(e, o, atom) -> bool:
    """May the conditional expression `e` evaluate to its sub-expression `o` under `atom`? (conservative: True)"""
    if isinstance(e, ast.Await):
        return _may_select(e.value, o, atom)
    if isinstance(e, ast.IfExp):
        v = fold3(e.test, atom)
        in_body = any(x is o for x in ast.walk(e.body))
        in_else = any(x is o for x in ast.walk(e.orelse))
        if in_body and not in_else:
            return v is not False and _may_select(e.body, o, atom)
        if in_else and not in_body:
            return v is not True and _may_select(e.orelse, o, atom)
    return True


def _shortcut_results(ctx, f, name: str, want_op, me: str, other: str, ctors, others):
    """Operator duality over *all* results: every result of Hardware.__add__/__sub__ is a Hardware(...) built from
    both operands (checked field by field by the caller), except that an operand may be returned unchanged
    (`X`, `X.normalized()`, a copy) on paths that the *dropped* operand can only take when its cores, memory and
    storage are all empty.  Decided per field on the CFG: under the witness `dropped.field is a positive amount`
    the guards are folded and the shortcut return must be unreachable.  So a fast path whose emptiness test forgets
    a field (a storage-only subtrahend is then not subtracted: (a + r) - r != a), a result of another shape, a bare
    `return` or a fall-through are violations of the duality clause, not uninterpretable shapes."""
    g = f.cfg
    label = f"Hardware.{name}"
    verb = "added" if want_op is ast.Add else "subtracted"
    bad: list[str] = []
    witness: list[str] = []
    node = None
    for r, o in others:
        if r is None or o is None:
            bad.append("a path ends with a bare return / falls off the end (result None)")
            node = node or r
            continue
        text = _norm(o)
        kept = _unchanged_operand(o, (me, other))
        if kept is None:
            bad.append(f"a path returns `{text}`, which is not a Hardware(...) built from both operands")
            node = node or r
            continue
        if want_op is ast.Sub and kept != me:
            bad.append(f"a path returns `{text}` (the subtrahend) as the difference")
            node = node or r
            continue
        dropped = other if kept == me else me
        ids = set(g.ids_of(r))
        site = set(g.node_containing(o) or ()) or ids
        lost = []
        for field in HW_FIELDS:
            atom = _positive_atom(f, dropped, field)
            # the value flows from where it is computed (the return itself, or the assignment of a temporary) to the
            # return: it is a possible result only if both are reachable under the witness
            live = guarded_reach(g, atom)
            if live & ids and live & site and _may_select(r.value, o, atom):
                lost.append(field)
        if lost:
            bad.append(f"the path returning `{text}` is taken although `{dropped}` may hold a positive amount of {', '.join(lost)}: "
                       f"{dropped}.{'/'.join(lost)} {'is' if len(lost) == 1 else 'are'} not {verb} on that path")
            node = node or r
            pth = g.path(g.entry, ids)
            witness.extend(g.describe(pth) if pth else [])
    n_short = len(others)
    ctx.ob("R1", f"{label}: every result combines cores, memory and storage of both operands ({len(ctors)} construction(s), {n_short} shortcut(s))", not bad, func=f,
           node=node if node is not None else f.node, instance=f"{label}:results", message=f"{label}: " + "; ".join(bad), witness=witness)


def _hardware_operator(ctx, name: str, want_op, kind: str):
    p = ctx.prog
    f = p.func(f"{HW}.{name}")
    ctx.require(len(f.params) == 2, f"C14.R1: Hardware.{name} is not a binary operator any more")
    me, other = f.params
    init = p.func(f"{HW}.__init__").node
    ctors, others = _result_returns(ctx, f, HW)
    _shortcut_results(ctx, f, name, want_op, me, other, ctors, others)
    for r, call in ctors:
        args = bind_args(call, init, skip_self=True)
        for field in ("cores", "memory"):
            _check_field_op(ctx, "R1", f, args.get(field), field, want_op, me, other, f"Hardware.{name}")
        sites = _reduce_sites(ctx, f, args.get("storage"))
        ctx.ob("R1", f"Hardware.{name}: storage is rebuilt by _reduce_storages", sites is not None, func=f, node=call, instance=f"Hardware.{name}:reduce",
               message=f"Hardware.{name}: storage argument `{_norm(args.get('storage'))}` is not a _reduce_storages(...) result")
        # each site is read in its own frame: the operator itself, or a helper the storage argument resolves to
        # (extract-method), whose parameters stand for the arguments of the call that entered it
        for hf, rc, env in sites or []:
            via = "" if hf is f else f" (through {hf.qualname.rsplit('.', 1)[-1]})"
            ra = bind_args(rc, p.func(RED).node)
            got_kind, text = _op_kind(p, hf, ra["operator"], env) if "operator" in ra else (None, "<missing>")
            ctx.ob("R1", f"Hardware.{name}: storages are combined with Storage.__{kind}__", got_kind == kind, func=f, node=rc if hf is f else call, instance=f"Hardware.{name}:storage-op",
                   message=f"Hardware.{name}: storages are combined with `{text}` instead of Storage.__{kind}__{via}")
            ops = _operands(hf, ra["storages"], env) if "storages" in ra else []
            want = [(me, True), (other, True)]
            ok = ops == want or (want_op is ast.Add and ops == want[::-1])
            ctx.ob("R1", f"Hardware.{name}: operands are the normalised storages in the order (self, other)", ok, func=f, node=rc if hf is f else call, instance=f"Hardware.{name}:storage-operands",
                   message=f"Hardware.{name}: _reduce_storages receives {ops} (owner, normalised) instead of {want}{via}")


def _storage_operator(ctx, name: str, want_op):
    p = ctx.prog
    f = p.func(f"{ST}.{name}")
    g = f.cfg
    ctx.require(len(f.params) == 2, f"C14.R1: Storage.{name} is not a binary operator any more")
    me, other = f.params
    init = p.func(f"{ST}.__init__").node
    rets, others = _result_returns(ctx, f, ST)
    _report_other_results(ctx, "R1", f, others, f"Storage.{name}", "Storage(...) built from both operands")
    for r, call in rets:
        args = bind_args(call, init, skip_self=True)
        _check_field_op(ctx, "R1", f, args.get("size"), "size", want_op, me, other, f"Storage.{name}")
        mp = {dotted(o) for o in origins(f, args["mount_point"])} if "mount_point" in args else set()
        ctx.ob("R1", f"Storage.{name} keeps the mount point", bool(mp) and mp <= {f"{me}.mount_point", f"{other}.mount_point"}, func=f, node=call,
               instance=f"Storage.{name}:mount_point", message=f"Storage.{name}: result is mounted on `{_norm(args.get('mount_point'))}`")
        pa = args.get("paths")
        ok = False
        for o in origins(f, pa) if pa is not None else []:
            if isinstance(o, ast.BinOp) and isinstance(o.op, ast.BitOr):
                ok = {dotted(o.left), dotted(o.right)} == {f"{me}.paths", f"{other}.paths"}
            elif isinstance(o, ast.Call) and isinstance(o.func, ast.Attribute) and o.func.attr == "union" and len(o.args) == 1:
                ok = {dotted(o.func.value), dotted(o.args[0])} == {f"{me}.paths", f"{other}.paths"}
        ctx.ob("R1", f"Storage.{name} unites the paths of both operands", ok, func=f, node=call, instance=f"Storage.{name}:paths",
               message=f"Storage.{name}: paths are `{_norm(pa)}` instead of the union of both operands' paths")
    # different mount points are refused before any result is built
    guard = None
    for n in g.nodes.values():
        if n.kind != "test":
            continue
        hit = []

        def atom(e, _hit=hit):
            cp = compare_pair(e)
            if cp and {dotted(cp[0]), dotted(cp[2])} == {f"{me}.mount_point", f"{other}.mount_point"} and isinstance(cp[1], (ast.Eq, ast.NotEq)):
                _hit.append(e)
                return isinstance(cp[1], ast.NotEq)  # value when the mount points differ
            return None

        v = fold3(n.ast, atom)
        if hit and v is not None:
            guard = (n, v)
            break
    ok = False
    if guard:
        n, v = guard
        ret_ids = [i for r, _ in rets for i in g.ids_of(r)]
        ok = raises_only(g, edge_succ(g, n.id, "t" if v else "f")) and all(g.dominates(n.id, i) for i in ret_ids)
    ctx.ob("R1", f"Storage.{name} refuses different mount points", ok, func=f, node=guard[0].ast if guard else f.node, instance=f"Storage.{name}:guard",
           message=f"Storage.{name} combines storages of different mount points (no raising mount-point test before the result)")


def _reduce_storages(ctx):
    """Shape facts of _reduce_storages used by R1 (argument order, branch) and R3 (keys)."""
    p = ctx.prog
    f = p.func(RED)
    g = f.cfg
    ctx.require(len(f.params) == 2, "C14: _reduce_storages signature changed")
    seq, opn = f.params
    loops = [n for n in f.body_nodes() if isinstance(n, ast.For) and any(isinstance(o, ast.Name) and o.id == seq for o in origins(f, n.iter) + [n.iter])]
    ctx.require(len(loops) == 1 and isinstance(loops[0].target, ast.Name), "C14: loop over the storages parameter not found in _reduce_storages")
    lp = loops[0]
    disk = lp.target.id
    rets = [n for n in f.body_nodes() if isinstance(n, ast.Return) and isinstance(n.value, ast.Name)]
    ctx.require(len(rets) >= 1, "C14: _reduce_storages does not return its accumulator by name")
    acc = rets[0].value.id
    key = f"{disk}.mount_point"
    facts = {"loop": lp, "disk": disk, "acc": acc, "key": key}
    # operator call
    ocalls = [c for c in f.calls() if isinstance(c.func, ast.Name) and c.func.id == opn]
    ctx.require(len(ocalls) == 1, "C14: the operator call in _reduce_storages was not found (or duplicated)")
    oc = ocalls[0]
    a0 = oc.args[0] if oc.args else None
    a1 = oc.args[1] if len(oc.args) > 1 else None
    ok_order = (isinstance(a0, ast.Subscript) and isinstance(a0.value, ast.Name) and a0.value.id == acc and dotted(a0.slice) == key
                and isinstance(a1, ast.Name) and a1.id == disk)
    ctx.ob("R1", "_reduce_storages applies operator(accumulated, disk) in that order", ok_order, func=f, node=oc, instance="reduce:operator-args",
           message=f"_reduce_storages calls `{_norm(oc)}`: the accumulated storage must be the left operand and the current disk the right one")
    # branch structure
    tests = []
    for n in g.nodes.values():
        if n.kind != "test":
            continue
        hit = []

        def atom(e, _hit=hit):
            cp = compare_pair(e)
            if cp and isinstance(cp[1], (ast.In, ast.NotIn)) and dotted(cp[0]) == key:
                r = cp[2]
                if isinstance(r, ast.Call) and isinstance(r.func, ast.Attribute) and r.func.attr == "keys":
                    r = r.func.value
                if isinstance(r, ast.Name) and r.id == acc:
                    _hit.append(e)
                    return isinstance(cp[1], ast.In)  # value when the mount point is already present
            return None

        v = fold3(n.ast, atom)
        if hit and v is not None:
            tests.append((n, v))
    ctx.require(len(tests) == 1, "C14: membership test `disk.mount_point in <accumulator>` not found in _reduce_storages")
    t, v = tests[0]
    head = g.ids_of(lp)
    on = g.node_containing(oc)
    present = g.reach(edge_succ(g, t.id, "t" if v else "f"), avoid=[t.id] + head, include_src=True)
    absent = g.reach(edge_succ(g, t.id, "f" if v else "t"), avoid=[t.id] + head, include_src=True)
    ctx.ob("R1", "_reduce_storages combines only with an entry that is already present", bool(set(on) & present) and not (set(on) & absent), func=f, node=t.ast,
           instance="reduce:branch", message="_reduce_storages applies the operator on the wrong branch of the membership test")
    # first-seen copy
    copies = []
    for n in g.nodes.values():
        if n.id in absent and n.kind == "stmt" and isinstance(n.ast, ast.Assign):
            for tg in n.ast.targets:
                if isinstance(tg, ast.Subscript) and isinstance(tg.value, ast.Name) and tg.value.id == acc:
                    copies.append(n)
    ok_copy = False
    for n in copies:
        val = n.ast.value
        if isinstance(val, ast.Name) and val.id == disk:
            ok_copy = True
        elif isinstance(val, ast.Call) and call_is(p, f, val, ST):
            a = bind_args(val, p.func(f"{ST}.__init__").node, skip_self=True)
            ok_copy = dotted(a.get("size")) == f"{disk}.size" and dotted(a.get("mount_point")) == key
    if ok_copy:
        ctx.observe("C14.R1: _reduce_storages copies a first-seen disk with +size whatever the operator is, so Hardware.__sub__ of a mount point that only the "
                    "subtrahend has yields +size instead of failing; outside the property's quantifier ((a + r) - r always has r's mount points), not armed")
    ctx.ob("R1", "_reduce_storages starts a mount point with the disk's own size", ok_copy, func=f, node=copies[0].ast if copies else t.ast, instance="reduce:first-seen",
           message="_reduce_storages does not initialise a new mount point with the disk's mount point and size")
    return facts


def r1(ctx):
    _hardware_operator(ctx, "__add__", ast.Add, "add")
    _hardware_operator(ctx, "__sub__", ast.Sub, "sub")
    _storage_operator(ctx, "__add__", ast.Add)
    _storage_operator(ctx, "__sub__", ast.Sub)
    _reduce_storages(ctx)


# =========================================================================== R2

_FLIP = {ast.GtE: ast.LtE, ast.LtE: ast.GtE, ast.Gt: ast.Lt, ast.Lt: ast.Gt, ast.Eq: ast.Eq, ast.NotEq: ast.NotEq}
_SYM = {ast.GtE: ">=", ast.LtE: "<=", ast.Gt: ">", ast.Lt: "<", ast.Eq: "==", ast.NotEq: "!="}


def _field_cmp(e, me, other, field):
    """Normalised operator class of a comparison between me.field and other.field (me on the left), else None."""
    cp = compare_pair(e)
    if cp is None or type(cp[1]) not in _FLIP:
        return None
    left, op, right = dotted(cp[0]), type(cp[1]), dotted(cp[2])
    if left == f"{me}.{field}" and right == f"{other}.{field}":
        return op
    if left == f"{other}.{field}" and right == f"{me}.{field}":
        return _FLIP[op]
    return None


def r2(ctx):
    p = ctx.prog
    f = p.func(f"{HW}.satisfies")
    g = f.cfg
    ctx.require(len(f.params) == 2, "C14.R2: Hardware.satisfies signature changed")
    me, other = f.params
    truthy = [n for n in g.nodes.values() if n.kind == "return" and may_be_truthy(n.ast)]
    ctx.require(bool(truthy), "C14.R2: satisfies has no return that may be true")
    tids = {n.id for n in truthy}
    # --- scalar comparisons, decided semantically: each field's relation self ? other ranges over {<, ==, >};
    #     every recognised comparison is evaluated under the relation, guards are folded on the CFG and a true
    #     return must be reachable exactly when both relations are == or >  (so `>` instead of `>=`, a flipped
    #     comparison, `or` instead of `and`, or an early `return False` on equality are all caught, whatever the shape)
    sem = _SEM
    seen_fields: set[str] = set()

    def reach_true(rc, rm) -> bool:
        def atom(e):
            for field, rel in (("cores", rc), ("memory", rm)):
                op = _field_cmp(e, me, other, field)
                if op is not None:
                    seen_fields.add(field)
                    return sem[op](rel)
            return None
        return bool(guarded_reach(g, atom) & tids)

    name = {LT: "<", EQ: "==", GT: ">"}
    table = {(rc, rm): reach_true(rc, rm) for rc in (LT, EQ, GT) for rm in (LT, EQ, GT)}
    for field, idx in (("cores", 0), ("memory", 1)):
        col = {}
        for rel in (LT, EQ, GT):
            key = (rel, GT) if idx == 0 else (GT, rel)
            col[rel] = table[key]
        ok = field in seen_fields and col == {LT: False, EQ: True, GT: True}
        wrong = [f"self.{field} {name[r]} other.{field}: {'accepted' if v else 'rejected'}" for r, v in col.items() if v != (r >= EQ)]
        ctx.ob("R2", f"satisfies accepts {field} exactly when {me}.{field} >= {other}.{field}", ok, func=f, node=f.node, instance=f"satisfies:{field}",
               message=(f"satisfies decides {field} wrongly: " + "; ".join(wrong)) if field in seen_fields else f"satisfies no longer compares {field}", witness=wrong)
    rows = [f"cores {name[rc]}, memory {name[rm]}: true return {'reachable' if v else 'unreachable'}" for (rc, rm), v in table.items() if v != (rc >= EQ and rm >= EQ)]
    ctx.ob("R2", "a true result requires enough cores and enough memory", not rows, func=f, node=f.node, instance="satisfies:guards",
           message="satisfies: cores/memory guards do not implement `enough cores and enough memory`: " + "; ".join(rows[:4]), witness=rows)
    # --- storage clause: `all(...)` over the requirement's disks, or the loop that spells the same quantifier out
    alls = []
    for r in truthy:
        for o in origins(f, r.ast.value):
            if isinstance(o, ast.Call) and builtin(p, f, o) in ("all", "any") and len(o.args) == 1 and isinstance(o.args[0], (ast.GeneratorExp, ast.ListComp)):
                alls.append((r, o))
    loops = _clause_loops(f, tids)
    ctx.require(bool(alls or loops), "C14.R2: the storage clause of satisfies (`all(...)` over the requirement's disks, or a loop over them that returns false on "
                                     "the first disk that is too small) was not found (shape not interpretable)")
    for r, call in alls:
        ctx.ob("R2", "every mount point of the requirement must be satisfied (all)", builtin(p, f, call) == "all", func=f, node=call, instance="satisfies:all",
               message="satisfies aggregates the per-mount-point comparisons with any() instead of all()")
        comp = call.args[0]
        ctx.require(len(comp.generators) == 1 and not comp.generators[0].ifs, "C14.R2: storage comprehension with conditions/several generators is not interpretable")
        gen = comp.generators[0]
        src = _operand(f, gen.iter)
        ctx.ob("R2", "the storage clause iterates the requirement's (other's) normalised disks", src == (other, True), func=f, node=gen.iter, instance="satisfies:iterates-other",
               message=f"satisfies iterates {src} (owner, normalised) instead of ({other!r}, True): mount points of the requirement can be skipped")
        dv = _disk_var(gen.iter, gen.target)
        ctx.require(dv is not None, "C14.R2: disk variable of the storage clause not found (iterate `.values()` or `.items()`)")
        cp = compare_pair(comp.elt)
        ctx.require(cp is not None and type(cp[1]) in _FLIP, "C14.R2: element of the storage clause is not a single comparison")
        dc = _disk_cmp(f, comp.elt)
        ctx.require(dc is not None, "C14.R2: storage comparison does not look a disk up by subscript (shape not interpretable)")
        sub, op, right = dc
        _capacity_side(ctx, f, me, dv, sub)
        ctx.ob("R2", "disk sizes are compared with >=", op is ast.GtE and dotted(right) == f"{dv}.size", func=f, node=comp.elt, instance="satisfies:size",
               message=f"satisfies compares disk sizes as `{_norm(comp.elt)}` (normalised operator `{_SYM[op]}`) instead of self >= other")
        _missing_mount(ctx, f, me, other, g.ids_of(r.ast), sub)
    for lp, dv, tests in loops:
        head = g.ids_of(lp)
        body = [b for h in head for b in edge_succ(g, h, "t")]
        # quantifier: an iteration whose disk is too small (the others unknown) must end the search with a false
        # result -- from the edge the disk tests take for such a disk no true return is reachable any more
        # (`if enough: return True` / a `continue` on a small disk would make it any())
        leak = []
        for n, _hits in tests:
            v = fold3(n.ast, _disk_atom(f, LT))
            starts = [b for b, k in g.succ[n.id] if k in ("t", "f") and not (v is True and k == "f") and not (v is False and k == "t")]
            hit = g.reach(starts, include_src=True) & tids
            leak.extend(sorted(hit))
        flags = [i for i in leak if not isinstance(g.nodes[i].ast.value, ast.Constant)]
        ctx.require(not flags, "C14.R2: the storage loop of satisfies reports through a computed value (flag variable); only `return <constant>` on the first "
                               "disk that is too small is interpreted (shape not interpretable)")
        ctx.ob("R2", "every mount point of the requirement must be satisfied (all)", not leak, func=f, node=lp, instance="satisfies:all",
               message="satisfies: a true result stays reachable after a disk of the requirement was found too small (the loop over the mount points decides like any() "
                       "instead of all())", witness=g.describe(g.path(head[0], leak) or []) if leak and head else [])
        src = _operand(f, lp.iter)
        ctx.ob("R2", "the storage clause iterates the requirement's (other's) normalised disks", src == (other, True), func=f, node=lp.iter, instance="satisfies:iterates-other",
               message=f"satisfies iterates {src} (owner, normalised) instead of ({other!r}, True): mount points of the requirement can be skipped")
        sides_ok = True
        for n, hits in tests:
            for e, (sub, op, right) in hits:
                _capacity_side(ctx, f, me, dv, sub)
                sides_ok = sides_ok and dotted(right) == f"{dv}.size"
        # direction, decided like the scalar guards: every disk of the requirement stands in the relation `rel` to
        # self's disk with the same mount point; starting inside the first iteration (the requirement has a disk) a
        # true return must be reachable exactly when rel is == or >
        col = {rel: bool(guarded_reach(g, _disk_atom(f, rel), starts=body) & tids) for rel in (LT, EQ, GT)}
        wrong = [f"self disk {name[r]} required disk: {'accepted' if v else 'rejected'}" for r, v in col.items() if v != (r >= EQ)]
        first = tests[0][1][0][0]
        ctx.ob("R2", "disk sizes are compared with >=", sides_ok and not wrong, func=f, node=first, instance="satisfies:size",
               message=(f"satisfies decides disk sizes wrongly (`{_norm(first)}`): " + "; ".join(wrong)) if wrong else
                       f"satisfies compares `{_norm(first)}`: the required side is not `{dv}.size`", witness=wrong)
        _missing_mount(ctx, f, me, other, head, tests[0][1][0][1][0])


LT, EQ, GT = -1, 0, 1
_SEM = {ast.GtE: lambda r: r >= EQ, ast.Gt: lambda r: r == GT, ast.LtE: lambda r: r <= EQ, ast.Lt: lambda r: r == LT,
        ast.Eq: lambda r: r == EQ, ast.NotEq: lambda r: r != EQ}


def _disk_var(it, target) -> str | None:
    """The variable that holds the disk when `target` iterates `<map>.values()` / `<map>.items()`."""
    it = strip_await(it)
    kind = it.func.attr if isinstance(it, ast.Call) and isinstance(it.func, ast.Attribute) else None
    if kind == "values" and isinstance(target, ast.Name):
        return target.id
    if kind == "items" and isinstance(target, ast.Tuple) and len(target.elts) == 2 and isinstance(target.elts[1], ast.Name):
        return target.elts[1].id
    return None


def _disk_cmp(f, e):
    """(lookup subscript, operator with the looked-up disk on the left, other side) of a comparison
    `<map>[<key>].size OP <x>` (either way round; the looked-up disk may sit in a temporary), else None."""
    cp = compare_pair(e)
    if cp is None or type(cp[1]) not in _FLIP:
        return None

    def lookup(x):
        if not (isinstance(x, ast.Attribute) and x.attr == "size"):
            return None
        v = x.value
        if isinstance(v, ast.Name):
            defs = [o for o in origins(f, v) if o is not v]
            v = defs[0] if len(defs) == 1 else v
        return v if isinstance(v, ast.Subscript) else None

    left, op, right = cp[0], type(cp[1]), cp[2]
    ls, rs = lookup(left), lookup(right)
    if ls is None and rs is not None:
        ls, right, op = rs, left, _FLIP[op]
    return (ls, op, right) if ls is not None else None


def _disk_atom(f, rel, hits: list | None = None):
    """Guard atoms under the witness `looked-up disk size  rel  compared size` (rel in LT/EQ/GT) for every disk
    comparison (temporaries followed); everything else stays unknown.  `hits` collects the comparisons met."""

    def atom(e, depth: int = 3):
        if isinstance(e, ast.Name):
            defs = [o for o in origins(f, e) if o is not e]
            return fold3(defs[0], lambda x: atom(x, depth - 1)) if depth > 0 and len(defs) == 1 else None
        dc = _disk_cmp(f, e)
        if dc is None:
            return None
        if hits is not None:
            hits.append((e, dc))
        return _SEM[dc[1]](rel)

    return atom


def _clause_loops(f, tids):
    """`for` loops of `f` over a storage map whose body tests a disk-size comparison and from which a true return is
    reachable: (loop, disk variable, [(test node, [(comparison, (subscript, op, other side))])])."""
    g = f.cfg
    out = []
    for lp in [n for n in f.body_nodes() if isinstance(n, ast.For)]:
        if _operand(f, lp.iter) is None:
            continue
        dv = _disk_var(lp.iter, lp.target)
        head = g.ids_of(lp)
        if dv is None or not head or not (g.reach(head, include_src=True) & tids):
            continue
        tests = []
        for n in g.nodes.values():
            if n.kind == "test" and n.ast is not None and any(a is lp for a in enclosing_loops(n.ast, f.node)):
                hits: list = []
                fold3(n.ast, _disk_atom(f, LT, hits))
                if hits:
                    tests.append((n, hits))
        if tests:
            out.append((lp, dv, tests))
    return out


def _capacity_side(ctx, f, me: str, dv: str, sub: ast.Subscript):
    owner = _operand(f, sub.value)
    ctx.ob("R2", "the capacity side is self's normalised storage", owner == (me, True), func=f, node=sub, instance="satisfies:self-side",
           message=f"satisfies looks the capacity up in {owner} (owner, normalised) instead of ({me!r}, True)")
    ctx.ob("R2", "the capacity disk is looked up by the requirement disk's mount point", dotted(sub.slice) == f"{dv}.mount_point", func=f, node=sub, instance="satisfies:same-mount",
           message=f"satisfies compares against `{_norm(sub)}`: not the disk with the requirement's mount point")


def _key_test(f, e):
    """(operand whose keys must all be present, operand that must hold them, truth of `e` when one is missing) of a
    key-set test between two storage maps: `A - B` / `A.difference(B)` (true when missing), `A <= B`, `B >= A`,
    `A.issubset(B)`, `B.issuperset(A)` (false when missing); operands as `_operand` reads them."""
    e = strip_await(e)
    need = have = None
    val = True
    if isinstance(e, ast.BinOp) and isinstance(e.op, ast.Sub):
        need, have = e.left, e.right
    elif isinstance(e, ast.Compare) and len(e.ops) == 1 and isinstance(e.ops[0], (ast.LtE, ast.GtE)):
        need, have, val = (e.left, e.comparators[0], False) if isinstance(e.ops[0], ast.LtE) else (e.comparators[0], e.left, False)
    elif isinstance(e, ast.Call) and isinstance(e.func, ast.Attribute) and len(e.args) == 1 and not e.keywords:
        if e.func.attr == "difference":
            need, have = e.func.value, e.args[0]
        elif e.func.attr == "issubset":
            need, have, val = e.func.value, e.args[0], False
        elif e.func.attr == "issuperset":
            need, have, val = e.args[0], e.func.value, False
    if need is None:
        return None
    lo, ro = _operand(f, need), _operand(f, have)
    return (lo, ro, val) if lo and ro else None


def _missing_mount(ctx, f, me: str, other: str, anchor_ids, sub):
    """A mount point of the requirement that self lacks raises: an explicit key test (other's normalised keys not
    all among self's normalised keys -- set difference, subset comparison, issubset/issuperset, through temporaries
    and negation) whose `missing` edge only raises and which dominates the clause, or a plain subscript."""
    g = f.cfg
    found = None
    for n in g.nodes.values():
        if n.kind != "test" or n.ast is None:
            continue
        hits: list = []

        def atom(e, depth: int = 3, _hits=hits):
            if isinstance(e, ast.Name):
                defs = [o for o in origins(f, e) if o is not e]
                return fold3(defs[0], lambda x: atom(x, depth - 1)) if depth > 0 and len(defs) == 1 else None
            kt = _key_test(f, e)
            if kt is None or {kt[0][0], kt[1][0]} != {me, other}:
                return None
            _hits.append(kt)
            return kt[2]

        v = fold3(n.ast, atom)
        if hits:
            found = (n, hits, v)
    if found is not None:
        n, hits, v = found
        ok = (all(lo == (other, True) and ro == (me, True) for lo, ro, _ in hits) and v is not None and raises_only(g, edge_succ(g, n.id, "t" if v else "f"))
              and all(g.dominates(n.id, i) for i in anchor_ids))
        ctx.ob("R2", "a mount point of the requirement that self lacks raises", ok, func=f, node=n.ast, instance="satisfies:missing-mount",
               message=f"satisfies: key test `{_norm(n.ast)}` must test other's normalised keys against self's normalised keys (difference / subset), raise when one is missing, and precede the result")
    else:
        ctx.ob("R2", "a mount point of the requirement that self lacks raises", True, func=f, node=sub, instance="satisfies:missing-mount")
        ctx.observe("C14.R2: satisfies has no explicit missing-mount-point test; the plain subscript raises KeyError instead")


# =========================================================================== R3


def _not_normal_atom(f, me: str):
    """Guard atoms evaluated under the witness `me.is_normalized() is false` (some key is not its disk's mount
    point); everything else stays unknown."""

    def atom(e, depth: int = 4):
        if isinstance(e, ast.Name):
            defs = [o for o in origins(f, e) if o is not e]
            return fold3(defs[0], lambda x: atom(x, depth - 1)) if depth > 0 and len(defs) == 1 else None
        e = strip_await(e)
        if isinstance(e, ast.Call) and isinstance(e.func, ast.Attribute) and e.func.attr == "is_normalized" and dotted(e.func.value) == me and not e.args and not e.keywords:
            return False
        return None

    return atom


def _nonempty_atom(f, me: str):
    """Guard atoms evaluated under the witness `me.storage holds at least one entry` (truthiness of the map or of
    a view / copy of it, `len(...)` compared with 0 or 1, comparison with an empty map)."""

    def is_map(e) -> bool:
        e = strip_await(e)
        if isinstance(e, ast.Call) and isinstance(e.func, ast.Name) and e.func.id in ("len", "bool") and len(e.args) == 1 and not e.keywords:
            return is_map(e.args[0])
        return _operand(f, e) == (me, False)

    def is_len(e) -> bool:
        e = strip_await(e)
        return isinstance(e, ast.Call) and isinstance(e.func, ast.Name) and e.func.id == "len" and len(e.args) == 1 and not e.keywords and is_map(e.args[0])

    def atom(e, depth: int = 4):
        if isinstance(e, ast.Name) and not is_map(e):
            defs = [o for o in origins(f, e) if o is not e]
            return fold3(defs[0], lambda x: atom(x, depth - 1)) if depth > 0 and len(defs) == 1 else None
        if is_map(e):
            return True
        cp = compare_pair(e)
        if cp is not None and type(cp[1]) in _FLIP:
            left, op, right = cp[0], type(cp[1]), cp[2]
            if not is_map(left) and is_map(right):
                left, right, op = right, left, _FLIP[op]
            if is_map(left) and not is_len(left) and _is_zero(right, "storage") and not isinstance(right, ast.Constant) and op in (ast.Eq, ast.NotEq):
                return op is ast.NotEq
            if is_len(left) and isinstance(right, ast.Constant) and right.value in (0, 1) and not isinstance(right.value, bool):
                c = right.value
                fn = {ast.Eq: lambda n: n == c, ast.NotEq: lambda n: n != c, ast.Gt: lambda n: n > c, ast.GtE: lambda n: n >= c,
                      ast.Lt: lambda n: n < c, ast.LtE: lambda n: n <= c}[op]
                vals = {fn(n) for n in (1, 2, 3)}  # every size the witness allows (the predicates are monotone beyond 2)
                return vals.pop() if len(vals) == 1 else None
        return None

    return atom


def _storage_copy(f, e, me: str, depth: int = 5) -> bool:
    """Is `e` the map `me.storage` itself or a key-preserving copy of it (`dict(X)`, `X.copy()`, `copy.copy(X)`,
    `dict(X.items())`, `{k: v for k, v in X.items()}`, `{**X}`), locals followed?"""
    e = strip_await(e)
    if depth <= 0:
        return False
    if isinstance(e, ast.NamedExpr):
        return _storage_copy(f, e.value, me, depth - 1)
    if isinstance(e, ast.Name):
        defs = [o for o in origins(f, e) if o is not e]
        return bool(defs) and all(_storage_copy(f, o, me, depth - 1) for o in defs)
    if isinstance(e, ast.Attribute):
        return e.attr == "storage" and dotted(e.value) == me
    if isinstance(e, ast.Dict):
        return len(e.keys) == 1 and e.keys[0] is None and _storage_copy(f, e.values[0], me, depth - 1)

    def items_of(x) -> bool:
        x = strip_await(x)
        return isinstance(x, ast.Call) and isinstance(x.func, ast.Attribute) and x.func.attr == "items" and not x.args and _storage_copy(f, x.func.value, me, depth - 1)

    if isinstance(e, ast.DictComp):
        gen = e.generators[0]
        return (len(e.generators) == 1 and not gen.ifs and items_of(gen.iter) and isinstance(gen.target, ast.Tuple) and len(gen.target.elts) == 2
                and all(isinstance(x, ast.Name) for x in gen.target.elts) and dotted(e.key) == gen.target.elts[0].id and dotted(e.value) == gen.target.elts[1].id)
    if isinstance(e, ast.Call) and not e.keywords:
        fn = e.func
        if isinstance(fn, ast.Attribute) and fn.attr == "copy" and not e.args:
            return _storage_copy(f, fn.value, me, depth - 1)
        if len(e.args) == 1 and ((isinstance(fn, ast.Name) and fn.id == "dict") or (dotted(fn) or "") in ("copy.copy", "copy.deepcopy", "copy", "deepcopy")):
            return _storage_copy(f, e.args[0], me, depth - 1) or (isinstance(fn, ast.Name) and fn.id == "dict" and items_of(e.args[0]))
    return False


def _normalize_storage_results(ctx):
    """Normal form over *all* results of Hardware._normalize_storage (every return, bare return and fall-through,
    enumerated on the CFG): each result is `_reduce_storages(self.storage.values(), Storage.__add__)` -- the fold is
    what re-keys by mount point and aggregates.  Two shortcuts are interpreted instead of reported: an empty map on
    paths that a non-empty `self.storage` cannot take, and `self.storage` itself / a key-preserving copy on paths
    that are unreachable when `self.is_normalized()` is false (guards folded on the CFG under those witnesses).  Any
    other result -- in particular a fast path guarded by something that does not imply the normal form, such as the
    number of entries -- skips the re-keying and is a violation of the clause, not an uninterpretable shape."""
    p = ctx.prog
    f = p.func(f"{HW}._normalize_storage")
    g = f.cfg
    ctx.require(len(f.params) >= 1, "C14.R3: _normalize_storage lost its receiver parameter")
    me = f.params[0]
    folds, others = _result_returns(ctx, f, RED)
    bad: list[str] = []
    witness: list[str] = []
    node = None
    n_short = 0
    for r, o in others:
        if r is None or o is None:
            bad.append("a path ends with a bare return / falls off the end (result None)")
            node = node or r
            continue
        text = _norm(o)
        ids = set(g.ids_of(r))
        if _is_zero(o, "storage") and not isinstance(o, ast.Constant):
            atom, why = _nonempty_atom(f, me), f"although `{me}.storage` may hold entries: they are dropped from the normal form"
        elif _storage_copy(f, o, me):
            atom, why = _not_normal_atom(f, me), (f"although `{me}.is_normalized()` may be false on that path: the entries keep their keys instead of being "
                                                   f"re-keyed by mount point and aggregated")
        else:
            bad.append(f"a path returns `{text}`, which is not a _reduce_storages fold of {me}.storage.values()")
            node = node or r
            continue
        # the value flows from where it is computed (the return itself, or the assignment of a temporary) to the
        # return: it is a possible result only if both are reachable under the witness
        live = guarded_reach(g, atom)
        site = set(g.node_containing(o) or ()) or ids
        if live & ids and live & site and _may_select(r.value, o, atom):
            bad.append(f"the path returning `{text}` is taken {why}")
            node = node or r
            pth = g.path(g.entry, ids)
            witness.extend(g.describe(pth) if pth else [])
        else:
            n_short += 1
    ctx.ob("R3", f"_normalize_storage: every result is a _reduce_storages fold keyed by mount point ({len(folds)} fold(s), {n_short} accepted shortcut(s))",
           not bad, func=f, node=node if node is not None else f.node, instance="normalize:reduce",
           message="_normalize_storage: " + "; ".join(bad), witness=witness)
    for r, rc in folds:
        ra = bind_args(rc, p.func(RED).node)
        ops = _operands(f, ra["storages"]) if "storages" in ra else []
        ctx.ob("R3", "_normalize_storage folds every storage of self", ops == [(me, False)], func=f, node=rc, instance="normalize:source",
               message=f"_normalize_storage folds {ops} instead of self.storage.values()")
        kind, text = _op_kind(p, f, ra["operator"]) if "operator" in ra else (None, "<missing>")
        ctx.ob("R3", "_normalize_storage sums storages of one mount point", kind == "add", func=f, node=rc, instance="normalize:op",
               message=f"_normalize_storage combines storages with `{text}` instead of Storage.__add__ (per-mount totals are not preserved)")


def r3(ctx):
    p = ctx.prog
    cls = p.cls(HW)
    # _normalize_storage
    _normalize_storage_results(ctx)
    # normalized()
    f = p.func(f"{HW}.normalized")
    me = f.params[0]
    init = p.func(f"{HW}.__init__").node
    ctors, others = _result_returns(ctx, f, HW)
    # `self` (or a copy) is its own normal form exactly when is_normalized() holds: such a shortcut is accepted when
    # the return is unreachable under the witness `self.is_normalized() is false`; any other result is a violation
    live = guarded_reach(f.cfg, _not_normal_atom(f, me))
    others = [(r, o) for r, o in others
              if not (r is not None and o is not None and _unchanged_operand(o, (me,)) == me and not isinstance(r.value, ast.IfExp) and not (set(f.cfg.ids_of(r)) & live))]
    _report_other_results(ctx, "R3", f, others, "normalized()", "Hardware(self.cores, self.memory, self._normalize_storage())")
    for r, call in ctors:
        args = bind_args(call, init, skip_self=True)
        st = args.get("storage")
        ctx.ob("R3", "normalized() goes through _normalize_storage", st is not None and _operand(f, st) == (me, True), func=f, node=call, instance="normalized:storage",
               message=f"normalized() builds its storage from `{_norm(st)}` instead of self._normalize_storage()")
        for field in ("cores", "memory"):
            a = args.get(field)
            got = {dotted(o) for o in origins(f, a)} if a is not None else set()
            ctx.ob("R3", f"normalized() keeps {field}", got == {f"{me}.{field}"}, func=f, node=call, instance=f"normalized:{field}",
                   message=f"normalized() sets {field}={_norm(a)} instead of self.{field}")
    # is_normalized
    f = p.func(f"{HW}.is_normalized")
    me = f.params[0]
    ok = False
    agg = None
    for r in [n for n in f.body_nodes() if isinstance(n, ast.Return) and n.value is not None]:
        for o in origins(f, r.value):
            if isinstance(o, ast.Call) and builtin(p, f, o) in ("all", "any") and len(o.args) == 1 and isinstance(o.args[0], (ast.GeneratorExp, ast.ListComp)):
                agg = builtin(p, f, o)
                comp = o.args[0]
                gen = comp.generators[0]
                it = gen.iter
                if (len(comp.generators) == 1 and isinstance(it, ast.Call) and isinstance(it.func, ast.Attribute) and it.func.attr == "items"
                        and _operand(f, it) == (me, False) and isinstance(gen.target, ast.Tuple) and len(gen.target.elts) == 2
                        and all(isinstance(x, ast.Name) for x in gen.target.elts)):
                    k, d = (x.id for x in gen.target.elts)
                    cp = compare_pair(comp.elt)
                    ok = (agg == "all" and not gen.ifs and cp is not None and isinstance(cp[1], ast.Eq)
                          and {dotted(cp[0]), dotted(cp[2])} == {k, f"{d}.mount_point"})
    ctx.require(agg is not None, "C14.R3: is_normalized is not an all(...) over self.storage.items() (shape not interpretable)")
    ctx.ob("R3", "is_normalized <=> every key equals its disk's mount point", ok, func=f, node=f.node, instance="is_normalized",
           message="is_normalized no longer tests `key == disk.mount_point` for every entry of self.storage")
    # keys of _reduce_storages
    rf = p.func(RED)
    facts = _reduce_facts(ctx, rf)
    acc, key = facts
    subs = [n for n in rf.body_nodes() if isinstance(n, ast.Subscript) and isinstance(n.value, ast.Name) and n.value.id == acc]
    ctx.require(bool(subs), "C14.R3: _reduce_storages never indexes its accumulator")
    bad = [s for s in subs if dotted(s.slice) != key]
    ctx.ob("R3", "_reduce_storages keys every entry by disk.mount_point", not bad, func=rf, node=bad[0] if bad else subs[0], instance="reduce:keys",
           message=f"_reduce_storages indexes its result with `{_norm(bad[0].slice) if bad else ''}` instead of `{key}`: the result is not in normal form")
    # no operator bypasses normalisation
    for name, m in sorted(cls.methods.items()):
        if name in RAW_OK:
            continue
        owners = set(m.params)
        raw = [n for n in m.body_nodes() if isinstance(n, ast.Attribute) and n.attr == "storage" and isinstance(n.value, ast.Name) and n.value.id in owners
               and not isinstance(n.ctx, ast.Store)]  # binding the attribute (a constructor helper) is not a read
        ctx.ob("R3", f"Hardware.{name} reads storages only in normal form", not raw, func=m, node=raw[0] if raw else m.node, instance=f"{name}:normalised-only",
               message=f"Hardware.{name} reads `{_norm(raw[0]) if raw else ''}` without normalising it: aliasing keys / split mount points give wrong totals",
               trivial=not any(isinstance(n, ast.Attribute) and n.attr in ("_normalize_storage", "normalized") for n in m.body_nodes()))


# =========================================================================== R4

_MEMO = {"cache", "lru_cache", "cached_property", "cached", "memoize", "memoized"}
_IMMUTABLE_CTORS = {"frozenset", "tuple", "str", "int", "float", "bool", "bytes", "MappingProxyType", "TypeVar", "namedtuple", "getLogger"}
_SHALLOW = {"dict", "list", "tuple", "set", "frozenset", "iter", "sorted", "reversed", "OrderedDict", "copy"}


def _mutable_value(e) -> bool:
    """Is the module-/class-level or default value `e` an object that a later in-place update can change (a container
    display, a comprehension, or the result of a call that is not a known immutable constructor)?"""
    e = strip_await(e)
    if isinstance(e, (ast.Dict, ast.List, ast.Set, ast.DictComp, ast.ListComp, ast.SetComp)):
        return True
    if isinstance(e, ast.IfExp):
        return _mutable_value(e.body) or _mutable_value(e.orelse)
    if isinstance(e, ast.BoolOp):
        return any(_mutable_value(v) for v in e.values)
    if isinstance(e, ast.NamedExpr):
        return _mutable_value(e.value)
    if isinstance(e, ast.Call):
        return (dotted(e.func) or "?").rsplit(".", 1)[-1] not in _IMMUTABLE_CTORS
    return False


def _empty_display(e) -> bool:
    e = strip_await(e)
    if isinstance(e, ast.Dict):
        return not e.keys
    if isinstance(e, (ast.List, ast.Set)):
        return not e.elts
    return isinstance(e, ast.Call) and isinstance(e.func, ast.Name) and e.func.id in ("dict", "list", "set") and not e.args and not e.keywords


def _toplevel_values(tree, name: str) -> list:
    """Values assigned to `name` by the statements of a module / class body (not inside nested defs)."""
    out = []
    stack = list(tree.body)
    while stack:
        n = stack.pop()
        if isinstance(n, (ast.FunctionDef, ast.AsyncFunctionDef, ast.ClassDef)):
            continue
        if isinstance(n, ast.Assign) and any(isinstance(t, ast.Name) and t.id == name for t in n.targets):
            out.append(n.value)
        elif isinstance(n, ast.AnnAssign) and n.value is not None and isinstance(n.target, ast.Name) and n.target.id == name:
            out.append(n.value)
        for fld in ("body", "orelse", "finalbody", "handlers"):
            stack.extend(x for x in getattr(n, fld, []) or [] if isinstance(x, ast.AST))
    return out


def _bound_inside(e: ast.Name):
    """The comprehension generator (inside the enclosing function) or lambda that binds name `e`, else None."""
    from ..model import ancestors
    for a in ancestors(e):
        if isinstance(a, (ast.FunctionDef, ast.AsyncFunctionDef)):
            return None
        if isinstance(a, ast.Lambda) and any(x.arg == e.id for x in a.args.posonlyargs + a.args.args + a.args.kwonlyargs):
            return a
        if isinstance(a, (ast.ListComp, ast.SetComp, ast.DictComp, ast.GeneratorExp)):
            for gen in a.generators:
                if any(isinstance(x, ast.Name) and x.id == e.id for x in ast.walk(gen.target)):
                    return gen
    return None


def _param_default(f, name: str):
    a = f.node.args
    pos = [x.arg for x in a.posonlyargs + a.args]
    defaults = dict(zip(reversed(pos), reversed(a.defaults)))
    for k, dv in zip(a.kwonlyargs, a.kw_defaults):
        if dv is not None:
            defaults[k.arg] = dv
    return defaults.get(name)


def _shared_objects(ctx, f, e, env=None, depth: int = 3, truthy_only: bool = False, seen: frozenset = frozenset(), budget: int = 12) -> list[str]:
    """Descriptions of the objects not created by this evaluation that the value of `e` (frame `f`, helper
    environment `env` as in `_root_name`) may be, or may hold as an element: module-level / class-level mutable
    objects, mutable default arguments, results of memoised helpers.  The caller's argument, fresh displays and
    constructor results, `copy.deepcopy(...)` and everything unknown yield nothing (only positively identified
    sharing is reported)."""
    from ..dataflow import _param_args
    p = ctx.prog
    if e is None or budget <= 0:
        return []

    def rec(x, *, f_=f, env_=env, depth_=depth, truthy=False, seen_=seen):
        return _shared_objects(ctx, f_, x, env_, depth_, truthy, seen_, budget - 1)

    e = strip_await(e)
    if isinstance(e, (ast.NamedExpr, ast.Starred)):
        return rec(e.value, truthy=truthy_only)
    if isinstance(e, ast.IfExp):
        return rec(e.body, truthy=truthy_only) + rec(e.orelse, truthy=truthy_only)
    if isinstance(e, ast.BoolOp):
        last = len(e.values) - 1
        out = []
        for i, v in enumerate(e.values):
            out.extend(rec(v, truthy=(isinstance(e.op, ast.Or) and i < last) or (i == last and truthy_only)))
        return out
    if isinstance(e, ast.Dict):
        out = []
        for v in e.values:
            out.extend(rec(v))
        return out
    if isinstance(e, (ast.List, ast.Set, ast.Tuple)):
        return [x for v in e.elts for x in rec(v)]
    if isinstance(e, ast.DictComp):
        return rec(e.value)
    if isinstance(e, (ast.ListComp, ast.SetComp, ast.GeneratorExp)):
        return rec(e.elt)
    if isinstance(e, ast.BinOp) and isinstance(e.op, (ast.BitOr, ast.Add)):
        return rec(e.left) + rec(e.right)
    if isinstance(e, ast.Subscript):
        return rec(e.value)
    if isinstance(e, ast.Name):
        binder = _bound_inside(e)
        if isinstance(binder, ast.Lambda):
            return []
        if binder is not None:
            return rec(binder.iter)
        key = (f.qualname, e.id)
        if key in seen:
            return []
        seen2 = seen | {key}
        ds = defs_of(f, e.id)
        if ds:
            out = []
            for d in ds:
                if d.kind == "param":
                    if env is not None:
                        caller, bind, up = env
                        if e.id in bind:
                            out.extend(_shared_objects(ctx, caller, bind[e.id], up, depth, truthy_only, seen2, budget - 1))
                            continue
                        dv = _param_default(f, e.id)
                    else:
                        sites = _param_args(p, f, e.id) if depth > 0 else None
                        if sites is not None:
                            for g, x in sites:
                                if g is f:
                                    if _mutable_value(x) and not (truthy_only and _empty_display(x)):
                                        out.append(f"the mutable default `{_norm(x)}` of parameter `{e.id}` of {f.qualname.rsplit('.', 2)[-2] if f.cls else ''}.{f.name} (one object for every call)")
                                else:
                                    out.extend(_shared_objects(ctx, g, x, None, depth - 1, truthy_only, seen2, budget - 1))
                            continue
                        dv = _param_default(f, e.id)
                    if dv is not None:
                        if _mutable_value(dv) and not (truthy_only and _empty_display(dv)):
                            out.append(f"the mutable default `{_norm(dv)}` of parameter `{e.id}` of {f.cls.name + '.' if f.cls else ''}{f.name} (one object for every call)")
                        elif isinstance(dv, (ast.Name, ast.Attribute)):
                            out.extend(_shared_objects(ctx, f, dv, None, 0, truthy_only, seen2, budget - 1) if not p._is_local(f, (dotted(dv) or "?").split(".")[0]) else [])
                elif d.kind in ("assign", "walrus", "aug", "for", "comp"):
                    v = d.value
                    if d.kind == "assign" and d.index is not None:
                        v = v.elts[d.index] if isinstance(v, (ast.Tuple, ast.List)) and d.index < len(v.elts) and not any(isinstance(x, ast.Starred) for x in v.elts) else None
                    out.extend(_shared_objects(ctx, f, v, env, depth, truthy_only and d.kind in ("assign", "walrus"), seen2, budget - 1))
            return out
        if p._is_local(f, e.id):
            return []
        return _global_object(p, f, e)
    if isinstance(e, ast.Attribute):
        v = e.value
        # attribute of the instance / the class: stores in this frame first, class-level assignment otherwise
        owner_cls = None
        me = f.params[0] if f.cls is not None and f.params else None
        if isinstance(v, ast.Name) and v.id == me and not any(d in ("staticmethod",) for d in map(_deco_name, f.node.decorator_list)):
            key = (f.qualname, f"{me}.{e.attr}")
            if key in seen:
                return []
            stores = [val for _n, val, kind in _attr_stores(f, me, e.attr) if kind == "whole"]
            if stores:
                return [x for val in stores for x in _shared_objects(ctx, f, val, env, depth, truthy_only, seen | {key}, budget - 1)]
            owner_cls = f.cls.qualname
        elif isinstance(v, ast.Attribute) and v.attr == "__class__" and isinstance(v.value, ast.Name) and v.value.id == me:
            owner_cls = f.cls.qualname
        elif isinstance(v, ast.Call) and isinstance(v.func, ast.Name) and v.func.id == "type" and len(v.args) == 1 and isinstance(v.args[0], ast.Name) and v.args[0].id == me:
            owner_cls = f.cls.qualname
        elif dotted(v) is not None and not p._is_local(f, dotted(v).split(".")[0]):
            q = p.resolve_dotted(f.module, dotted(v))
            if q in p.classes:
                owner_cls = q
        if owner_cls is not None:
            for cq in p.mro(owner_cls):
                c = p.classes.get(cq)
                vals = _toplevel_values(c.node, e.attr) if c is not None else []
                if vals:
                    return [f"the class-level object `{cq.rsplit('.', 1)[-1]}.{e.attr} = {_norm(x)}` (one object for every instance)" for x in vals if _mutable_value(x)]
            return []
        d = dotted(e)
        if d is not None and not p._is_local(f, d.split(".")[0]):
            return _global_object(p, f, e)
        return []
    if isinstance(e, ast.Call):
        fn = e.func
        d = dotted(fn) or ""
        if d in ("copy.deepcopy", "deepcopy"):
            return []
        if isinstance(fn, ast.Attribute) and fn.attr in ("values", "keys", "items", "copy", "get", "setdefault", "pop", "union", "__or__") and not e.keywords:
            return rec(fn.value) + ([x for a in e.args[1:] for x in rec(a)] if fn.attr in ("get", "setdefault", "pop") else [x for a in e.args for x in rec(a)] if fn.attr in ("union", "__or__") else [])
        if d in ("copy.copy",) or (isinstance(fn, ast.Name) and fn.id in _SHALLOW and builtin(p, f, e) is not None) or d in ("collections.OrderedDict", "itertools.chain", "chain"):
            return [x for a in e.args for x in rec(a)] + [x for k in e.keywords if k.arg is None for x in rec(k.value)]
        targets = resolved(p, f, e)
        if any(q in p.classes for q in targets):
            return []  # a constructor: the object is created by this evaluation
        out = []
        for q in targets:
            h = p.functions.get(q)
            if h is not None and not isinstance(h.node, ast.Lambda) and {_deco_name(x) for x in h.node.decorator_list} & _MEMO:
                out.append(f"the result of the memoised helper `{h.qualname.rsplit('.', 1)[-1]}` (@{sorted({_deco_name(x) for x in h.node.decorator_list} & _MEMO)[0]}: the same object on every call)")
        if out or depth <= 0:
            return out
        frames = _helper_frames(p, f, e, env)
        for h, henv in frames or []:
            key = (h.qualname, "<call>")
            if key in seen:
                continue
            for r in [n for n in h.body_nodes() if isinstance(n, ast.Return) and n.value is not None]:
                out.extend(_shared_objects(ctx, h, r.value, henv, depth - 1, truthy_only, seen | {key}, budget - 1))
        return out
    return []


def _global_object(p, f, e) -> list[str]:
    """`e` (a bare or dotted name that is not local to `f`) denotes a module-level mutable object of the program."""
    d = dotted(e)
    if d is None:
        return []
    q = p.resolve_dotted(f.module, d)
    if q is None or q in p.functions or q in p.classes or q in p.modules:
        return []
    modname, _, attr = q.rpartition(".")
    m = p.modules.get(modname)
    if m is None:
        return []
    vals = _toplevel_values(m.tree, attr)
    return [f"the module-level object `{attr} = {_norm(x)}` of {m.relpath} (one object for the whole process)" for x in vals if _mutable_value(x)][:1]


def _attr_stores(m, me: str, attr: str):
    """Stores into `<me>.<attr>` in method `m`: (statement, stored value, kind) with kind `whole` (the attribute is
    bound), `item` (`<me>.<attr>[k] = v`, `.setdefault(k, v)`: v becomes an element) or `merge` (`.update(x)`,
    `|= x`: the elements of x become elements)."""
    def is_attr(x) -> bool:
        return isinstance(x, ast.Attribute) and x.attr == attr and isinstance(x.value, ast.Name) and x.value.id == me

    out = []
    for n in m.body_nodes():
        if isinstance(n, (ast.Assign, ast.AnnAssign)) and n.value is not None:
            for t in (n.targets if isinstance(n, ast.Assign) else [n.target]):
                if is_attr(t):
                    out.append((n, n.value, "whole"))
                elif isinstance(t, ast.Subscript) and is_attr(t.value):
                    out.append((n, n.value, "item"))
                elif isinstance(t, (ast.Tuple, ast.List)):
                    for i, x in enumerate(t.elts):
                        if is_attr(x) or (isinstance(x, ast.Subscript) and is_attr(x.value)):
                            v = n.value
                            ok = isinstance(v, (ast.Tuple, ast.List)) and len(v.elts) == len(t.elts) and not any(isinstance(y, ast.Starred) for y in list(v.elts) + list(t.elts))
                            out.append((n, v.elts[i] if ok else v, "whole" if is_attr(x) else "item"))
        elif isinstance(n, ast.AugAssign) and is_attr(n.target) and isinstance(n.op, ast.BitOr):
            out.append((n, n.value, "merge"))
        elif isinstance(n, ast.Call) and isinstance(n.func, ast.Attribute) and is_attr(n.func.value):
            if n.func.attr == "update":
                for a in n.args:
                    out.append((n, a, "merge"))
            elif n.func.attr == "setdefault" and len(n.args) == 2:
                out.append((n, n.args[1], "item"))
    return out


def r4(ctx):
    p = ctx.prog
    cls = p.cls(HW)
    init = p.func(f"{HW}.__init__")
    n_init = 0
    for name, m in sorted(cls.methods.items()):
        if not m.params or any(d in ("staticmethod", "classmethod") for d in map(_deco_name, m.node.decorator_list)):
            continue
        me = m.params[0]
        for i, (stmt, val, kind) in enumerate(_attr_stores(m, me, "storage")):
            shared = list(dict.fromkeys(_shared_objects(ctx, m, val)))
            if m is init and kind == "whole":
                n_init += 1
            what = {"whole": f"`{me}.storage` is bound to", "item": f"an entry of `{me}.storage` is bound to", "merge": f"`{me}.storage` is filled with the entries of"}[kind]
            ctx.ob("R4", f"Hardware.{name}: {what} the caller's argument or an object created by this call (never a module-level / class-level object or a mutable default)",
                   not shared, func=m, node=stmt, instance=f"Hardware.{name}:owns-storage:{kind}:{i}",
                   message=f"Hardware.{name}: `{_norm(stmt)}` -- {what} " + "; ".join(shared) + ": instances share it, and the in-place operators (Hardware.__ior__, "
                           "Storage.__ior__) and the connectors that fill `.storage[...]` of one instance change every other one (Hardware() is no longer the neutral element)")
    if n_init == 0:
        # the constructor may delegate to a method of the class that binds the attribute (extract-method)
        helpers = [q for c in init.calls() for q in resolved(p, init, c) if q in p.functions and p.functions[q].cls is not None and p.functions[q].cls.qualname in p.mro(HW)
                   and any(k == "whole" for _n, _v, k in _attr_stores(p.functions[q], p.functions[q].params[0] if p.functions[q].params else "", "storage"))]
        ctx.require(bool(helpers), "C14.R4: Hardware.__init__ does not bind `self.storage` (directly or through a method of the class): shape not interpretable")
    vals = [x for cq in p.mro(HW) if cq in p.classes for x in _toplevel_values(p.classes[cq].node, "storage")]
    bad = [x for x in vals if _mutable_value(x)]
    ctx.ob("R4", "Hardware has no mutable class-level `storage` (a fallback every instance would share)", not bad, func=init, node=bad[0] if bad else cls.node, instance="Hardware:class-level-storage",
           message=f"Hardware defines the class-level attribute `storage = {_norm(bad[0]) if bad else ''}`: every instance whose constructor does not bind its own map shares this one")


def _reduce_facts(ctx, f):
    seq = f.params[0]
    loops = [n for n in f.body_nodes() if isinstance(n, ast.For) and any(isinstance(o, ast.Name) and o.id == seq for o in origins(f, n.iter) + [n.iter])]
    ctx.require(len(loops) == 1 and isinstance(loops[0].target, ast.Name), "C14: loop over the storages parameter not found in _reduce_storages")
    rets = [n for n in f.body_nodes() if isinstance(n, ast.Return) and isinstance(n.value, ast.Name)]
    ctx.require(len(rets) >= 1, "C14: _reduce_storages does not return its accumulator by name")
    return rets[0].value.id, f"{loops[0].target.id}.mount_point"


RULES = [("R1", r1), ("R2", r2), ("R3", r3), ("R4", r4)]
FLOORS = {"R1": 23, "R2": 9, "R3": 12, "R4": 2}

HADD, HSUB, SAT = f"{HW}.__add__", f"{HW}.__sub__", f"{HW}.satisfies"
SADD, SSUB = f"{ST}.__add__", f"{ST}.__sub__"
NORM = f"{HW}._normalize_storage"

# extract-method shape of the storage fold (class text): the operator hands its operands to a shared private helper
_SUB_INLINE = ("_reduce_storages((*self._normalize_storage().values(), *other._normalize_storage().values()), Storage.__sub__.__call__))\n\n"
               "    def _normalize_storage(self)")
_SUB_HELPER = ("self._combine_storage(other, Storage.__sub__.__call__))\n\n"
               "    def _combine_storage(self, other: Hardware, operator):\n"
               "        return _reduce_storages(itertools.chain(self._normalize_storage().values(), other._normalize_storage().values()), operator)\n\n"
               "    def _normalize_storage(self)")
# guard-clause / explicit-loop shape of satisfies
_SAT_NESTED = ("    if self.cores >= other.cores and self.memory >= other.memory:\n"
               "        if set((other_norm := other._normalize_storage()).keys()) - set((self_norm := self._normalize_storage()).keys()):\n"
               "            raise WorkflowExecutionException(f'Invalid `Hardware` comparison: {self} should contain all the storage included in {other}.')\n"
               "        return all((self_norm[other_disk.mount_point].size >= other_disk.size for other_disk in other_norm.values()))\n"
               "    else:\n"
               "        return False")
_SAT_LOOP = ("    if not (self.cores >= other.cores and self.memory >= other.memory):\n"
             "        return False\n"
             "    other_norm = other._normalize_storage()\n"
             "    self_norm = self._normalize_storage()\n"
             "    if not other_norm.keys() <= self_norm.keys():\n"
             "        raise WorkflowExecutionException('missing storage')\n"
             "    for other_disk in other_norm.values():\n"
             "        if not self_norm[other_disk.mount_point].size >= other_disk.size:\n"
             "            return False\n"
             "    return True")

HINIT = f"{HW}.__init__"
_OWN = "self.storage: MutableMapping[str, Storage] = storage or {os.sep: Storage(os.sep, 0.0)}"
_OWN_DEFAULT = "storage or {os.sep: Storage(os.sep, 0.0)}"
_ROOT_MAP = "\n_ROOT_STORAGE: MutableMapping[str, Storage] = {os.sep: Storage(os.sep, 0.0)}\n"
_SIG = "storage: MutableMapping[str, Storage] | None=None):"

VARIANTS = [
    # ---- R1
    V("__sub__ adds memory", FILE, HSUB, "self.memory - other.memory", "self.memory + other.memory", "R1", control=True),
    V("__sub__ subtracts the wrong way round", FILE, HSUB, "self.cores - other.cores", "other.cores - self.cores", "R1"),
    V("__add__ mixes fields", FILE, HADD, "self.memory + other.memory", "self.memory + other.cores", "R1"),
    V("__sub__ reduces with Storage.__add__", FILE, HSUB, "Storage.__sub__.__call__", "Storage.__add__.__call__", "R1"),
    V("__sub__ operands swapped", FILE, HSUB, "(*self._normalize_storage().values(), *other._normalize_storage().values())",
      "(*other._normalize_storage().values(), *self._normalize_storage().values())", "R1"),
    V("__add__ skips normalisation of other", FILE, HADD, "*other._normalize_storage().values()", "*other.storage.values()", "R1"),
    V("Storage.__sub__ adds sizes", FILE, SSUB, "size=self.size - other.size", "size=self.size + other.size", "R1", control=True),
    V("Storage.__add__ drops other's paths", FILE, SADD, "paths=self.paths | other.paths", "paths=self.paths", "R1"),
    V("Storage.__add__ accepts different mount points", FILE, SADD, "if self.mount_point != other.mount_point:", "if False:", "R1"),
    V("Storage.__sub__ guard inverted", FILE, SSUB, "if self.mount_point != other.mount_point:", "if self.mount_point == other.mount_point:", "R1"),
    V("_reduce_storages operator arguments swapped", FILE, RED, "operator(storage[disk.mount_point], disk)", "operator(disk, storage[disk.mount_point])", "R1"),
    V("_reduce_storages membership test inverted", FILE, RED, "if disk.mount_point in storage.keys():", "if disk.mount_point not in storage.keys():", "R1"),
    V("_reduce_storages first-seen size zero", FILE, RED, "size=disk.size", "size=0.0", "R1"),
    V("__sub__ fast path forgets the storage (seeded C14/3)", FILE, HSUB, "return Hardware(self.cores - other.cores,",
      "if not (other.cores or other.memory):\n        return self.normalized()\n    return Hardware(self.cores - other.cores,", "R1"),
    V("__sub__ fast path on zero cores and memory (comparisons, temporary)", FILE, HSUB, "return Hardware(self.cores - other.cores,",
      "idle = other.cores == 0 and other.memory == 0\n    if idle:\n        return self\n    return Hardware(self.cores - other.cores,", "R1"),
    V("__add__ fast path forgets the memory", FILE, HADD, "return Hardware(self.cores + other.cores,",
      "if not other.cores and (not other._normalize_storage()):\n        return self.normalized()\n    return Hardware(self.cores + other.cores,", "R1"),
    V("__sub__ returns the subtrahend when self is empty", FILE, HSUB, "return Hardware(self.cores - other.cores,",
      "if not (self.cores or self.memory or self._normalize_storage()):\n        return other.normalized()\n    return Hardware(self.cores - other.cores,", "R1"),
    V("__sub__ fast path assigned to a temporary forgets the storage", FILE, HSUB, "return Hardware(self.cores - other.cores, self.memory - other.memory, _reduce_storages((*self._normalize_storage().values(), *other._normalize_storage().values()), Storage.__sub__.__call__))",
      "if other.cores or other.memory:\n        res = Hardware(self.cores - other.cores, self.memory - other.memory, _reduce_storages((*self._normalize_storage().values(), *other._normalize_storage().values()), Storage.__sub__.__call__))\n    else:\n        res = self.normalized()\n    return res", "R1"),
    V("__sub__ conditional expression forgets the storage", FILE, HSUB, "return Hardware(self.cores - other.cores,",
      "return self.normalized() if not (other.cores or other.memory) else Hardware(self.cores - other.cores,", "R1"),
    V("__sub__ delegates to an uninterpreted helper on one path", FILE, HSUB, "return Hardware(self.cores - other.cores,",
      "if other.is_normalized():\n        return self.__add__(other)\n    return Hardware(self.cores - other.cores,", "R1"),
    V("__sub__ falls off the end", FILE, HSUB, "return Hardware(self.cores - other.cores,",
      "if self.cores >= other.cores:\n        return Hardware(self.cores - other.cores,", "R1"),
    V("Storage.__sub__ fast path drops other's paths", FILE, SSUB, "return Storage(mount_point=self.mount_point,",
      "if other.size == 0:\n        return self\n    return Storage(mount_point=self.mount_point,", "R1"),
    V("__sub__ through an extracted helper that chains the operands the wrong way round", FILE, HW, _SUB_INLINE,
      _SUB_HELPER.replace("chain(self._normalize_storage().values(), other._normalize_storage().values())", "chain(other._normalize_storage().values(), self._normalize_storage().values())"), "R1"),
    V("__sub__ hands Storage.__add__ to the extracted helper", FILE, HW, _SUB_INLINE, _SUB_HELPER.replace("other, Storage.__sub__.__call__", "other, Storage.__add__.__call__"), "R1"),
    V("__sub__ calls the extracted helper on the subtrahend", FILE, HW, _SUB_INLINE, _SUB_HELPER.replace("self._combine_storage(other, ", "other._combine_storage(self, "), "R1"),
    V("extracted helper ignores the operator it is given", FILE, HW, _SUB_INLINE, _SUB_HELPER.replace("other._normalize_storage().values()), operator)", "other._normalize_storage().values()), Storage.__add__.__call__)"), "R1"),
    V("extracted helper has a path that is not a fold", FILE, HW, _SUB_INLINE,
      _SUB_HELPER.replace("        return _reduce_storages(itertools", "        if not other.cores:\n            return self._normalize_storage()\n        return _reduce_storages(itertools"), "R1"),
    # ---- R2
    V("satisfies uses > for cores", FILE, SAT, "self.cores >= other.cores", "self.cores > other.cores", "R2", control=True),
    V("satisfies compares memory the wrong way", FILE, SAT, "self.memory >= other.memory", "self.memory <= other.memory", "R2"),
    V("satisfies: or instead of and", FILE, SAT, "self.cores >= other.cores and self.memory >= other.memory", "self.cores >= other.cores or self.memory >= other.memory", "R2"),
    V("satisfies compares the wrong mount point", FILE, SAT, "self_norm[other_disk.mount_point].size", "self_norm[os.sep].size", "R2"),
    V("satisfies iterates self_norm", FILE, SAT, "for other_disk in other_norm.values()", "for other_disk in self_norm.values()", "R2"),
    V("satisfies: any instead of all", FILE, SAT, "return all((", "return any((", "R2"),
    V("satisfies disk sizes with >", FILE, SAT, ".size >= other_disk.size", ".size > other_disk.size", "R2"),
    V("satisfies key test the wrong way round", FILE, SAT, "if set((other_norm := other._normalize_storage()).keys()) - set((self_norm := self._normalize_storage()).keys()):",
      "if set((self_norm := self._normalize_storage()).keys()) - set((other_norm := other._normalize_storage()).keys()):", "R2"),
    V("satisfies uses raw storage of other", FILE, SAT, "(other_norm := other._normalize_storage())", "(other_norm := other.storage)", "R2"),
    V("satisfies as a loop: disk sizes with >", FILE, SAT, _SAT_NESTED, _SAT_LOOP.replace(".size >= other_disk.size", ".size > other_disk.size"), "R2"),
    V("satisfies as a loop: negation of the size test dropped", FILE, SAT, _SAT_NESTED, _SAT_LOOP.replace("if not self_norm[", "if self_norm["), "R2"),
    V("satisfies as a loop: any() spelled out", FILE, SAT, _SAT_NESTED,
      _SAT_LOOP.replace("if not self_norm[other_disk.mount_point].size >= other_disk.size:\n            return False\n    return True",
                        "if self_norm[other_disk.mount_point].size >= other_disk.size:\n            return True\n    return False"), "R2"),
    V("satisfies as a loop: a small disk is skipped", FILE, SAT, _SAT_NESTED, _SAT_LOOP.replace("            return False\n    return True", "            continue\n    return True"), "R2"),
    V("satisfies as a loop over self's disks", FILE, SAT, _SAT_NESTED, _SAT_LOOP.replace("in other_norm.values()", "in self_norm.values()"), "R2"),
    V("satisfies as a loop: wrong mount point", FILE, SAT, _SAT_NESTED, _SAT_LOOP.replace("self_norm[other_disk.mount_point]", "self_norm[os.sep]"), "R2"),
    V("satisfies: subset key test the wrong way round", FILE, SAT, _SAT_NESTED, _SAT_LOOP.replace("other_norm.keys() <= self_norm.keys()", "self_norm.keys() <= other_norm.keys()"), "R2"),
    V("satisfies: subset key test raises when nothing is missing", FILE, SAT, _SAT_NESTED, _SAT_LOOP.replace("if not other_norm.keys() <=", "if other_norm.keys() <="), "R2"),
    V("satisfies as a loop: raw storage of other", FILE, SAT, _SAT_NESTED, _SAT_LOOP.replace("other_norm = other._normalize_storage()", "other_norm = other.storage"), "R2"),
    # ---- R3
    V("normalized bypasses _normalize_storage", FILE, f"{HW}.normalized", "storage=self._normalize_storage()", "storage=self.storage", "R3", control=True),
    V("_normalize_storage keeps the max", FILE, f"{HW}._normalize_storage", "Storage.__add__.__call__", "Storage.__or__.__call__", "R3"),
    V("_reduce_storages keyed by bind", FILE, RED, "storage[disk.mount_point] = Storage(", "storage[disk.bind] = Storage(", "R3"),
    V("is_normalized any", FILE, f"{HW}.is_normalized", "return all((", "return any((", "R3"),
    V("new comparison operator on raw storage", FILE, HW, "def is_normalized(self)", "def __ge__(self, other):\n        return all((self.storage[k].size >= d.size for k, d in other.storage.items()))\n\n    def is_normalized(self)", "R3"),
    V("normalized returns self unconditionally", FILE, f"{HW}.normalized", "return Hardware(cores=self.cores,",
      "if self.cores:\n        return self\n    return Hardware(cores=self.cores,", "R3"),
    V("_normalize_storage fast path on a single entry skips the re-keying (seeded C14/2)", FILE, NORM, "return _reduce_storages(",
      "if len(self.storage) == 1:\n        return dict(self.storage)\n    return _reduce_storages(", "R3"),
    V("_normalize_storage returns the raw map when it is NOT in normal form", FILE, NORM, "return _reduce_storages(",
      "if not self.is_normalized():\n        return self.storage\n    return _reduce_storages(", "R3"),
    V("_normalize_storage conditional expression keeps a small raw map", FILE, NORM, "return _reduce_storages(",
      "return self.storage.copy() if len(self.storage) < 2 else _reduce_storages(", "R3"),
    V("_normalize_storage falls off the end", FILE, NORM, "return _reduce_storages(", "if self.storage:\n        return _reduce_storages(", "R3"),
    V("_normalize_storage drops disks of size zero", FILE, NORM, "return _reduce_storages(",
      "if not any((d.size for d in self.storage.values())):\n        return {}\n    return _reduce_storages(", "R3"),
    V("_normalize_storage fast path through a temporary keyed by bind", FILE, NORM, "return _reduce_storages(",
      "quick = {d.bind: d for d in self.storage.values()}\n    if self.is_normalized():\n        return quick\n    return _reduce_storages(", "R3"),
    # ---- R4
    V("default storage map hoisted to a module-level constant shared by every instance (seeded C14 round 3)", FILE, HINIT, _OWN_DEFAULT, "storage or _ROOT_STORAGE", "R4", control=True, append=_ROOT_MAP),
    V("default storage map is a shallow copy of a module-level constant (the root Storage stays shared)", FILE, HINIT, _OWN_DEFAULT, "storage or dict(_ROOT_STORAGE)", "R4", append=_ROOT_MAP),
    V("fresh map around a module-level root Storage", FILE, HINIT, _OWN_DEFAULT, "storage or {os.sep: _ROOT_DISK}", "R4", append="\n_ROOT_DISK = Storage(os.sep, 0.0)\n"),
    V("module-level default through a temporary and a guard clause", FILE, HINIT, _OWN,
      "if not storage:\n        storage = _ROOT_STORAGE\n    self.storage: MutableMapping[str, Storage] = storage", "R4", append=_ROOT_MAP),
    V("module-level default selected by a conditional expression", FILE, HINIT, _OWN_DEFAULT, "storage if storage is not None and len(storage) > 0 else _ROOT_STORAGE", "R4", append=_ROOT_MAP),
    V("default storage map as a mutable default argument", FILE, HW, _SIG, "storage: MutableMapping[str, Storage]={os.sep: Storage(os.sep, 0.0)}):", "R4"),
    V("default storage map kept as a class-level constant", FILE, HW, _OWN_DEFAULT + "\n\n    def __repr__", "storage or type(self)._ROOT\n    _ROOT = {os.sep: Storage(os.sep, 0.0)}\n\n    def __repr__", "R4"),
    V("default storage map built by a memoised helper", FILE, HINIT, _OWN_DEFAULT, "storage or _root_storage()", "R4",
      append="\nimport functools\n\n\n@functools.lru_cache(maxsize=None)\ndef _root_storage():\n    return {os.sep: Storage(os.sep, 0.0)}\n"),
    V("default storage map returned by an extracted helper that hands out the module-level constant", FILE, HINIT, _OWN_DEFAULT, "storage or _root_storage()", "R4",
      append=_ROOT_MAP + "\n\ndef _root_storage():\n    return _ROOT_STORAGE\n"),
    V("constructor delegates to a private method that binds the module-level constant", FILE, HW, _OWN + "\n\n    def __repr__",
      "self._bind_storage(storage)\n\n    def _bind_storage(self, disks):\n        self.storage = disks or _ROOT_STORAGE\n\n    def __repr__", "R4", append=_ROOT_MAP),
    V("__ior__ inserts a module-level root Storage", FILE, f"{HW}.__ior__", "self.cores += other.cores", "self.storage.setdefault(os.sep, _ROOT_DISK)\n    self.cores += other.cores", "R4",
      append="\n_ROOT_DISK = Storage(os.sep, 0.0)\n"),
    # ---- benign
    V("default storage map: guard clause and temporary", FILE, HINIT, _OWN,
      "disks = storage\n    if disks is None or len(disks) == 0:\n        disks = {os.sep: Storage(os.sep, 0.0)}\n    self.storage: MutableMapping[str, Storage] = disks", None),
    V("default storage map: conditional expression", FILE, HINIT, _OWN_DEFAULT, "storage if storage else {os.sep: Storage(os.sep, 0.0)}", None),
    V("default storage map built by an extracted module-level helper (a fresh map per call)", FILE, HINIT, _OWN_DEFAULT, "storage or _root_storage()", None,
      append="\n\ndef _root_storage() -> MutableMapping[str, Storage]:\n    root = Storage(os.sep, 0.0)\n    return {root.mount_point: root}\n"),
    V("default storage map: deep copy of a module-level template", FILE, HINIT, _OWN_DEFAULT, "storage or copy.deepcopy(_ROOT_STORAGE)", None, append=_ROOT_MAP),
    V("default storage map keyed by a module-level string constant", FILE, HINIT, _OWN_DEFAULT, "storage or {_ROOT: Storage(_ROOT, _NO_SPACE)}", None, append="\n_ROOT = os.sep\n_NO_SPACE = 0.0\n"),
    V("default storage map: dict() call with a comprehension over a module-level tuple of mount points", FILE, HINIT, _OWN_DEFAULT,
      "storage or dict(((m, Storage(m, 0.0)) for m in _DEFAULT_MOUNTS))", None, append="\n_DEFAULT_MOUNTS = (os.sep,)\n"),
    V("constructor delegates to a private method that binds a fresh map", FILE, HW, _OWN + "\n\n    def __repr__",
      "self._bind_storage(storage)\n\n    def _bind_storage(self, disks):\n        self.storage = disks or {os.sep: Storage(os.sep, 0.0)}\n\n    def __repr__", None),
    V("storage fold extracted into a shared private helper, itertools.chain instead of unpacking (B19-2)", FILE, HW, _SUB_INLINE, _SUB_HELPER, None),
    V("extracted helper: temporaries, keyword call", FILE, HW, _SUB_INLINE,
      _SUB_HELPER.replace("self._combine_storage(other, Storage.__sub__.__call__)", "self._combine_storage(operator=Storage.__sub__.__call__, other=other)")
      .replace("        return _reduce_storages(itertools.chain(self._normalize_storage().values(), other._normalize_storage().values()), operator)",
               "        mine = self._normalize_storage()\n        theirs = other._normalize_storage()\n        disks = list(itertools.chain(mine.values(), theirs.values()))\n        merged = _reduce_storages(disks, operator)\n        return merged"), None),
    V("itertools.chain in __add__", FILE, HADD, "(*self._normalize_storage().values(), *other._normalize_storage().values())",
      "itertools.chain(self._normalize_storage().values(), other._normalize_storage().values())", None),
    V("satisfies: guard clause, loop with early return, subset key test, no walrus (B19-3)", FILE, SAT, _SAT_NESTED, _SAT_LOOP, None),
    V("satisfies as a loop: `<` instead of `not >=`, operands flipped, disk in a temporary, for-else", FILE, SAT, _SAT_NESTED,
      _SAT_LOOP.replace("        if not self_norm[other_disk.mount_point].size >= other_disk.size:\n            return False\n    return True",
                        "        mine = self_norm[other_disk.mount_point]\n        if other_disk.size > mine.size:\n            return False\n    else:\n        return True"), None),
    V("satisfies as a loop over items(), key test with issubset in a temporary", FILE, SAT, _SAT_NESTED,
      _SAT_LOOP.replace("for other_disk in other_norm.values()", "for _mount, other_disk in other_norm.items()")
      .replace("    if not other_norm.keys() <= self_norm.keys():", "    known = set(other_norm).issubset(self_norm.keys())\n    if not known:"), None),
    V("satisfies: subset key test in front of the all()", FILE, SAT, "if set((other_norm := other._normalize_storage()).keys()) - set((self_norm := self._normalize_storage()).keys()):",
      "other_norm = other._normalize_storage()\n        self_norm = self._normalize_storage()\n        if not self_norm.keys() >= other_norm.keys():", None),
    V("_normalize_storage returns a copy when already in normal form", FILE, NORM, "return _reduce_storages(",
      "if self.is_normalized():\n        return dict(self.storage)\n    return _reduce_storages(", None),
    V("_normalize_storage: normal-form shortcut through temporaries, inverted test, single return", FILE, NORM,
      "return _reduce_storages(self.storage.values(), Storage.__add__.__call__)",
      "normal = self.is_normalized()\n    if not normal:\n        res = _reduce_storages(self.storage.values(), Storage.__add__.__call__)\n    else:\n        res = {k: v for k, v in self.storage.items()}\n    return res", None),
    V("_normalize_storage: conditional expression on the normal form", FILE, NORM, "return _reduce_storages(",
      "return self.storage.copy() if self.is_normalized() else _reduce_storages(", None),
    V("_normalize_storage: empty map shortcut", FILE, NORM, "return _reduce_storages(", "if not self.storage:\n        return {}\n    return _reduce_storages(", None),
    V("_normalize_storage: empty map shortcut spelled with len", FILE, NORM, "return _reduce_storages(",
      "if len(self.storage) == 0:\n        return dict()\n    return _reduce_storages(", None),
    V("_normalize_storage: two folds on the branches of an unrelated test", FILE, NORM, "return _reduce_storages(self.storage.values(), Storage.__add__.__call__)",
      "if len(self.storage) > 8:\n        disks = list(self.storage.values())\n        return _reduce_storages(disks, Storage.__add__.__call__)\n    return _reduce_storages(self.storage.values(), lambda a, b: a + b)", None),
    V("__sub__ fast path on a completely empty subtrahend", FILE, HSUB, "return Hardware(self.cores - other.cores,",
      "if not (other.cores or other.memory or other._normalize_storage()):\n        return self.normalized()\n    return Hardware(self.cores - other.cores,", None),
    V("__sub__ fast path, emptiness in a temporary with comparisons", FILE, HSUB, "return Hardware(self.cores - other.cores,",
      "nothing = other.cores == 0 and other.memory == 0 and (len(other._normalize_storage()) == 0)\n    if nothing:\n        return self.normalized()\n    return Hardware(self.cores - other.cores,", None),
    V("__sub__ fast path as nested guards", FILE, HSUB, "return Hardware(self.cores - other.cores,",
      "if not other.cores:\n        if other.memory <= 0 and (not any((d.size > 0 for d in other._normalize_storage().values()))):\n            return self.normalized()\n    return Hardware(self.cores - other.cores,", None),
    V("__add__ returns other when self is completely empty", FILE, HADD, "return Hardware(self.cores + other.cores,",
      "if not (self.cores or self.memory or self._normalize_storage()):\n        return other.normalized()\n    return Hardware(self.cores + other.cores,", None),
    V("__sub__ conditional expression on a completely empty subtrahend", FILE, HSUB, "return Hardware(self.cores - other.cores,",
      "return self.normalized() if not (other.cores or other.memory or other._normalize_storage()) else Hardware(self.cores - other.cores,", None),
    V("__sub__ fast path assigned to a temporary, single return", FILE, HSUB, "return Hardware(self.cores - other.cores, self.memory - other.memory, _reduce_storages((*self._normalize_storage().values(), *other._normalize_storage().values()), Storage.__sub__.__call__))",
      "if other.cores or other.memory or other._normalize_storage():\n        res = Hardware(self.cores - other.cores, self.memory - other.memory, _reduce_storages((*self._normalize_storage().values(), *other._normalize_storage().values()), Storage.__sub__.__call__))\n    else:\n        res = self.normalized()\n    return res", None),
    V("normalized returns a copy when already in normal form", FILE, f"{HW}.normalized", "return Hardware(cores=self.cores,",
      "if self.is_normalized():\n        return copy.deepcopy(self)\n    return Hardware(cores=self.cores,", None),
    V("keyword arguments in __add__", FILE, HADD, "return Hardware(self.cores + other.cores, self.memory + other.memory, _reduce_storages(",
      "return Hardware(memory=self.memory + other.memory, cores=self.cores + other.cores, storage=_reduce_storages(", None),
    V("temporaries in __sub__", FILE, HSUB, "return Hardware(self.cores - other.cores, self.memory - other.memory,",
      "cores = self.cores - other.cores\n    mem = self.memory - other.memory\n    return Hardware(cores, mem,", None),
    V("commuted addition", FILE, HADD, "self.cores + other.cores", "other.cores + self.cores", None),
    V("flipped comparison in satisfies", FILE, SAT, "self.cores >= other.cores", "other.cores <= self.cores", None),
    V("rename comprehension variable", FILE, SAT, "other_disk", "d", None, count=3),
    V("Storage size into a local", FILE, SSUB, "return Storage(mount_point=self.mount_point, size=self.size - other.size,",
      "new_size = self.size - other.size\n    return Storage(mount_point=self.mount_point, size=new_size,", None),
    V("membership test without .keys()", FILE, RED, "if disk.mount_point in storage.keys():", "if disk.mount_point in storage:", None),
    V("lambda operator", FILE, HADD, "Storage.__add__.__call__", "lambda a, b: a + b", None),
]
