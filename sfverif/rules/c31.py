"""C31 Expression dependency analysis covers every input an expression reads.

Clauses decided (each a necessary condition of "the dependency set is a superset of the fields read, and
the analysis never fails on an expression that evaluates"):

R1 accessor safety in `CWLDependencyListener` (and the helper functions of streamflow.cwl.expression):
   a. a method called on a parse-tree context of static type T (parameter annotation, result of a generated
      accessor -- `getTypedRuleContext(s)` in the parser's class table --, loop element, `isinstance` narrowing)
      must be defined on T, on one of T's bases, or be part of antlr4's ParserRuleContext API; a method that
      exists only on some labelled alternatives of T raises AttributeError for the other alternatives; when the
      receiver is a parameter of a *private* helper declared with the generic `antlr4.ParserRuleContext` (a predicate
      extracted from the handlers), the static types are those of the arguments at every resolved call site of the
      helper (`_site_types`, through at most two helpers) and the method must be defined for each of them;
   b. the result of a helper annotated `-> ... | None` is not dereferenced (attribute / subscript) unless a
      truthiness / `is not None` test of that very value guards the dereference.
R2 alias-handler exhaustiveness: for every grammar construct that can bind or forward a tracked name
   (frozen table: assignment expression; variable declaration with initialiser; function declaration
   parameters; parenthesised receiver; member index with a computed key) the listener defines a handler
   (class table of the listener minus the generated no-op base), or -- for computed keys -- the index handler
   has a fall-back effect on the non-literal path.
R3 scope bookkeeping of `NamesStack`:
   a. `enterX` pushes a scope iff `exitX` pops one, and each does so on every path through the handler; the names a
      scope-changing handler registers / removes belong to that construct's own scope: in the pushing handler every
      `self.names.add_*/delete_*` is dominated by the push (a shadowing parameter registered before the push lands in
      the enclosing scope, outlives the function and hides the real `inputs` there), in the popping handler none
      follows the pop;
   b. `delete_name` must not raise for a name that `__contains__` reports (callers guard with `name in self.names`,
      which searches every scope, while the removal touches only the innermost one);
   c. alias registration and parameter shadowing must not go through the same operation while `global_names()`
      subtracts every inner scope (an alias created inside a function body is otherwise read as a shadow);
   d. the *queries* of `NamesStack` (every method that returns a value: `global_names`, `__contains__`) leave the scope
      stack unchanged.  The listener evaluates them inside its tests, once per member access; a query that subtracts the
      inner scopes from the live global scope instead of a copy deletes a shadowed tracked name for the rest of the
      expression.  Decided by a may-alias analysis of the method (`_Alias`): `self.<state attribute>` (attributes bound in
      `__init__`) is the live container, subscripts / loop and comprehension targets / `next(..)` of it are live scopes,
      slices / `list(..)` / `reversed(..)` / `.copy()` of the container are fresh containers of live scopes, `.copy()` /
      `set(..)` / `a - b` / `a.difference(b)` of a scope are fresh; locals are followed through reaching definitions.  A
      violation is an augmented assignment to, a store / `del` through, or a mutating set / list method (bound or unbound)
      on a live value, a call of a sibling method that does so, or a live value passed to a program function that does
      (inlining bound 2).  Returning the live scope itself is not a violation (the listener only tests membership).
R4 results propagate: `DependencyResolver.eval` walks the tree with the listener and merges `listener.deps`;
   `resolve_dependencies` returns the deps of the engine it handed to `interpolate` (directly, through a local temporary
   every reaching definition of which is `engine.deps`, or as a `set(..)` / `.copy()` of it); the member handlers test
   the *receiver* (`singleExpression()`) against the tracked names and add the *member* (`identifierName()` /
   the string literal of `expressionSequence()`); the alias branch of the assignment handler adds the left name
   when the right name is tracked; every parameter of `resolve_dependencies` is read by an argument of the
   `interpolate(.., js_engine=engine)` call or of the `DependencyResolver` constructor (def-use closure), and the
   library list of the `jshead(..)` call that builds the scanned `jslib` is computed from a parameter (the caller's
   expressionLib: inputs read inside library functions are dependencies of the expression that calls them).

Guards (R1a narrowing, R1b None-tests, R3b caller tests, R4 receiver / alias tests) are read as *path facts* (`_facts`):
enclosing `if` / conditional-expression tests, preceding `and` operands and preceding guard clauses
(`if c: return|raise|continue|break`), decomposed through and / or (De Morgan) / not / `not in`; so `if a: if b: X`,
`if a and b: X` and `if not a: return ... X` give the same facts, while `if a or b: X` gives none about `a`.
For the R4 receiver test the facts are expanded further (`_expand_facts`): a boolean temporary with one definition stands
for the test it was computed from, and a call of a helper of streamflow.cwl.expression on the same listener
(`self._is_global_member(ctx)`) stands for what its truthy / falsy result implies -- the path facts and the value of the
`return` statements that can produce that result (the facts common to all of them), with the helper's parameter that
receives `ctx` standing for the handler's context (inlining bound 2).  The member expression handed to `deps.add` is
followed into such helpers in the same way (`_accessors_in`).

Left out of DESIGN's R2 table: *function expression parameters*.  Without a handler a function expression
neither pushes a scope nor shadows, so names are only ever over-approximated (a superset keeps the clause);
arming it would fire on behaviour that satisfies the property.  It is printed as an observation.
Not decided: optionality of grammar children (an accessor may return None when the child is optional -- the
serialised ATN is not interpreted), aliasing through call arguments / return values, `with` statements.
R3d does not see a mutation performed inside a nested function / lambda of a query, through an alias of `self`, through
an unresolved (library) callee that receives a live scope, or by a caller on a live scope the query returns.
"""

from __future__ import annotations

import ast

from ..dataflow import _param_args, defs_of, reaching_defs
from ..model import ancestors, dotted, enclosing_stmt, parent, unparse, walk_no_nested
from ..selftest import V
from ._util_G import calls_deep, guards_of, is_call_to

MOD = "streamflow.cwl.expression"
FILE = "streamflow/cwl/expression.py"
LISTENER = f"{MOD}.CWLDependencyListener"
RESOLVER = f"{MOD}.DependencyResolver"
PMOD = "streamflow.cwl.antlr.ECMAScriptParser"
PARSER = f"{PMOD}.ECMAScriptParser"
BASE_LISTENER = "streamflow.cwl.antlr.ECMAScriptListener.ECMAScriptListener"
NAMES = "streamflow.core.utils.NamesStack"
UFILE = "streamflow/core/utils.py"
CWLUTILS = "streamflow.cwl.utils"
CUFILE = "streamflow/cwl/utils.py"

META = {
    "explanation": (
        "Class-table and def-use rules on CWLDependencyListener: static context types are inferred from parameter "
        "annotations and from the bodies of the generated accessors (getTypedRuleContext/getTypedRuleContexts/getToken) "
        "and every method call on a context is checked against the parser's class hierarchy; Optional helper results "
        "must be guarded before a dereference; the listener's handler set is compared with a frozen table of "
        "name-binding grammar constructs; NamesStack push/pop pairing, removal robustness, alias/shadow separation and "
        "read-only queries (may-alias analysis of the value-returning methods against the state bound in __init__); "
        "propagation of the collected set to resolve_dependencies' result; CFG dominance of the scope push over the "
        "shadow registrations; def-use flow of every resolve_dependencies parameter (expression library included) into the scan."
    ),
    "undecided": "completeness of the alias analysis beyond the frozen construct table (call arguments, return values, "
    "with-statements); optional grammar children; agreement with the fields actually read by a JavaScript engine",
    "assumptions": [
        "antlr4 ParserRuleContext API: getChild/getToken/getTokens/getTypedRuleContext(s)/getText/getChildCount/... exist on every context",
        "generated accessors return getTypedRuleContext(C, i) -> C | None, getTypedRuleContexts(C) -> list[C], getToken -> TerminalNode | None",
    ],
}

# antlr4-python3-runtime: RuleContext / ParserRuleContext / ParseTree API available on every context
ANTLR_API = {
    "getChild", "getChildren", "getChildCount", "getToken", "getTokens", "getTypedRuleContext", "getTypedRuleContexts",
    "getText", "getRuleIndex", "getRuleContext", "getPayload", "getParent", "getSourceInterval", "getAltNumber",
    "setAltNumber", "accept", "depth", "isEmpty", "toStringTree", "toString", "enterRule", "exitRule", "addChild",
    "addTokenNode", "addErrorNode", "removeLastChild", "copyFrom",
}
OPAQUE_CTX = {"antlr4.ParserRuleContext", "antlr4.RuleContext", "antlr4.tree.Tree.ParseTree", "ParserRuleContext"}


# --------------------------------------------------------------------------- parser class table


def _pcls(p, name: str):
    """Qualified name of parser context class `name` (last dotted component) or None."""
    q = f"{PARSER}.{name.rpartition('.')[2]}"
    return q if q in p.classes else None


def _pbases(p, cq: str) -> list[str]:
    out = []
    for b in p.classes[cq].bases:
        q = _pcls(p, b)
        if q:
            out.append(q)
    return out


def _pmro(p, cq: str) -> list[str]:
    out, todo = [], [cq]
    while todo:
        c = todo.pop(0)
        if c in out:
            continue
        out.append(c)
        todo.extend(_pbases(p, c))
    return out


def _psubs(p, cq: str) -> list[str]:
    return sorted(c for c in p.classes if c.startswith(PARSER + ".") and c != cq and cq in _pmro(p, c))


def _pmethod(p, cq: str, name: str):
    for c in _pmro(p, cq):
        m = p.classes[c].methods.get(name)
        if m is not None:
            return m
    return None


def _accessor_type(p, meth, nargs: int):
    """Static result type of a generated accessor called with `nargs` arguments."""
    kinds = []
    for r in [n for n in meth.body_nodes() if isinstance(n, ast.Return) and isinstance(n.value, ast.Call)]:
        fn = r.value.func
        if not (isinstance(fn, ast.Attribute) and isinstance(fn.value, ast.Name) and fn.value.id == "self"):
            continue
        arg = r.value.args[0] if r.value.args else None
        if fn.attr == "getTypedRuleContext" and arg is not None:
            kinds.append(("ctx", _pcls(p, dotted(arg) or "")))
        elif fn.attr == "getTypedRuleContexts" and arg is not None:
            kinds.append(("list", _pcls(p, dotted(arg) or "")))
        elif fn.attr == "getToken":
            kinds.append(("token", None))
        elif fn.attr == "getTokens":
            kinds.append(("tokens", None))
    if not kinds:
        return None
    plural = [k for k in kinds if k[0] in ("list", "tokens")]
    single = [k for k in kinds if k[0] in ("ctx", "token")]
    if nargs == 0 and plural:
        return plural[0]
    if single:
        return single[0]
    return kinds[0]


# --------------------------------------------------------------------------- path facts

_FLIP = {ast.NotIn: ast.In, ast.IsNot: ast.Is, ast.NotEq: ast.Eq}


def _split_fact(t, pol: bool, out: list) -> None:
    """Decompose `t is pol` into atomic facts: `a and b` true => a true, b true; `a or b` false => a false, b false
    (De Morgan); `not a` flips; `x not in y` / `x is not y` / `x != y` become the positive comparison with the
    polarity flipped.  A disjunction that holds (or a conjunction that fails) says nothing about its operands
    and stays one atom."""
    if isinstance(t, ast.UnaryOp) and isinstance(t.op, ast.Not):
        _split_fact(t.operand, not pol, out)
    elif isinstance(t, ast.BoolOp) and isinstance(t.op, ast.And if pol else ast.Or):
        for v in t.values:
            _split_fact(v, pol, out)
    elif isinstance(t, ast.Compare) and len(t.ops) == 1 and type(t.ops[0]) in _FLIP:
        # synthesised node sharing the operand sub-trees (their parent pointers stay those of the source)
        out.append((ast.Compare(left=t.left, ops=[_FLIP[type(t.ops[0])]()], comparators=t.comparators), not pol))
    else:
        out.append((t, pol))


def _leaves(stmts) -> bool:
    """The statement list cannot complete normally (ends in return / raise / continue / break on every branch)."""
    if not stmts:
        return False
    last = stmts[-1]
    if isinstance(last, (ast.Return, ast.Raise, ast.Continue, ast.Break)):
        return True
    if isinstance(last, ast.If):
        return _leaves(last.body) and _leaves(last.orelse)
    return False


def _facts(node, f) -> list:
    """[(atom, polarity)] known to hold when `node` (inside function `f`) is evaluated: the conditions of the enclosing
    `if` statements / conditional expressions / preceding `and` operands (guards_of), plus the guard clauses
    `if c: return|raise|continue|break` that precede an enclosing statement in its block, each decomposed by
    _split_fact.  The same fact is obtained from `if a: if b: X`, `if a and b: X`, `if not a: return; if b: X`
    and `if not a or not b: return; X`.  Like guards_of this is lexical: a re-binding of a tested name between the
    test and `node` is not tracked."""
    raw = [(t, pol) for t, pol, _ in guards_of(node, stop=f.node)]
    child, p = node, parent(node)
    while p is not None:
        for fld in ("body", "orelse", "finalbody", "handlers"):
            blk = getattr(p, fld, None)
            if isinstance(blk, list) and any(child is s for s in blk):
                for s in blk:
                    if s is child:
                        break
                    if isinstance(s, ast.If):
                        if _leaves(s.body) and not _leaves(s.orelse):
                            raw.append((s.test, False))
                        elif s.orelse and _leaves(s.orelse) and not _leaves(s.body):
                            raw.append((s.test, True))
        if p is f.node or isinstance(p, (ast.FunctionDef, ast.AsyncFunctionDef, ast.Lambda, ast.ClassDef)):
            break
        child, p = p, parent(p)
    out: list = []
    for t, pol in raw:
        _split_fact(t, pol, out)
    return out


def _mentions(t, name: str) -> bool:
    return any(isinstance(x, ast.Name) and x.id == name for x in [t, *ast.walk(t)])


def _non_null_fact(t, pol: bool, name: str) -> bool:
    """The fact (t, pol) implies that local `name` is not None."""
    if isinstance(t, ast.Compare) and len(t.ops) == 1 and isinstance(t.ops[0], (ast.Is, ast.Eq)) and isinstance(t.left, ast.Name) \
            and t.left.id == name and isinstance(t.comparators[0], ast.Constant) and t.comparators[0].value is None:
        return not pol
    if isinstance(t, ast.Name) or (isinstance(t, ast.NamedExpr) and isinstance(t.target, ast.Name)):
        nm = t.id if isinstance(t, ast.Name) else t.target.id
        if nm == name:
            return pol
    # any other test that holds and reads the value (membership, isinstance, comparison with a string, ...)
    return pol and _mentions(t, name)


# --------------------------------------------------------------------------- type inference in the listener


def _infer(p, f, expr, at=None, depth=0):
    """('ctx', C) | ('list', C) | ('token', None) | ('tokens', None) | ('opaque', None) | None."""
    if depth > 6 or expr is None:
        return None
    if isinstance(expr, ast.Name):
        # isinstance narrowing at the use site
        if at is not None:
            for n, pol in _facts(at, f):
                if (
                    pol
                    and isinstance(n, ast.Call)
                    and dotted(n.func) == "isinstance"
                    and len(n.args) == 2
                    and isinstance(n.args[0], ast.Name)
                    and n.args[0].id == expr.id
                ):
                    q = _pcls(p, dotted(n.args[1]) or "")
                    if q:
                        return ("ctx", q)
        ann = f.param_annotation(expr.id)
        if ann is not None:
            d = dotted(ann) or ""
            q = _pcls(p, d) if d.startswith("ECMAScriptParser.") or d.startswith(PARSER) else None
            if q:
                return ("ctx", q)
            r = p.ann_to_class(f.module, ann)
            if r in OPAQUE_CTX or d in OPAQUE_CTX:
                return ("opaque", None)
            return None
        ts = []
        for d in defs_of(f, expr.id):
            if d.kind in ("assign", "walrus") and d.index is None:
                ts.append(_infer(p, f, d.value, None, depth + 1))
            elif d.kind in ("for", "comp") and d.index is None:
                t = _infer(p, f, d.value, None, depth + 1)
                if t and t[0] == "list":
                    ts.append(("ctx", t[1]))
                elif t and t[0] == "tokens":
                    ts.append(("token", None))
                else:
                    ts.append(None)
            else:
                ts.append(None)
        ts = [t for t in ts if t is not None]
        return ts[0] if ts and all(t == ts[0] for t in ts) else None
    if isinstance(expr, ast.Call) and isinstance(expr.func, ast.Attribute):
        recv = _infer(p, f, expr.func.value, at, depth + 1)
        if recv and recv[0] == "ctx" and recv[1]:
            m = _pmethod(p, recv[1], expr.func.attr)
            if m is not None:
                return _accessor_type(p, m, len(expr.args) + len(expr.keywords))
            if expr.func.attr == "getToken":
                return ("token", None)
            if expr.func.attr == "getTokens":
                return ("tokens", None)
        if recv and recv[0] == "opaque":
            if expr.func.attr == "getToken":
                return ("token", None)
        return None
    return None


def _site_types(p, f, pname: str, depth: int = 2, _seen: tuple = ()):
    """[(caller, argument, static type)] for parameter `pname` of the private helper `f` at every resolved call site
    (`_param_args`); an argument that is itself a generically typed parameter of a private helper is followed to that
    helper's call sites (bound `depth`).  None when the helper is public / has no resolved call site / a site uses */**."""
    sites = _param_args(p, f, pname)
    if not sites:
        return None
    out = []
    for g, a in sites:
        t = _infer(p, g, a, at=a)
        if t and t[0] == "opaque" and isinstance(a, ast.Name) and depth > 0 and g is not f and g.qualname not in _seen:
            inner = _site_types(p, g, a.id, depth - 1, _seen + (f.qualname,))
            if inner:
                out.extend(inner)
                continue
        out.append((g, a, t))
    return out


def _listener_funcs(p):
    c = p.cls(LISTENER)
    return list(c.methods.values())


def r1(ctx):
    p = ctx.prog
    ctx.require(PARSER in p.classes, f"C31.R1: generated parser class {PARSER} not in the class table")
    single = _pcls(p, "SingleExpressionContext")
    ctx.require(single is not None and len(_psubs(p, single)) >= 30, "C31.R1: labelled alternatives of singleExpression not found")
    funcs = _listener_funcs(p)
    checked = 0
    for f in funcs:
        for c in f.calls():
            if not isinstance(c.func, ast.Attribute):
                continue
            t = _infer(p, f, c.func.value, at=c)
            if t is None:
                continue
            name = c.func.attr
            if t[0] == "ctx" and t[1]:
                T = t[1]
                defined = _pmethod(p, T, name) is not None or name in ANTLR_API
                only_on = [] if defined else [s.rpartition(".")[2] for s in _psubs(p, T) if name in p.classes[s].methods]
                checked += 1
                ctx.ob(
                    "R1",
                    f"{f.name}: `{unparse(c.func)[:50]}()` is defined for static type {T.rpartition('.')[2]}",
                    defined,
                    func=f,
                    node=c,
                    instance=f"{f.name}:accessor:{name}@{T.rpartition('.')[2]}",
                    message=(
                        f"`{unparse(c.func)}()` is called on a {T.rpartition('.')[2]} but `{name}` exists only on "
                        f"{only_on or 'no context class'}: AttributeError for every other alternative (e.g. a computed key `inputs[k]`)"
                    ),
                    witness=[f"receiver type from: {unparse(c.func.value)}", f"alternatives of {T.rpartition('.')[2]}: {len(_psubs(p, T))}"],
                )
            elif t[0] == "opaque":
                checked += 1
                ok, what, msg = name in ANTLR_API, f"{f.name}: `{unparse(c.func)[:50]}()` is part of the generic ParserRuleContext API", \
                    f"`{name}` is not defined on antlr4.ParserRuleContext, the declared type of `{unparse(c.func.value)}`"
                wit = []
                if not ok and isinstance(c.func.value, ast.Name) and f.param_annotation(c.func.value.id) is not None:
                    # a private helper whose parameter is declared with the generic type: the receiver is what the
                    # resolved call sites pass (helper extraction); the accessor must exist for every one of them
                    sites = _site_types(p, f, c.func.value.id)
                    if sites:
                        lacking = [(g, a, st) for g, a, st in sites if not (st and st[0] == "ctx" and st[1] and (_pmethod(p, st[1], name) is not None))]
                        ok = not lacking
                        shown = sorted({st[1].rpartition(".")[2] for _, _, st in sites if st and st[0] == "ctx" and st[1]})
                        what = (f"{f.name}: `{unparse(c.func)[:50]}()` is defined for the static type of the argument at every resolved call site "
                                f"of this private helper ({', '.join(shown)})")
                        wit = [f"call site {g.qualname}: `{unparse(a)[:50]}` : {st[1].rpartition('.')[2] if st and st[1] else (st[0] if st else 'untyped')}" for g, a, st in sites]
                        if lacking:
                            g, a, st = lacking[0]
                            msg = (f"`{name}` is not defined on antlr4.ParserRuleContext, the declared type of `{unparse(c.func.value)}`, nor on "
                                   f"{st[1].rpartition('.')[2] if st and st[0] == 'ctx' and st[1] else 'the untyped value'} `{unparse(a)[:50]}` that "
                                   f"{g.qualname} passes to {f.name}() (followed the resolved call sites of the helper)")
                ctx.ob(
                    "R1",
                    what,
                    ok,
                    func=f,
                    node=c,
                    instance=f"{f.name}:accessor:{name}@ParserRuleContext",
                    message=msg,
                    witness=wit,
                )
            elif t[0] in ("list", "tokens"):
                checked += 1
                ctx.ob(
                    "R1",
                    f"{f.name}: no context accessor is called on a list of contexts",
                    name in ("append", "extend", "index", "count", "copy", "__iter__", "__len__"),
                    func=f,
                    node=c,
                    instance=f"{f.name}:accessor:{name}@list",
                    message=f"`{unparse(c.func)}()` is called on the *list* returned by `{unparse(c.func.value)}`",
                )
    ctx.require(checked >= 8, f"C31.R1: only {checked} context accessor calls could be typed (type inference lost its anchors)")
    # b. Optional helper results
    mod = p.module(MOD)
    optional = {}
    for q, fn in p.functions.items():
        if fn.module is mod and fn.node.returns is not None:
            rt = unparse(fn.node.returns)
            if "None" in rt.replace(" ", "").split("|") or rt.startswith("Optional["):
                optional[q] = fn
    ctx.require(len(optional) >= 2, "C31.R1: helpers annotated `-> ... | None` not found in streamflow.cwl.expression")
    for f in [fn for fn in p.functions.values() if fn.module is mod]:
        for c in f.calls():
            qs = [q for q in p.resolve_call(f, c, fanout=False) if q in optional]
            if not qs:
                continue
            helper = optional[qs[0]].name
            par = parent(c)
            bad = None
            if isinstance(par, (ast.Attribute, ast.Subscript)) and par.value is c:
                bad = unparse(par)[:80]
            else:
                # bound to a name: every dereference of that name must be guarded by a test of the name
                tgt = None
                if isinstance(par, ast.NamedExpr) and par.value is c:
                    tgt = par.target.id
                elif isinstance(par, ast.Assign) and par.value is c and len(par.targets) == 1 and isinstance(par.targets[0], ast.Name):
                    tgt = par.targets[0].id
                if tgt:
                    for n in f.body_nodes():
                        if isinstance(n, (ast.Attribute, ast.Subscript)) and isinstance(n.value, ast.Name) and n.value.id == tgt and isinstance(n.ctx, ast.Load):
                            guarded = any(_non_null_fact(t, pol, tgt) for t, pol in _facts(n, f))
                            if not guarded:
                                bad = unparse(n)[:80]
            ctx.ob(
                "R1",
                f"{f.name}: result of {helper}() (may be None) is not dereferenced unguarded",
                bad is None,
                func=f,
                node=c,
                instance=f"{f.name}:optional:{helper}:{'deref' if bad else 'ok'}",
                message=f"`{bad}` dereferences the result of {helper}(), annotated `{unparse(optional[qs[0]].node.returns)}`: None for e.g. a numeric index `inputs[0]`",
            )


# --------------------------------------------------------------------------- R2

# construct -> (acceptable handler names, what goes wrong without one)
TABLE = [
    ("assignment expression `x = inputs`", ("enterAssignmentExpression", "exitAssignmentExpression"),
     "an alias created by assignment is not tracked"),
    ("variable declaration with initialiser `var x = inputs`",
     ("enterVariableDeclaration", "exitVariableDeclaration", "enterInitialiser", "exitInitialiser", "enterVariableDeclarationList", "enterVariableStatement"),
     "`var x = inputs; x.foo` yields no dependency on foo"),
    ("function declaration parameters (shadowing)", ("enterFunctionDeclaration",),
     "a parameter named like a tracked name is not scoped"),
    ("parenthesised receiver `(inputs).foo`", ("enterParenthesizedExpression", "exitParenthesizedExpression"),
     "`(inputs).foo` yields no dependency on foo"),
]


def _own_methods(p):
    names = {}
    for k in p.mro(LISTENER):
        if k == BASE_LISTENER or k not in p.classes or k.startswith("streamflow.cwl.antlr."):
            continue
        for n, m in p.classes[k].methods.items():
            names.setdefault(n, m)
    return names


def r2(ctx):
    p = ctx.prog
    cls = p.cls(LISTENER)
    base = p.cls(BASE_LISTENER)
    own = _own_methods(p)
    carrier = next(iter(cls.methods.values()))
    for label, handlers, consequence in TABLE:
        for h in handlers:
            ctx.require(h in base.methods, f"C31.R2: handler name {h} is not a method of the generated listener (grammar changed?)")
        have = [h for h in handlers if h in own]
        # a helper that unwraps the construct inside another handler is accepted as well
        ctxname = handlers[0].removeprefix("enter").removeprefix("exit") + "Context"
        unwrap = any(
            isinstance(n, ast.Call) and dotted(n.func) == "isinstance" and len(n.args) == 2 and ctxname in unparse(n.args[1])
            for m in own.values()
            for n in m.body_nodes()
        )
        ctx.ob(
            "R2",
            f"listener handles: {label}",
            bool(have) or unwrap,
            func=carrier,
            qualname=LISTENER,
            node=cls.node,
            instance=f"handler:{handlers[0]}",
            message=f"CWLDependencyListener has no handler for {label} ({' / '.join(handlers[:3])}): {consequence}",
        )
    # computed key: the index handler needs an effect on the non-literal path
    h = own.get("enterMemberIndexExpression")
    ok = False
    if h is not None:
        adds = [c for c in h.calls() if isinstance(c.func, ast.Attribute) and c.func.attr == "add" and unparse(c.func.value) == "self.deps"]
        effects = []
        for n in h.body_nodes():
            if isinstance(n, ast.Raise):
                effects.append(n)
            elif isinstance(n, (ast.Assign, ast.AugAssign)):
                tg = n.targets if isinstance(n, ast.Assign) else [n.target]
                if any(unparse(t).startswith("self.") for t in tg):
                    effects.append(n)
            elif isinstance(n, ast.Call) and isinstance(n.func, ast.Attribute) and unparse(n.func.value).startswith("self.") and n not in adds:
                if n.func.attr in ("add", "update", "append", "extend", "add_name") and unparse(n.func.value) != "self.deps":
                    effects.append(n)
                elif n.func.attr in ("update",) and unparse(n.func.value) == "self.deps":
                    effects.append(n)
        # an effect that is not under the same guards as the literal `deps.add`
        add_stmts = {id(enclosing_stmt(a)) for a in adds}
        ok = any(id(enclosing_stmt(e)) not in add_stmts for e in effects)
    ctx.ob(
        "R2",
        "listener handles: member index with a computed key `inputs[k]` (fall-back to all inputs)",
        ok,
        func=carrier,
        qualname=LISTENER,
        node=(h.node if h else cls.node),
        instance="handler:computed-key-fallback",
        message="enterMemberIndexExpression has no effect for a non-literal key: `inputs[k]` can read any field but adds no dependency (today it even raises AttributeError)",
    )
    if "enterFunctionExpression" not in own:
        ctx.observe("C31: no enterFunctionExpression handler -- function expressions neither push a scope nor shadow; names are over-approximated only (not armed)")


# --------------------------------------------------------------------------- R3


def _calls_on_names(f, meth):
    return [c for c in f.calls() if isinstance(c.func, ast.Attribute) and c.func.attr == meth and unparse(c.func.value) == "self.names"]


def _scope_local_ops(f):
    """Calls `self.names.<op>(..)` that change the content of the innermost scope (add_name, delete_name, ...)."""
    return [
        c
        for c in f.calls()
        if isinstance(c.func, ast.Attribute)
        and unparse(c.func.value) == "self.names"
        and c.func.attr.startswith(("add_", "delete_", "remove_", "discard_"))
        and not c.func.attr.endswith("_scope")
    ]


def _names_deep(f, expr, depth: int = 5, _seen: frozenset = frozenset(), values_only: bool = False) -> set[str]:
    """Names read by `expr`, following locals into all their definitions (flow-insensitive); `values_only` leaves out
    the names that only select a branch of a conditional expression."""
    out: set[str] = set()
    tests = {id(x) for n in [expr, *walk_no_nested(expr)] if isinstance(n, ast.IfExp) for x in [n.test, *ast.walk(n.test)]} if values_only else set()
    for n in [expr, *walk_no_nested(expr)]:
        if isinstance(n, ast.Name) and isinstance(n.ctx, ast.Load) and id(n) not in tests:
            out.add(n.id)
            if depth > 0 and n.id not in _seen:
                for d in defs_of(f, n.id):
                    if d.value is not None:
                        out |= _names_deep(f, d.value, depth - 1, _seen | {n.id}, values_only)
    return out


def r3(ctx):
    p = ctx.prog
    own = _own_methods(p)
    cls = p.cls(LISTENER)
    pushes = {n.removeprefix("enter"): m for n, m in own.items() if n.startswith("enter") and _calls_on_names(m, "add_scope")}
    pops = {n.removeprefix("exit"): m for n, m in own.items() if n.startswith("exit") and _calls_on_names(m, "delete_scope")}
    stray = [m for n, m in own.items() if not n.startswith(("enter", "exit")) and (_calls_on_names(m, "add_scope") or _calls_on_names(m, "delete_scope"))]
    ctx.require(bool(pushes) or bool(pops), "C31.R3: no scope push/pop found in the listener")
    for k in sorted(set(pushes) | set(pops)):
        m = pushes.get(k) or pops.get(k)
        ctx.ob(
            "R3",
            f"scope pushed in enter{k} is popped in exit{k}",
            k in pushes and k in pops,
            func=m,
            node=m.node,
            instance=f"scope-pair:{k}",
            message=f"{'enter' if k in pushes else 'exit'}{k} changes the scope stack but its counterpart does not: names of the function body leak / the global scope is popped",
        )
    for m in stray:
        ctx.ob("R3", "scopes change only in enter/exit handlers", False, func=m, node=m.node, instance=f"scope-stray:{m.name}")
    # a'. names registered / removed by a scope-changing handler belong to the scope of that construct: in the
    #     pushing handler every such operation is dominated by the push (otherwise a shadowing parameter lands in
    #     the enclosing scope and outlives the function); in the popping handler none follows the pop.
    for k, m in sorted(pushes.items()):
        g = m.cfg
        push_ids = [i for c in _calls_on_names(m, "add_scope") for i in g.node_containing(c)]
        for c in _scope_local_ops(m):
            ids = g.node_containing(c)
            ok = bool(push_ids) and bool(ids) and all(g.dominates(push_ids, i) for i in ids)
            wit = []
            if not ok and ids:
                pth = g.path(g.entry, ids, avoid=push_ids)
                wit = g.describe(pth) if pth else []
            ctx.ob(
                "R3",
                f"enter{k}: `{unparse(c)[:50]}` acts on the scope pushed by this handler (add_scope dominates it)",
                ok,
                func=m,
                node=c,
                instance=f"scope-order:enter{k}:{c.func.attr}",
                message=f"enter{k}: `{unparse(c)}` can run before `self.names.add_scope()`: the name is registered in the *enclosing* scope, "
                f"survives exit{k} and is subtracted by global_names() -- after a nested `function f(inputs){{..}}` every later `inputs.x` of the "
                "enclosing function yields no dependency",
                witness=wit,
            )
    for k, m, op in [(k, m, "add_scope") for k, m in sorted(pushes.items())] + [(k, m, "delete_scope") for k, m in sorted(pops.items())]:
        g = m.cfg
        ids = [i for c in _calls_on_names(m, op) for i in g.node_containing(c)]
        esc = g.escape(g.entry, ids) if ids else None
        ctx.ob(
            "R3",
            f"{m.name}: `self.names.{op}()` runs on every path through the handler",
            bool(ids) and esc is None,
            func=m,
            node=m.node,
            instance=f"scope-every-path:{m.name}",
            message=f"{m.name} can return without `self.names.{op}()` while its counterpart changes the stack unconditionally: the scope stack "
            "gets out of step with the nesting of function declarations",
            witness=g.describe(esc) if esc else [],
        )
    for k, m in sorted(pops.items()):
        g = m.cfg
        pop_ids = [i for c in _calls_on_names(m, "delete_scope") for i in g.node_containing(c)]
        after = g.reach(pop_ids) if pop_ids else set()
        for c in _scope_local_ops(m):
            ids = g.node_containing(c)
            ctx.ob(
                "R3",
                f"exit{k}: `{unparse(c)[:50]}` acts on the scope of this construct (not after delete_scope)",
                not any(i in after for i in ids),
                func=m,
                node=c,
                instance=f"scope-order:exit{k}:{c.func.attr}",
                message=f"exit{k}: `{unparse(c)}` can run after `self.names.delete_scope()`: it changes the enclosing scope instead of the function's own",
            )
    # b. delete_name robustness
    ns = p.cls(NAMES)
    dn = ns.methods.get("delete_name")
    contains = ns.methods.get("__contains__")
    ctx.require(dn is not None and contains is not None, "C31.R3: NamesStack.delete_name / __contains__ vanished")
    searches_all = any(isinstance(n, (ast.For, ast.comprehension)) and "self.stack" in unparse(n.iter) for n in contains.body_nodes())
    raising = []
    for c in dn.calls():
        if isinstance(c.func, ast.Attribute) and c.func.attr in ("remove", "pop") and "self.stack" in unparse(c.func.value):
            recv = c.func.value
            one_scope = isinstance(recv, ast.Subscript)
            guarded = any(True for t, pol, _ in guards_of(c, stop=dn.node) if pol and "in" in unparse(t))
            suppressed = any(isinstance(a, (ast.Try, ast.With)) for a in ancestors(c) if a is not dn.node)
            if one_scope and not guarded and not suppressed:
                raising.append(c)
    callers_guard_any_scope = []
    for f in _listener_funcs(p):
        for c in _calls_on_names(f, "delete_name"):
            arg = c.args[0] if c.args else None
            for t, pol in _facts(c, f):
                if pol and isinstance(t, ast.Compare) and isinstance(t.ops[0], ast.In) and unparse(t.comparators[0]) == "self.names" and arg is not None and unparse(t.left) == unparse(arg):
                    callers_guard_any_scope.append(c)
    ctx.ob(
        "R3",
        "NamesStack.delete_name cannot raise for a name found by `in self.names`",
        not (raising and searches_all and callers_guard_any_scope),
        func=dn,
        node=(raising[0] if raising else dn.node),
        instance="delete_name:raises-for-outer-scope",
        message="delete_name removes from the innermost scope only (`set.remove` raises KeyError) while its callers test `name in self.names`, "
        "which is true for names of outer scopes: `function f(){ x = q; }` after `x = inputs` crashes the analysis",
        witness=[f"callers: {[f'{unparse(c)}' for c in callers_guard_any_scope]}"],
    )
    # d. the queries of NamesStack are read-only: the listener calls them from tests (`in self.names`,
    #    `in self.names.global_names()`) any number of times between two scope changes
    state = _state_attrs(ns)
    ctx.require(bool(state), "C31.R3: NamesStack.__init__ binds no state attribute (self.stack)")
    queries = []
    for m in ns.methods.values():
        if m.name == "__init__":
            continue
        if m.node.returns is not None:
            is_query = not (isinstance(m.node.returns, ast.Constant) and m.node.returns.value is None)
        else:
            is_query = any(isinstance(n, ast.Return) and n.value is not None for n in m.body_nodes())
        if is_query:
            queries.append(m)
    ctx.require(any(m.name == "global_names" for m in queries), "C31.R3: NamesStack.global_names is no longer a value-returning method")
    for m in sorted(queries, key=lambda m: m.name):
        muts = _mutations(p, m, state)
        if not muts:
            ctx.ob("R3", f"NamesStack.{m.name} (a query) does not change the scope stack", True, func=m, node=m.node, instance=f"query-pure:{m.name}")
        for node, what, via in muts:
            ctx.ob(
                "R3",
                f"NamesStack.{m.name} (a query) does not change the scope stack",
                False,
                func=m,
                node=node,
                instance=f"query-pure:{m.name}:{via}",
                message=f"NamesStack.{m.name}: {what}; the listener evaluates {m.name}() inside its tests, so the first member access visited "
                "inside a function whose parameter shadows a tracked name removes that name from the scope for good: every later "
                "`inputs.x` of the expression yields no dependency",
            )
    # c. alias vs shadow through the same operation
    gn = ns.methods.get("global_names")
    ctx.require(gn is not None, "C31.R3: NamesStack.global_names vanished")
    subtracts_inner = any(
        (isinstance(n, ast.Call) and isinstance(n.func, ast.Attribute) and n.func.attr in ("difference", "difference_update"))
        or (isinstance(n, (ast.BinOp, ast.AugAssign)) and isinstance(n.op, ast.Sub))
        for n in gn.body_nodes()
    )
    readers = [m for m in own.values() if any(isinstance(c.func, ast.Attribute) and c.func.attr == "global_names" for c in m.calls())]
    alias_ops, shadow_ops = set(), set()
    for n, m in own.items():
        for c in m.calls():
            if isinstance(c.func, ast.Attribute) and unparse(c.func.value) == "self.names" and c.func.attr.startswith("add_") and c.func.attr != "add_scope":
                if "Assignment" in n or "Variable" in n or "Initialiser" in n:
                    alias_ops.add(c.func.attr)
                elif "Function" in n:
                    shadow_ops.add(c.func.attr)
    if not alias_ops:
        # nothing registers aliases (R2/R4 report the missing handler): no operation to compare
        ctx.ob("R3", "aliases created inside a function body stay visible to the member handlers", True, func=next(iter(cls.methods.values())),
               qualname=LISTENER, node=cls.node, instance="alias-vs-shadow:no-alias-registration", trivial=True)
        return
    pushes_scope = bool(pushes)
    ctx.ob(
        "R3",
        "aliases created inside a function body stay visible to the member handlers",
        not (subtracts_inner and readers and pushes_scope and (alias_ops & shadow_ops)),
        func=next(iter(cls.methods.values())),
        qualname=LISTENER,
        node=cls.node,
        instance="alias-vs-shadow:same-operation",
        message=f"aliases and shadowing parameters are both registered with self.names.{sorted(alias_ops & shadow_ops)} in the innermost scope, and "
        "global_names() subtracts every inner scope: `function f(){ var y; y = inputs; return y.foo; }` yields no dependency on foo",
    )


# --------------------------------------------------------------------------- R3d: queries of NamesStack are read-only

# kinds of a value inside a NamesStack method: LIVE = the state container itself (`self.stack`), VIEW = a fresh container
# whose elements are the live scopes (slice, list(..), reversed(..), .copy() of the container), ELEM = one live scope
LIVE, VIEW, ELEM = "live", "view", "elem"
_SET_MUT = {"add", "remove", "discard", "pop", "clear", "update", "difference_update", "intersection_update",
            "symmetric_difference_update", "__isub__", "__ior__", "__iand__", "__ixor__"}
_SEQ_MUT = {"append", "extend", "insert", "remove", "pop", "clear", "sort", "reverse", "__iadd__", "__imul__", "__setitem__",
            "__delitem__", "popitem", "setdefault", "appendleft", "popleft", "extendleft", "rotate"}
_MUTATORS = _SET_MUT | _SEQ_MUT
_VIEW_CALLS = {"reversed", "iter", "list", "tuple", "sorted", "islice", "deque"}
_ELEM_CALLS = {"next", "min", "max"}


def _state_attrs(cls_) -> set[str]:
    """Attributes `self.X` bound by the constructor: the object's state."""
    init = cls_.methods.get("__init__")
    out: set[str] = set()
    if init is not None:
        for n in init.body_nodes():
            if isinstance(n, ast.Attribute) and isinstance(n.ctx, ast.Store) and isinstance(n.value, ast.Name) and n.value.id == "self":
                out.add(n.attr)
    return out


class _Alias:
    """May-alias kinds of expressions in one function: which values are (parts of) the state of `self`.  Locals are
    followed through their *reaching* definitions (so `names = self.stack[0]; names = names.copy(); names -= s` is
    fresh at the `-=`), loop / comprehension targets take the element kind of what they iterate, conditional
    expressions and `a or b` the union of their arms.  Copies of a scope (`.copy()`, `set(..)`, `a - b`, `a.difference(b)`,
    any other call) are fresh."""

    def __init__(self, f, state: set[str], seeds: dict | None = None):
        self.f, self.state, self.seeds = f, state, seeds or {}

    def kinds(self, e, use=None, depth: int = 6) -> set[str]:
        f = self.f
        if e is None or depth < 0:
            return set()
        use = use if use is not None else e
        if isinstance(e, ast.Attribute):
            if isinstance(e.value, ast.Name) and e.value.id == "self" and e.attr in self.state:
                return {LIVE}
            return set()
        if isinstance(e, ast.Name):
            out: set[str] = set()
            for d in reaching_defs(f, e.id, use):
                if d.kind == "param":
                    out |= set(self.seeds.get(e.id, ()))
                elif d.kind in ("assign", "walrus"):
                    k = self.kinds(d.value, d.value, depth - 1)
                    out |= k if d.index is None else self._element(d.value, d.index, depth - 1)
                elif d.kind in ("for", "comp"):
                    out |= self._element(d.value, d.index, depth - 1)
            return out
        if isinstance(e, ast.Subscript):
            k = self.kinds(e.value, use, depth - 1)
            if k & {LIVE, VIEW}:
                return {VIEW} if isinstance(e.slice, ast.Slice) else {ELEM}
            return set()
        if isinstance(e, ast.IfExp):
            return self.kinds(e.body, use, depth - 1) | self.kinds(e.orelse, use, depth - 1)
        if isinstance(e, ast.BoolOp):
            return set().union(*[self.kinds(v, use, depth - 1) for v in e.values])
        if isinstance(e, (ast.NamedExpr, ast.Starred)):
            return self.kinds(e.value, use, depth - 1)
        if isinstance(e, (ast.ListComp, ast.GeneratorExp)):
            return {VIEW} if ELEM in self.kinds(e.elt, e.elt, depth - 1) else set()
        if isinstance(e, (ast.List, ast.Tuple)):
            return {VIEW} if any(ELEM in self.kinds(x, use, depth - 1) for x in e.elts) else set()
        if isinstance(e, ast.Call):
            fn = e.func
            name = fn.id if isinstance(fn, ast.Name) else fn.attr if isinstance(fn, ast.Attribute) else ""
            a0 = self.kinds(e.args[0], use, depth - 1) if e.args else set()
            if name == "getattr" and len(e.args) >= 2 and isinstance(e.args[0], ast.Name) and e.args[0].id == "self" \
                    and isinstance(e.args[1], ast.Constant) and e.args[1].value in self.state:
                return {LIVE}
            if name in _VIEW_CALLS and a0 & {LIVE, VIEW} and not (isinstance(fn, ast.Attribute) and self.kinds(fn.value, use, depth - 1)):
                return {VIEW}
            if name in _ELEM_CALLS and a0 & {LIVE, VIEW}:
                return {ELEM}
            if isinstance(fn, ast.Attribute):
                r = self.kinds(fn.value, use, depth - 1)
                if r & {LIVE, VIEW}:
                    if name in ("copy", "__copy__"):
                        return {VIEW}
                    if name in ("pop", "__getitem__", "popleft"):
                        return {ELEM}
            return set()
        return set()

    def _element(self, it, index, depth: int) -> set[str]:
        """Kinds of one element of iterable / unpacked value `it` (position `index` of a tuple target)."""
        if isinstance(it, ast.Call) and isinstance(it.func, ast.Name) and it.func.id in ("enumerate", "zip"):
            if index is None:
                return set()
            if it.func.id == "enumerate":
                return self._element(it.args[0], None, depth - 1) if index == 1 and it.args else set()
            return self._element(it.args[index], None, depth - 1) if index < len(it.args) else set()
        if isinstance(it, (ast.Tuple, ast.List)) and index is not None and index < len(it.elts) and not any(isinstance(x, ast.Starred) for x in it.elts):
            return self.kinds(it.elts[index], it.elts[index], depth - 1)
        return {ELEM} if self.kinds(it, it, depth - 1) & {LIVE, VIEW} else set()


def _mutations(p, f, state: set[str], seeds: dict | None = None, depth: int = 2, _stack: tuple = ()) -> list:
    """[(node, what, via)] constructs of `f` that change the state of `self` (`self.<state attr>`, or an element of it) in
    place: augmented assignment to an alias, store / delete through an alias, a mutating set / list method on an alias
    (bound, or unbound as `set.update(alias, ..)` / `operator.isub(alias, ..)`), a call of a method of the same class that
    does one of these, or an alias handed to a program function that does (inlining bound `depth`)."""
    al = _Alias(f, state, seeds)
    out = []
    for n in f.body_nodes():
        if isinstance(n, ast.AugAssign):
            k = al.kinds(n.target, n)
            if k & {LIVE, ELEM}:
                out.append((n, f"`{unparse(n)}` updates {_origin(al, n.target, n)} in place", "augassign:" + type(n.op).__name__))
        elif isinstance(n, (ast.Subscript, ast.Attribute)) and isinstance(n.ctx, (ast.Store, ast.Del)) and not isinstance(parent(n), ast.AugAssign):
            st = enclosing_stmt(n)
            if isinstance(n, ast.Attribute):
                hit = isinstance(n.value, ast.Name) and n.value.id == "self" and n.attr in state
            else:
                hit = bool(al.kinds(n.value, n) & {LIVE, ELEM})
            if hit:
                out.append((st, f"`{unparse(st)[:70]}` rebinds / deletes part of the state through `{unparse(n)}`", "store:" + type(n).__name__))
        elif isinstance(n, ast.Call):
            fn = n.func
            if isinstance(fn, ast.Attribute) and fn.attr in _MUTATORS:
                if al.kinds(fn.value, n) & {LIVE, ELEM}:
                    out.append((n, f"`{unparse(n)[:70]}` calls the mutating method `{fn.attr}` on {_origin(al, fn.value, n)}", "call:" + fn.attr))
                    continue
                if isinstance(fn.value, ast.Name) and fn.value.id in ("set", "list", "dict", "deque") and n.args and al.kinds(n.args[0], n) & {LIVE, ELEM}:
                    out.append((n, f"`{unparse(n)[:70]}` applies `{fn.value.id}.{fn.attr}` to {_origin(al, n.args[0], n)}", "call:" + fn.attr))
                    continue
            d = dotted(fn) or ""
            if d.startswith("operator.i") and n.args and al.kinds(n.args[0], n) & {LIVE, ELEM}:
                out.append((n, f"`{unparse(n)[:70]}` updates {_origin(al, n.args[0], n)} in place", "call:" + d))
                continue
            if depth <= 0:
                continue
            for q in p.resolve_call(f, n, fanout=False):
                g = p.functions.get(q)
                if g is None or g is f or q in _stack:
                    continue
                same_obj = g.cls is not None and f.cls is not None and isinstance(fn, ast.Attribute) and isinstance(fn.value, ast.Name) \
                    and fn.value.id == "self" and g.cls.qualname in p.mro(f.cls.qualname)
                prm = list(g.params)
                if g.cls is not None and isinstance(fn, ast.Attribute) and prm and not any((dotted(x) or "") == "staticmethod" for x in g.decorators):
                    prm = prm[1:]
                sd = {}
                for i, a in enumerate(n.args):
                    if i < len(prm) and not isinstance(a, ast.Starred):
                        k = al.kinds(a, n)
                        if k:
                            sd[prm[i]] = k
                for kw in n.keywords:
                    if kw.arg:
                        k = al.kinds(kw.value, n)
                        if k:
                            sd[kw.arg] = k
                if not same_obj and not sd:
                    continue
                inner = _mutations(p, g, state if same_obj else set(), sd, depth - 1, _stack + (f.qualname,))
                if inner:
                    out.append((n, f"`{unparse(n)[:70]}` calls {g.qualname}, where {inner[0][1]}", "via:" + g.name))
    return out


def _origin(al: "_Alias", e, use) -> str:
    k = al.kinds(e, use)
    what = "the live state container" if LIVE in k else "a live scope of the stack"
    if isinstance(e, ast.Name):
        srcs = sorted({unparse(d.value)[:40] for d in reaching_defs(al.f, e.id, use) if d.kind in ("assign", "walrus", "for", "comp") and d.value is not None
                       and (al.kinds(d.value, d.value) or d.kind in ("for", "comp"))})
        return f"`{e.id}`, {what} (bound from {', '.join('`' + s + '`' for s in srcs) or 'a parameter'})"
    return f"`{unparse(e)}`, {what}"


# --------------------------------------------------------------------------- R4


def _helper_binding(p, f, call, ctxnames):
    """(helper, {its parameters bound to the caller's context}) when `call` (in `f`) resolves to exactly one function of
    streamflow.cwl.expression that acts on the same listener (`self.m(..)`, a static method, a module function) and whose
    argument binding is known (no */**); None otherwise.  A context parameter re-bound inside the helper is dropped."""
    qs = [q for q in p.resolve_call(f, call, fanout=False)]
    if len(qs) != 1 or qs[0] not in p.functions:
        return None
    g = p.functions[qs[0]]
    if g is f or g.module is not p.module(MOD) or g.is_async or isinstance(g.node, ast.Lambda):
        return None
    if any(isinstance(x, ast.Starred) for x in call.args) or any(k.arg is None for k in call.keywords):
        return None
    if any(isinstance(n, (ast.Yield, ast.YieldFrom)) for n in g.body_nodes()):
        return None
    a = g.node.args
    pos = [x.arg for x in a.posonlyargs + a.args]
    static = any((dotted(d) or "") == "staticmethod" for d in g.decorators)
    if g.cls is not None and not static:
        # an instance method: only `self.m(..)` is the same listener
        if not (isinstance(call.func, ast.Attribute) and isinstance(call.func.value, ast.Name) and call.func.value.id == "self" and pos):
            return None
        pos = pos[1:]
    bound = {}
    for i, x in enumerate(call.args):
        if i < len(pos):
            bound[pos[i]] = x
    for k in call.keywords:
        bound[k.arg] = k.value
    cn = {prm for prm, x in bound.items() if isinstance(x, ast.Name) and x.id in ctxnames and all(d.kind == "param" for d in defs_of(g, prm))}
    return g, cn


def _accessors_in(p, f, expr, ctxnames=frozenset({"ctx"}), depth: int = 2) -> set[str]:
    """Accessors called on the handler's context by `expr` of `f` (`ctxnames`: the names that denote it in `f`), through
    local temporaries (calls_deep) and through helpers of the module that receive the context itself as an argument:
    the accessors their return values are computed from (inlining bound `depth`)."""
    out: set[str] = set()
    for c in calls_deep(f, expr):
        if isinstance(c.func, ast.Attribute) and isinstance(c.func.value, ast.Name) and c.func.value.id in ctxnames:
            out.add(c.func.attr)
        elif depth > 0 and any(isinstance(x, ast.Name) and x.id in ctxnames for x in [*c.args, *[k.value for k in c.keywords]]):
            hb = _helper_binding(p, f, c, ctxnames)
            if hb and hb[1]:
                g, cn = hb
                for r in g.body_nodes():
                    if isinstance(r, ast.Return) and r.value is not None:
                        out |= _accessors_in(p, g, r.value, frozenset(cn), depth - 1)
    return out


def _const_truth(e):
    """True / False for an expression whose truth value is fixed (constants), None otherwise."""
    return bool(e.value) if isinstance(e, ast.Constant) else None


def _result_facts(p, f, call, truth: bool, ctxnames, depth: int):
    """Facts implied by `bool(call) is truth` when `call` resolves to a helper of the module (predicate extraction):
    [(atom, polarity, helper, context names in the helper)] -- the path facts of the `return` statement that can produce
    such a result plus the decomposition of its value; with several such returns only the facts common to all of them
    (same text, same polarity).  None when the call is not an inlinable helper, [] when nothing is implied."""
    hb = _helper_binding(p, f, call, ctxnames)
    if hb is None:
        return None
    g, cn = hb
    cn = frozenset(cn)
    rets = [r for r in g.body_nodes() if isinstance(r, ast.Return)]
    cand = [r for r in rets if _const_truth(r.value if r.value is not None else ast.Constant(value=None)) in (None, truth)]
    if not truth and not _leaves(g.node.body):
        return []  # falling off the end returns None: a falsy result that no test explains
    per = []
    for r in cand:
        fs = list(_facts(r, g))
        if r.value is not None and _const_truth(r.value) is None:
            _split_fact(r.value, truth, fs)
        per.append(fs)
    if not per:
        return []
    keyf = lambda t, pol: (unparse(t), pol)  # noqa: E731
    common = [(t, pol) for t, pol in per[0] if all(any(keyf(t, pol) == keyf(t2, p2) for t2, p2 in other) for other in per[1:])]
    return _expand_facts(p, g, common, cn, depth - 1)


def _expand_facts(p, f, facts, ctxnames, depth: int = 2) -> list:
    """[(atom, polarity, function the atom belongs to, names denoting the handler's context there)]: `facts` of `f` with
    every atom that is a call of a module helper replaced by what the helper's result implies (_result_facts)."""
    out = []
    todo = list(facts)
    budget = 32
    while todo:
        t, pol = todo.pop(0)
        e = t.value if isinstance(t, ast.NamedExpr) else t
        if isinstance(e, ast.Name) and budget > 0:
            # a boolean temporary with one definition (`found = a in b; if found:` / `_ret = a in b; return _ret`) stands
            # for the test it was computed from: decompose that test so that its polarity is read, not only its operands
            ds = defs_of(f, e.id)
            if len(ds) == 1 and ds[0].kind in ("assign", "walrus") and ds[0].index is None and isinstance(
                    ds[0].value, (ast.Compare, ast.BoolOp, ast.UnaryOp, ast.Call, ast.NamedExpr)):
                budget -= 1
                sub2: list = []
                _split_fact(ds[0].value, pol, sub2)
                todo[0:0] = sub2
                continue
        sub = _result_facts(p, f, e, pol, ctxnames, depth) if depth > 0 and isinstance(e, ast.Call) else None
        if sub:
            out.extend(sub)
        else:
            out.append((t, pol, f, frozenset(ctxnames)))
    return out


def _denotes_obj(f, expr, use, src_stmt, depth: int = 4) -> bool:
    """`expr` (evaluated at `use`) is the object bound by the assignment `src_stmt`: the assigned name itself or a local
    alias of it, every reaching definition of which is that assignment / a plain copy of such a name."""
    if depth < 0 or not isinstance(expr, ast.Name):
        return False
    ds = reaching_defs(f, expr.id, use)
    return bool(ds) and all(
        d.kind in ("assign", "walrus") and d.index is None and (d.stmt is src_stmt or _denotes_obj(f, d.value, d.value, src_stmt, depth - 1))
        for d in ds
    )


def _denotes_attr(f, expr, use, src_stmt, attr: str, depth: int = 4) -> bool:
    """The value of `expr` at `use` is `<object of src_stmt>.<attr>` on every path: the attribute itself, a local
    temporary all of whose reaching definitions are such a value (`res = engine.deps; return res`), a value-preserving
    copy (`set(x)`, `x.copy()`), or a conditional expression both arms of which are."""
    if depth < 0 or expr is None:
        return False
    if isinstance(expr, ast.Attribute):
        return expr.attr == attr and _denotes_obj(f, expr.value, use, src_stmt)
    if isinstance(expr, ast.Name):
        ds = reaching_defs(f, expr.id, use)
        return bool(ds) and all(
            d.kind in ("assign", "walrus") and d.index is None and _denotes_attr(f, d.value, d.value, src_stmt, attr, depth - 1) for d in ds
        )
    if isinstance(expr, ast.NamedExpr):
        return _denotes_attr(f, expr.value, use, src_stmt, attr, depth - 1)
    if isinstance(expr, ast.IfExp):
        return _denotes_attr(f, expr.body, use, src_stmt, attr, depth - 1) and _denotes_attr(f, expr.orelse, use, src_stmt, attr, depth - 1)
    if isinstance(expr, ast.Call) and not expr.keywords:
        if isinstance(expr.func, ast.Name) and expr.func.id == "set" and len(expr.args) == 1:
            return _denotes_attr(f, expr.args[0], use, src_stmt, attr, depth - 1)
        if isinstance(expr.func, ast.Attribute) and expr.func.attr == "copy" and not expr.args:
            return _denotes_attr(f, expr.func.value, use, src_stmt, attr, depth - 1)
    return False


def r4(ctx):
    p = ctx.prog
    own = _own_methods(p)
    # member handlers: receiver tested, member added
    for hname, member_acc in (("enterMemberDotExpression", "identifierName"), ("enterMemberIndexExpression", "expressionSequence")):
        h = own.get(hname)
        ctx.require(h is not None, f"C31.R4: {hname} vanished")
        adds = [c for c in h.calls() if isinstance(c.func, ast.Attribute) and c.func.attr == "add" and unparse(c.func.value) == "self.deps"]
        ctx.ob("R4", f"{hname} records the accessed member", bool(adds), func=h, node=h.node, instance=f"{hname}:adds",
               message=f"{hname} never adds to self.deps")
        for a in adds:
            arg_acc = _accessors_in(p, h, a.args[0]) if a.args else set()
            guard_acc = set()
            tracked = False
            via = set()
            # a test that is a call of a helper of the module (`if self._is_global_member(ctx):`) is read as the facts its
            # result implies, with the helper's parameter standing for the handler's ctx
            for t, pol, g, cn in _expand_facts(p, h, _facts(a, h), frozenset({"ctx"})):
                if pol:
                    acc = _accessors_in(p, g, t, cn)
                    if any(isinstance(c.func, ast.Attribute) and c.func.attr in ("global_names",) for c in calls_deep(g, t)) or "self.names" in unparse(t):
                        tracked = True
                        guard_acc |= acc
                        if g is not h:
                            via.add(g.name)
            ok = member_acc in arg_acc and "singleExpression" not in arg_acc and tracked and guard_acc == {"singleExpression"}
            followed = f" (test followed into the helper {', '.join(sorted(via))})" if via else ""
            ctx.ob("R4", f"{hname}: receiver (singleExpression) is tested, member ({member_acc}) is added{followed}", ok, func=h, node=a,
                   instance=f"{hname}:roles",
                   message=f"{hname}: dependency is taken from ctx.{sorted(arg_acc)} under a tracked-name test of ctx.{sorted(guard_acc)}{followed} (expected member={member_acc}, receiver=singleExpression)")
    # alias branch of the assignment handler
    h = own.get("enterAssignmentExpression")
    if h is not None:
        adds = _calls_on_names(h, "add_name")
        ok = False
        for a in adds:
            arg = a.args[0] if a.args else None
            if not isinstance(arg, ast.Name):
                continue
            lsrc = {unparse(c.args[0]) for c in calls_deep(h, arg) if isinstance(c.func, ast.Attribute) and c.func.attr == "getChild" and c.args}
            for t, pol in _facts(a, h):
                if pol and isinstance(t, ast.Compare) and len(t.ops) == 1 and isinstance(t.ops[0], ast.In) and unparse(t.comparators[0]) == "self.names":
                    rsrc = {unparse(c.args[0]) for c in calls_deep(h, t.left) if isinstance(c.func, ast.Attribute) and c.func.attr == "getChild" and c.args}
                    if lsrc == {"0"} and rsrc == {"2"}:
                        ok = True
        ctx.ob("R4", "assignment handler: left name becomes an alias when the right name is tracked", ok, func=h, node=h.node,
               instance="enterAssignmentExpression:alias-branch",
               message="enterAssignmentExpression has no branch `if <name of child 2> in self.names: self.names.add_name(<name of child 0>)`")
    # resolver merges the listener's result
    f = p.func(f"{RESOLVER}.eval")
    lst = [n for n in f.body_nodes() if isinstance(n, ast.Assign) and is_call_to(p, f, n.value, LISTENER) and isinstance(n.targets[0], ast.Name)]
    ctx.require(len(lst) == 1, "C31.R4: DependencyResolver.eval no longer creates one CWLDependencyListener")
    lv = lst[0].targets[0].id
    walked = any(isinstance(c.func, ast.Attribute) and c.func.attr == "walk" and c.args and isinstance(c.args[0], ast.Name) and c.args[0].id == lv for c in f.calls())
    merged = any(
        (isinstance(n, ast.AugAssign) and isinstance(n.op, ast.BitOr) and unparse(n.target) == "self.deps" and unparse(n.value) == f"{lv}.deps")
        or (isinstance(n, ast.Call) and isinstance(n.func, ast.Attribute) and n.func.attr == "update" and unparse(n.func.value) == "self.deps" and n.args and unparse(n.args[0]) == f"{lv}.deps")
        or (isinstance(n, ast.Assign) and unparse(n.targets[0]) == "self.deps" and f"{lv}.deps" in unparse(n.value) and "self.deps" in unparse(n.value))
        for n in f.body_nodes()
    )
    ctx.ob("R4", "DependencyResolver.eval walks the parse tree with the listener", walked, func=f, node=f.node, instance="eval:walk")
    ctx.ob("R4", "DependencyResolver.eval merges listener.deps into self.deps", merged, func=f, node=f.node, instance="eval:merge",
           message="the dependencies collected by the listener are dropped (self.deps is not updated from listener.deps)")
    # regex path
    f = p.func(f"{RESOLVER}.regex_eval")
    adds = [c for c in f.calls() if isinstance(c.func, ast.Attribute) and c.func.attr == "add" and unparse(c.func.value) == "self.deps"]
    ok = False
    for a in adds:
        arg = a.args[0] if a.args else None
        if isinstance(arg, ast.Name) and any(is_call_to(p, f, d.value, f"{MOD}._extract_key") for d in defs_of(f, arg.id) if d.value is not None):
            ok = True
    ctx.ob("R4", "regex_eval adds the key extracted from the parameter reference", ok, func=f, node=f.node, instance="regex_eval:adds")
    # resolve_dependencies returns the engine's deps
    f = p.func(f"{CWLUTILS}.resolve_dependencies")
    eng = [n for n in f.body_nodes() if isinstance(n, ast.Assign) and is_call_to(p, f, n.value, RESOLVER) and isinstance(n.targets[0], ast.Name)]
    ctx.require(len(eng) == 1, "C31.R4: resolve_dependencies no longer builds one DependencyResolver")
    ev = eng[0].targets[0].id
    handed = any(any(k.arg == "js_engine" and isinstance(k.value, ast.Name) and k.value.id == ev for k in c.keywords) for c in f.calls())
    returned = any(isinstance(n, ast.Return) and n.value is not None and _denotes_attr(f, n.value, n.value, eng[0], "deps") for n in f.body_nodes())
    ctx.ob("R4", "resolve_dependencies returns the deps of the engine handed to interpolate", handed and returned, func=f, node=f.node,
           instance="resolve_dependencies:result")
    # every parameter a caller supplies reaches the scan: the interpolate call that receives the engine, or the
    # engine's constructor (a parameter that is accepted but no longer forwarded silently narrows what is scanned)
    sinks = [c for c in f.calls() if any(k.arg == "js_engine" and isinstance(k.value, ast.Name) and k.value.id == ev for k in c.keywords)]
    if sinks:
        sink_exprs = [a for c in [*sinks, eng[0].value] for a in [*c.args, *[k.value for k in c.keywords]]]
        read = set()
        for e in sink_exprs:
            read |= _names_deep(f, e)
        for prm in f.params:
            ctx.ob("R4", f"resolve_dependencies: parameter `{prm}` reaches the scan (interpolate / DependencyResolver arguments)", prm in read,
                   func=f, node=sinks[0], instance=f"resolve_dependencies:param:{prm}",
                   message=f"resolve_dependencies accepts `{prm}` (its callers supply it) but no argument of the interpolate(.., js_engine={ev}) call "
                   f"or of DependencyResolver(..) is computed from it: what the callers pass is ignored by the dependency scan")
        # the code handed to the listener contains the expression library: the library argument of jshead is
        # computed from a parameter of resolve_dependencies (inputs read inside library functions are dependencies)
        for c in sinks:
            jl = [k.value for k in c.keywords if k.arg == "jslib"]
            heads = [h for v in jl for h in calls_deep(f, v) if is_call_to(p, f, h, "cwl_utils.expression.jshead", "jshead")]
            libs = []
            for h in heads:
                la = h.args[0] if h.args else next((k.value for k in h.keywords if k.arg == "engine_config"), None)
                if la is not None:
                    libs.append(la)
            if heads:
                ok = bool(libs) and all(_names_deep(f, la) & set(f.params) for la in libs)
                shown = ", ".join(unparse(h)[:70] for h in heads)
            else:
                # no jshead: the jslib text itself must be computed from a parameter (not merely selected by one)
                ok = bool(jl) and all(_names_deep(f, v, values_only=True) & set(f.params) for v in jl)
                shown = ", ".join(unparse(v)[:70] for v in jl) or "<no jslib argument>"
            ctx.ob("R4", "resolve_dependencies: the scanned jslib is built from the caller's expression library", ok, func=f, node=c,
                   instance="resolve_dependencies:jslib-from-expression-lib",
                   message=f"the jslib handed to the dependency scan is `{shown}`: its library list is not computed from a parameter of "
                   "resolve_dependencies, so the bodies of the expressionLib functions are not scanned and every `inputs` field read "
                   "through a library helper is missing from the dependency set")


# B17-5: the receiver test of both member handlers extracted into a predicate method of the listener whose parameter is
# declared with the generic antlr4.ParserRuleContext (text of the class as printed by ast.unparse)
_MEMBER_TEST = "if self._get_name(ctx.singleExpression()) in self.names.global_names():"
_DOT_HEAD = "    def enterMemberDotExpression(self, ctx: ECMAScriptParser.MemberDotExpressionContext) -> None:\n        "
_DOT_TAIL = ("\n            if (dep := self._get_name(ctx.identifierName())):\n                self.deps.add(dep)\n\n"
             "    def enterMemberIndexExpression(self, ctx: ECMAScriptParser.MemberIndexExpressionContext) -> None:\n        ")
_MEMBERS_OLD = _DOT_HEAD + _MEMBER_TEST + _DOT_TAIL + _MEMBER_TEST


def _extracted(body: str, test: str = "if self._is_global_member(ctx):", name: str = "_is_global_member", dot_test: str | None = None) -> str:
    helper = f"    def {name}(self, ctx: antlr4.ParserRuleContext) -> bool:\n" + "".join(f"        {ln}\n" for ln in body.split("\n")) + "\n"
    return helper + _DOT_HEAD + (dot_test or test) + _DOT_TAIL + test


RULES = [("R1", r1), ("R2", r2), ("R3", r3), ("R4", r4)]
FLOORS = {"R1": 14, "R2": 5, "R3": 7, "R4": 13}

VARIANTS = [
    # ---- breaking (today's tree already violates R1/R2/R3: each variant must add a finding)
    V("assignment handler removed", FILE, LISTENER, "def enterAssignmentExpression(", "def _unused_assignment(", "R2", control=True),
    V("function declaration handler removed", FILE, LISTENER, "def enterFunctionDeclaration(", "def _unused_enter(", "R2"),
    V("another Optional helper dereferenced", FILE, f"{LISTENER}.enterMemberDotExpression", "if (dep := self._get_name(ctx.identifierName())):",
      "if (dep := self._get_name(ctx.identifierName()).strip()):", "R1", control=True),
    V("Optional result bound then dereferenced", FILE, f"{LISTENER}.enterAssignmentExpression", "if left_name:\n            if left_name in self.names:",
      "if left_name.strip() in self.names:\n            if left_name in self.names:", "R1"),
    V("accessor of one alternative on a generic expression", FILE, f"{LISTENER}.enterMemberDotExpression",
      "if self._get_name(ctx.singleExpression()) in self.names.global_names():",
      "if self._get_name(ctx.singleExpression().Identifier()) in self.names.global_names():", "R1"),
    V("accessor called on the list of parameter tokens", FILE, f"{LISTENER}.enterFunctionDeclaration",
      "for param in parameters.Identifier():", "for param in parameters.Identifier().getChildren():", "R1"),
    V("exit handler does not pop the scope", FILE, f"{LISTENER}.exitFunctionDeclaration", "self.names.delete_scope()", "pass", "R3", control=True),
    V("scope pushed in the assignment handler", FILE, f"{LISTENER}.enterAssignmentExpression", "left = ctx.getChild(0)", "self.names.add_scope()\n    left = ctx.getChild(0)", "R3"),
    V("dot handler adds the receiver name", FILE, f"{LISTENER}.enterMemberDotExpression", "if (dep := self._get_name(ctx.identifierName())):", "if (dep := self._get_name(ctx.singleExpression())):", "R4"),
    V("dot handler tests the member name", FILE, f"{LISTENER}.enterMemberDotExpression", "if self._get_name(ctx.singleExpression()) in", "if self._get_name(ctx.identifierName()) in", "R4"),
    V("dot handler ignores the tracked names", FILE, f"{LISTENER}.enterMemberDotExpression", "if self._get_name(ctx.singleExpression()) in self.names.global_names():", "if self._get_name(ctx.singleExpression()):", "R4"),
    V("alias branch removed", FILE, f"{LISTENER}.enterAssignmentExpression", "if right_name in self.names:\n                    self.names.add_name(left_name)", "pass", "R4"),
    V("alias branch swaps the operands", FILE, f"{LISTENER}.enterAssignmentExpression", "left = ctx.getChild(0)\n    right = ctx.getChild(2)", "left = ctx.getChild(2)\n    right = ctx.getChild(0)", "R4"),
    V("listener result not merged", FILE, f"{RESOLVER}.eval", "self.deps |= listener.deps", "pass", "R4"),
    V("regex_eval drops the key", FILE, f"{RESOLVER}.regex_eval", "self.deps.add(key)", "pass", "R4"),
    V("resolve_dependencies returns a fresh set", CUFILE, f"{CWLUTILS}.resolve_dependencies", "return engine.deps", "return set()", "R4", count=1),
    # seeded C31-1: the shadowing parameter is registered before the function's scope exists
    V("shadow registered before the scope push", FILE, f"{LISTENER}.enterFunctionDeclaration",
      "self.names.add_scope()\n    parameters = ctx.formalParameterList()\n    if parameters:\n        for param in parameters.Identifier():\n            if (name := param.symbol.text) in self.names:\n                self.names.add_name(name)",
      "parameters = ctx.formalParameterList()\n    if parameters:\n        for param in parameters.Identifier():\n            if (name := param.symbol.text) in self.names:\n                self.names.add_name(name)\n    self.names.add_scope()",
      "R3"),
    V("scope pushed after the parameter loop header", FILE, f"{LISTENER}.enterFunctionDeclaration",
      "self.names.add_scope()\n    parameters = ctx.formalParameterList()\n    if parameters:",
      "parameters = ctx.formalParameterList()\n    if not parameters:\n        self.names.add_scope()\n    if parameters:", "R3"),
    V("scope pushed only for functions with parameters", FILE, f"{LISTENER}.enterFunctionDeclaration",
      "self.names.add_scope()\n    parameters = ctx.formalParameterList()\n    if parameters:",
      "parameters = ctx.formalParameterList()\n    if parameters:\n        self.names.add_scope()", "R3"),
    V("name removed after the scope is popped", FILE, f"{LISTENER}.exitFunctionDeclaration", "self.names.delete_scope()",
      "self.names.delete_scope()\n    if 'arguments' in self.names:\n        self.names.delete_name('arguments')", "R3"),
    # seeded C31-3: the expression library is no longer part of the scanned code
    V("expressionLib omitted from the scanned jslib", CUFILE, f"{CWLUTILS}.resolve_dependencies",
      "jslib=cwl_utils.expression.jshead(expression_lib or [], context) if full_js else ''",
      "jslib=cwl_utils.expression.jshead([], context) if full_js else ''", "R4", control=True),
    V("jslib argument dropped", CUFILE, f"{CWLUTILS}.resolve_dependencies",
      "jslib=cwl_utils.expression.jshead(expression_lib or [], context) if full_js else '', ", "", "R4"),
    V("library list emptied through a temporary", CUFILE, f"{CWLUTILS}.resolve_dependencies",
      "engine = DependencyResolver(context_key)\n        cwl_utils.expression.interpolate(expression, context, jslib=cwl_utils.expression.jshead(expression_lib or [], context) if full_js else ''",
      "engine = DependencyResolver(context_key)\n        libs = []\n        cwl_utils.expression.interpolate(expression, context, jslib=cwl_utils.expression.jshead(libs, context) if full_js else ''", "R4"),
    V("strip_whitespace no longer forwarded", CUFILE, f"{CWLUTILS}.resolve_dependencies", "strip_whitespace=strip_whitespace", "strip_whitespace=True", "R4"),
    V("context_key no longer forwarded", CUFILE, f"{CWLUTILS}.resolve_dependencies", "engine = DependencyResolver(context_key)", "engine = DependencyResolver('inputs')", "R4"),
    # merged / guard-clause shapes of the member and alias tests (benign corpus B5-6): the facts must still be the right ones
    V("merged dot test joined with `or`", FILE, f"{LISTENER}.enterMemberDotExpression", "if self._get_name(ctx.singleExpression()) in self.names.global_names():\n        if (dep := self._get_name(ctx.identifierName())):\n            self.deps.add(dep)",
      "if self._get_name(ctx.singleExpression()) in self.names.global_names() or (dep := self._get_name(ctx.identifierName())):\n        self.deps.add(dep)", "R4"),
    V("merged dot test reads the member on both conjuncts", FILE, f"{LISTENER}.enterMemberDotExpression", "if self._get_name(ctx.singleExpression()) in self.names.global_names():\n        if (dep := self._get_name(ctx.identifierName())):\n            self.deps.add(dep)",
      "if self._get_name(ctx.identifierName()) in self.names.global_names() and (dep := self._get_name(ctx.identifierName())):\n        self.deps.add(dep)", "R4"),
    V("guard clause with the wrong polarity", FILE, f"{LISTENER}.enterMemberDotExpression", "if self._get_name(ctx.singleExpression()) in self.names.global_names():\n        if (dep := self._get_name(ctx.identifierName())):\n            self.deps.add(dep)",
      "if self._get_name(ctx.singleExpression()) in self.names.global_names():\n        return\n    if (dep := self._get_name(ctx.identifierName())):\n        self.deps.add(dep)", "R4"),
    V("merged alias test joined with `or`", FILE, f"{LISTENER}.enterAssignmentExpression", "elif isinstance(right, ECMAScriptParser.SingleExpressionContext):\n                right_name = self._get_name(right)\n                if right_name in self.names:\n                    self.names.add_name(left_name)",
      "elif isinstance(right, ECMAScriptParser.SingleExpressionContext) or self._get_name(right) in self.names:\n                self.names.add_name(left_name)", "R4"),
    V("merged alias test reads the left operand", FILE, f"{LISTENER}.enterAssignmentExpression", "elif isinstance(right, ECMAScriptParser.SingleExpressionContext):\n                right_name = self._get_name(right)\n                if right_name in self.names:\n                    self.names.add_name(left_name)",
      "elif isinstance(right, ECMAScriptParser.SingleExpressionContext) and self._get_name(left) in self.names:\n                self.names.add_name(left_name)", "R4"),
    V("Optional result dereferenced under the negated test", FILE, f"{LISTENER}.enterAssignmentExpression", "if left_name:\n            if left_name in self.names:",
      "if not left_name:\n            if left_name.strip() in self.names:", "R1"),
    # seeded C31-mut1: global_names() works on the live global scope instead of a copy
    V("global scope subtracted in place (no copy + `-=`)", UFILE, f"{NAMES}.global_names", "names = self.stack[0].copy()\n    if len(self.stack) > 1:\n        for scope in self.stack[1:]:\n            names = names.difference(scope)",
      "names = self.stack[0]\n    for scope in self.stack[1:]:\n        names -= scope", "R3"),
    V("global scope subtracted with difference_update", UFILE, f"{NAMES}.global_names", "names = self.stack[0].copy()\n    if len(self.stack) > 1:\n        for scope in self.stack[1:]:\n            names = names.difference(scope)",
      "names = self.stack[0]\n    if len(self.stack) > 1:\n        for scope in self.stack[1:]:\n            names.difference_update(scope)", "R3"),
    V("global scope subtracted with the unbound set method", UFILE, f"{NAMES}.global_names", "names = self.stack[0].copy()\n    if len(self.stack) > 1:\n        for scope in self.stack[1:]:\n            names = names.difference(scope)",
      "names = self.stack[0]\n    for scope in self.stack[1:]:\n        set.difference_update(names, scope)", "R3"),
    V("stack element updated through a subscript", UFILE, f"{NAMES}.global_names", "names = names.difference(scope)",
      "self.stack[0] -= scope\n            names = self.stack[0]", "R3"),
    V("global scope reached through a reversed view and a conditional alias", UFILE, f"{NAMES}.global_names", "names = self.stack[0].copy()\n    if len(self.stack) > 1:\n        for scope in self.stack[1:]:\n            names = names.difference(scope)",
      "scopes = list(self.stack)\n    names = scopes[0] if scopes else set()\n    for scope in scopes[1:]:\n        names -= scope", "R3"),
    V("membership test removes the name it finds", UFILE, f"{NAMES}.__contains__", "if name in scope:\n            return True",
      "if name in scope:\n            scope.discard(name)\n            return True", "R3"),
    V("query pops the innermost scope through a sibling method", UFILE, f"{NAMES}.global_names", "return names", "self.delete_scope()\n    return names", "R3"),
    V("query truncates the stack", UFILE, f"{NAMES}.global_names", "return names", "del self.stack[1:]\n    return names", "R3"),
    # tempret shape of resolve_dependencies: the temporary must still be the engine's deps when it is returned
    V("returned temporary overwritten with a fresh set", CUFILE, f"{CWLUTILS}.resolve_dependencies", "return engine.deps",
      "_sf_ret = engine.deps\n        _sf_ret = set()\n        return _sf_ret", "R4"),
    V("returned temporary is another attribute of the engine", CUFILE, f"{CWLUTILS}.resolve_dependencies", "return engine.deps",
      "_sf_ret = engine.context_key\n        return _sf_ret", "R4"),
    # predicate extraction (benign corpus B17-5): the helper is read through the resolved call, so it must still test the receiver
    V("extracted predicate tests the member name", FILE, LISTENER, _MEMBERS_OLD,
      _extracted("return self._get_name(ctx.identifierName()) in self.names.global_names()"), "R4"),
    V("extracted predicate calls an accessor one of its call sites lacks", FILE, LISTENER, _MEMBERS_OLD,
      _extracted("return self._get_name(ctx.identifierName()) in self.names.global_names()"), "R1"),
    V("extracted predicate has the wrong polarity", FILE, LISTENER, _MEMBERS_OLD,
      _extracted("return self._get_name(ctx.singleExpression()) not in self.names.global_names()"), "R4"),
    V("extracted predicate ignores the tracked names", FILE, LISTENER, _MEMBERS_OLD,
      _extracted("return bool(self._get_name(ctx.singleExpression()))"), "R4"),
    V("extracted predicate is also true on an untested path", FILE, LISTENER, _MEMBERS_OLD,
      _extracted("if ctx.getChildCount() > 3:\n    return True\nreturn self._get_name(ctx.singleExpression()) in self.names.global_names()"), "R4"),
    V("extracted predicate returns a negated temporary", FILE, LISTENER, _MEMBERS_OLD,
      _extracted("found = self._get_name(ctx.singleExpression()) not in self.names.global_names()\nreturn found"), "R4"),
    V("receiver test negated through a boolean temporary", FILE, f"{LISTENER}.enterMemberDotExpression", _MEMBER_TEST,
      "tracked = self._get_name(ctx.singleExpression()) not in self.names.global_names()\n    if tracked:", "R4"),
    V("extracted predicate negated at the call sites", FILE, LISTENER, _MEMBERS_OLD,
      _extracted("return self._get_name(ctx.singleExpression()) in self.names.global_names()", test="if not self._is_global_member(ctx):"), "R4"),
    V("extracted predicate handed the member context", FILE, LISTENER, _MEMBERS_OLD,
      _extracted("return self._get_name(ctx.singleExpression()) in self.names.global_names()", dot_test="if self._is_global_member(ctx.identifierName()):"), "R1"),
    # ---- benign
    V("benign: receiver test extracted into a predicate method with a generic parameter type (B17-5)", FILE, LISTENER, _MEMBERS_OLD,
      _extracted("return self._get_name(ctx.singleExpression()) in self.names.global_names()"), None),
    V("benign: extracted predicate with a temporary and a guard clause", FILE, LISTENER, _MEMBERS_OLD,
      _extracted("receiver = self._get_name(ctx.singleExpression())\nif not receiver:\n    return False\nreturn receiver in self.names.global_names()"), None),
    V("benign: extracted predicate returns a boolean temporary (tempret)", FILE, LISTENER, _MEMBERS_OLD,
      _extracted("_sf_ret = self._get_name(ctx.singleExpression()) in self.names.global_names()\nreturn _sf_ret"), None),
    V("benign: receiver test through a boolean temporary", FILE, f"{LISTENER}.enterMemberDotExpression", _MEMBER_TEST,
      "tracked = self._get_name(ctx.singleExpression()) in self.names.global_names()\n    if tracked:", None),
    V("benign: extracted predicate returns True / False from an if statement", FILE, LISTENER, _MEMBERS_OLD,
      _extracted("if self._get_name(ctx.singleExpression()) in self.names.global_names():\n    return True\nreturn False"), None),
    V("benign: extracted negative predicate, negated at the call sites", FILE, LISTENER, _MEMBERS_OLD,
      _extracted("return self._get_name(ctx.singleExpression()) not in self.names.global_names()", test="if not self._is_local_member(ctx):", name="_is_local_member"), None),
    V("benign: token helpers generalised into one parameterised helper (B17-5)", FILE, LISTENER,
      "    @staticmethod\n    def _get_index(ctx: antlr4.ParserRuleContext) -> str | None:\n        token = ctx.getToken(ECMAScriptParser.StringLiteral, 0)\n        return token.symbol.text if token else None\n\n"
      "    @staticmethod\n    def _get_name(ctx: antlr4.ParserRuleContext) -> str | None:\n        token = ctx.getToken(ECMAScriptParser.Identifier, 0)\n        return token.symbol.text if token else None\n",
      "    @staticmethod\n    def _get_token_text(ctx: antlr4.ParserRuleContext, token_type: int) -> str | None:\n        token = ctx.getToken(token_type, 0)\n        return token.symbol.text if token else None\n\n"
      "    @staticmethod\n    def _get_index(ctx: antlr4.ParserRuleContext) -> str | None:\n        return CWLDependencyListener._get_token_text(ctx, ECMAScriptParser.StringLiteral)\n\n"
      "    @staticmethod\n    def _get_name(ctx: antlr4.ParserRuleContext) -> str | None:\n        return CWLDependencyListener._get_token_text(ctx, ECMAScriptParser.Identifier)\n", None),
    V("benign: parameter list fetched before the scope push", FILE, f"{LISTENER}.enterFunctionDeclaration",
      "self.names.add_scope()\n    parameters = ctx.formalParameterList()", "parameters = ctx.formalParameterList()\n    self.names.add_scope()", None),
    V("benign: shadow loop without the outer test, renamed locals", FILE, f"{LISTENER}.enterFunctionDeclaration",
      "parameters = ctx.formalParameterList()\n    if parameters:\n        for param in parameters.Identifier():\n            if (name := param.symbol.text) in self.names:\n                self.names.add_name(name)",
      "plist = ctx.formalParameterList()\n    tokens = plist.Identifier() if plist else []\n    for tok in tokens:\n        pname = tok.symbol.text\n        if pname in self.names:\n            self.names.add_name(pname)", None),
    V("benign: library list and jslib through temporaries", CUFILE, f"{CWLUTILS}.resolve_dependencies",
      "engine = DependencyResolver(context_key)\n        cwl_utils.expression.interpolate(expression, context, jslib=cwl_utils.expression.jshead(expression_lib or [], context) if full_js else ''",
      "engine = DependencyResolver(context_key)\n        libs = list(expression_lib) if expression_lib else []\n        head = cwl_utils.expression.jshead(libs, context) if full_js else ''\n        cwl_utils.expression.interpolate(expression, context, jslib=head", None),
    V("benign: jslib built in an if statement", CUFILE, f"{CWLUTILS}.resolve_dependencies",
      "engine = DependencyResolver(context_key)\n        cwl_utils.expression.interpolate(expression, context, jslib=cwl_utils.expression.jshead(expression_lib or [], context) if full_js else ''",
      "engine = DependencyResolver(context_key)\n        head = ''\n        if full_js:\n            head = cwl_utils.expression.jshead(expression_lib or [], context)\n        cwl_utils.expression.interpolate(expression, context, jslib=head", None),
    V("benign: literal access narrowed by isinstance and None-test (partial S8 repair)", FILE, f"{LISTENER}.enterMemberIndexExpression",
      "if (dep := self._get_index(expr.literal()).strip('\\'\"')):\n                self.deps.add(dep)",
      "if isinstance(expr, ECMAScriptParser.LiteralExpressionContext):\n                index = self._get_index(expr.literal())\n                if index:\n                    self.deps.add(index.strip('\\'\"'))", None),
    V("benign: rename loop variable", FILE, f"{LISTENER}.enterMemberIndexExpression",
      "for expr in ctx.expressionSequence().singleExpression():\n            if (dep := self._get_index(expr.literal())",
      "for key_expr in ctx.expressionSequence().singleExpression():\n            if (dep := self._get_index(key_expr.literal())", None),
    V("benign: receiver name into a local", FILE, f"{LISTENER}.enterMemberDotExpression",
      "if self._get_name(ctx.singleExpression()) in self.names.global_names():",
      "receiver = self._get_name(ctx.singleExpression())\n    if receiver in self.names.global_names():", None),
    V("benign: merge with update()", FILE, f"{RESOLVER}.eval", "self.deps |= listener.deps", "self.deps.update(listener.deps)", None),
    V("benign: rename left/right", FILE, f"{LISTENER}.enterAssignmentExpression", "right_name", "rhs_name", None, count=5),
    # B5-6: nested ifs merged into one `and` condition; the same tests as guard clauses / De Morgan
    V("benign: dot handler tests merged with `and` (B5-6)", FILE, f"{LISTENER}.enterMemberDotExpression", "if self._get_name(ctx.singleExpression()) in self.names.global_names():\n        if (dep := self._get_name(ctx.identifierName())):\n            self.deps.add(dep)",
      "if self._get_name(ctx.singleExpression()) in self.names.global_names() and (dep := self._get_name(ctx.identifierName())):\n        self.deps.add(dep)", None),
    V("benign: alias branch tests merged with `and` (B5-6)", FILE, f"{LISTENER}.enterAssignmentExpression", "elif isinstance(right, ECMAScriptParser.SingleExpressionContext):\n                right_name = self._get_name(right)\n                if right_name in self.names:\n                    self.names.add_name(left_name)",
      "elif isinstance(right, ECMAScriptParser.SingleExpressionContext) and self._get_name(right) in self.names:\n                self.names.add_name(left_name)", None),
    V("benign: dot handler with guard clauses", FILE, f"{LISTENER}.enterMemberDotExpression", "if self._get_name(ctx.singleExpression()) in self.names.global_names():\n        if (dep := self._get_name(ctx.identifierName())):\n            self.deps.add(dep)",
      "if self._get_name(ctx.singleExpression()) not in self.names.global_names():\n        return\n    dep = self._get_name(ctx.identifierName())\n    if not dep:\n        return\n    self.deps.add(dep)", None),
    V("benign: dot handler with one De Morgan guard clause", FILE, f"{LISTENER}.enterMemberDotExpression", "if self._get_name(ctx.singleExpression()) in self.names.global_names():\n        if (dep := self._get_name(ctx.identifierName())):\n            self.deps.add(dep)",
      "dep = self._get_name(ctx.identifierName())\n    if not dep or self._get_name(ctx.singleExpression()) not in self.names.global_names():\n        return\n    self.deps.add(dep)", None),
    V("benign: outer tests of the assignment handler merged, name test as guard clause", FILE, f"{LISTENER}.enterAssignmentExpression",
      "if left_name:\n            if left_name in self.names:", "if not left_name:\n            return\n        if True:\n            if left_name.strip() in self.names:", None),
    V("benign: debug logging in the dot handler", FILE, f"{LISTENER}.enterMemberDotExpression", "if (dep := self._get_name(ctx.identifierName())):",
      "print('member access')\n        if (dep := self._get_name(ctx.identifierName())):", None),
    # mechanical `tempret` of streamflow/cwl/utils.py: return <expr> -> _sf_ret = <expr>; return _sf_ret
    V("benign: engine deps returned through a temporary (tempret)", CUFILE, f"{CWLUTILS}.resolve_dependencies", "return engine.deps",
      "_sf_ret = engine.deps\n        return _sf_ret", None),
    V("benign: engine alias, deps copied into the result", CUFILE, f"{CWLUTILS}.resolve_dependencies", "return engine.deps",
      "resolver = engine\n        found = set(resolver.deps)\n        return found", None),
    # each half of seeded C31-mut1 alone leaves the scope stack untouched
    V("benign: in-place subtraction on the copy", UFILE, f"{NAMES}.global_names", "names = names.difference(scope)", "names -= scope", None),
    V("benign: no copy but a new set per subtraction", UFILE, f"{NAMES}.global_names", "names = self.stack[0].copy()\n    if len(self.stack) > 1:\n        for scope in self.stack[1:]:\n            names = names.difference(scope)",
      "names = self.stack[0]\n    for scope in self.stack[1:]:\n        names = names - scope", None),
    V("benign: copy made with set(), difference_update on it", UFILE, f"{NAMES}.global_names", "names = self.stack[0].copy()\n    if len(self.stack) > 1:\n        for scope in self.stack[1:]:\n            names = names.difference(scope)",
      "names = set(self.stack[0])\n    for inner in self.stack[1:]:\n        names.difference_update(inner)", None),
    V("benign: alias re-bound to a copy before the in-place update", UFILE, f"{NAMES}.global_names", "names = self.stack[0].copy()\n    if len(self.stack) > 1:\n        for scope in self.stack[1:]:\n            names = names.difference(scope)",
      "names = self.stack[0]\n    names = names.copy()\n    for scope in self.stack[1:]:\n        names -= scope", None),
    V("benign: a slice of the stack is reordered", UFILE, f"{NAMES}.global_names", "for scope in self.stack[1:]:",
      "inner = self.stack[1:]\n        inner.reverse()\n        for scope in inner:", None),
]
