"""C34 Exported run provenance is self-contained and consistent.

Clause decided: unique identifiers and file bookkeeping (necessary conditions only).

R1 `self.graph` is keyed by `@id`, and the exported `@graph` is exactly its values:
   a. every store `self.graph[K] = V` in RunCrateProvenanceManager and its subclasses (class table) has
      K == V["@id"]: either K *is* the expression `V["@id"]`, or V is / was bound to a dict whose `"@id"` entry
      (literal entry or the last `V["@id"] = E` that reaches the store) is the same pure expression as K with no
      operand rebound in between; an expression containing uuid4()/random/time is never "the same" twice;
      after the store the object's `@id` is not reassigned;
   b. every entry of the initial `self.graph = {...}` literal is keyed by its own `"@id"`;
   c. `create_archive` exports `"@graph": list(self.graph.values())` (no filter, no keys) and it is that metadata
      object which is serialised with json.dumps into `ro-crate-metadata.json`.
R2 File entity <-> files_map: every dict literal with `"@type": "File"` built in those classes is paired with an
   insertion `self.files_map[<source path>] = <that @id>` -- in the same function, on every normal path that leaves
   the literal's statement (or dominating it); a function that only *returns* such literals (`_list_dir`) must have
   every external caller hand the result to a registrar method that stores `self.files_map[...] = part["@id"]` for
   each element (`_rename_parts`).
R3 archive population: `create_archive` iterates `self.files_map.items()` and writes each entry as
   `archive.write(<key: source path>, <value: archive name>)`.

Undecided: presence/size/checksum of the files actually written, JSON-LD validity, completeness of inputs/outputs;
entities typed through a *list* (`["SoftwareApplication", "File"]`, workflow templates) are outside R2 (their `@id`
may carry a `#fragment` while the archive name is the file's basename) -- printed as an observation.
"""

from __future__ import annotations

import ast

from ..model import enclosing_stmt, parent, unparse
from ..selftest import V
from ._util_G import assign_nodes, const_str, expand, impure, is_call_to, norm

MOD = "streamflow.provenance.run_crate"
FILE = "streamflow/provenance/run_crate.py"
BASE = f"{MOD}.RunCrateProvenanceManager"
CWL = f"{MOD}.CWLRunCrateProvenanceManager"

META = {
    "explanation": (
        "Class-table enumeration of every store into self.graph / self.files_map in RunCrateProvenanceManager and its "
        "subclasses; def-use + CFG (reaching `@id` definitions, rebinding between definition and store, dominance / "
        "must-pass-through for the files_map pairing); shape of the exported `@graph` and of the archive-writing loop."
    ),
    "undecided": "presence, size and checksum of files in the archive; JSON-LD validity; that every input/output value is represented",
    "assumptions": ["a dict keyed by @id has unique @id values", "uuid4()/random/time based expressions differ per evaluation"],
}


def _classes(p):
    return [BASE, *p.subclasses(BASE)]


def _methods(p):
    out = []
    for cq in _classes(p):
        out.extend(p.classes[cq].methods.values())
    return out


def _is_self_attr(e, attr):
    return isinstance(e, ast.Attribute) and e.attr == attr and isinstance(e.value, ast.Name) and e.value.id == "self"


def _stores(f, attr):
    """[(stmt, key expr, value expr)] for `self.<attr>[K] = V`."""
    out = []
    for n in f.body_nodes():
        if isinstance(n, ast.Assign):
            tg, val = n.targets, n.value
        elif isinstance(n, ast.AnnAssign) and n.value is not None:
            tg, val = [n.target], n.value
        else:
            continue
        for t in tg:
            if isinstance(t, ast.Subscript) and _is_self_attr(t.value, attr):
                out.append((n, t.slice, val))
    return out


def _dict_get(d: ast.Dict, key: str):
    for k, v in zip(d.keys, d.values):
        if k is not None and const_str(k) == key:
            return v
    return None


def _is_id_of(e, name: str) -> bool:
    return isinstance(e, ast.Subscript) and isinstance(e.value, ast.Name) and e.value.id == name and const_str(e.slice) == "@id"


def _id_sources(f, name: str):
    """CFG nodes that define the `@id` of the dict bound to local `name`: (node id, expr, whole-dict?)."""
    g = f.cfg
    out = []
    for n in g.nodes.values():
        if n.kind != "stmt" or not isinstance(n.ast, (ast.Assign, ast.AnnAssign)):
            continue
        a = n.ast
        tg = a.targets if isinstance(a, ast.Assign) else [a.target]
        for t in tg:
            if isinstance(t, ast.Name) and t.id == name:
                if isinstance(a.value, ast.Dict):
                    out.append((n.id, _dict_get(a.value, "@id"), True))
                else:
                    out.append((n.id, None, True))  # rebinding to something opaque
            elif _is_id_of(t, name):
                out.append((n.id, a.value, False))
    return out


def _names(e) -> set[str]:
    return {n.id for n in ast.walk(e) if isinstance(n, ast.Name)} - {"self"}


def r1(ctx):
    p = ctx.prog
    total = 0
    for f in _methods(p):
        sts = _stores(f, "graph")
        if not sts:
            continue
        g = f.cfg
        for stmt, K, Vv in sts:
            total += 1
            sid = g.ids_of(stmt)
            ctx.require(bool(sid), f"C34.R1: store `{unparse(stmt)[:60]}` not in the CFG of {f.qualname}")
            sid = sid[0]
            ok, msg = False, ""
            inst = f"graph-store:{unparse(K)}"
            if isinstance(Vv, ast.Dict):
                e = _dict_get(Vv, "@id")
                if e is None:
                    msg = "stored literal has no \"@id\""
                elif impure(p, f, expand(f, e)) or impure(p, f, expand(f, K)):
                    msg = f"key `{unparse(K)}` and \"@id\": `{unparse(e)}` are evaluated separately and are not deterministic"
                elif norm(f, e) != norm(f, K):
                    msg = f"stored under `{unparse(K)}` but its \"@id\" is `{unparse(e)}`"
                else:
                    ok = True
            elif isinstance(Vv, ast.Name):
                X = Vv.id
                if _is_id_of(K, X):
                    ok = True
                else:
                    srcs = _id_sources(f, X)
                    reach_src = []
                    for nid, e, whole in srcs:
                        others = [o for o, _, _ in srcs if o != nid]
                        if nid != sid and g.path(nid, [sid], avoid=others) is not None:
                            reach_src.append((nid, e))
                    if not reach_src:
                        msg = f"stored under `{unparse(K)}`, which is not `{X}[\"@id\"]`, and no definition of {X}[\"@id\"] reaches the store"
                    else:
                        ok = True
                        for nid, e in reach_src:
                            if e is None:
                                ok, msg = False, f"`{X}` reaches the store without an \"@id\" ({g.nodes[nid].text(60)})"
                            elif impure(p, f, expand(f, e)) or impure(p, f, expand(f, K)):
                                ok, msg = False, f"key `{unparse(K)}` and `{X}[\"@id\"] = {unparse(e)}` are separate evaluations of a non-deterministic expression"
                            elif norm(f, e) != norm(f, K):
                                ok, msg = False, f"stored under `{unparse(K)}` but {X}[\"@id\"] is `{unparse(e)}`"
                            else:
                                for nm in _names(K) | _names(e):
                                    for d in assign_nodes(g, nm):
                                        if d not in (nid, sid) and d in g.reach([nid], avoid=[sid]) and sid in g.reach([d]):
                                            ok, msg = False, f"`{nm}` is rebound ({g.nodes[d].text(50)}) between `{X}[\"@id\"] = {unparse(e)}` and the store under `{unparse(K)}`"
                if ok:
                    # the @id must not change after the object was filed under it
                    rebinds = assign_nodes(g, X)
                    for nid, e, whole in _id_sources(f, X):
                        if not whole and nid != sid and g.path(sid, [nid], avoid=[r for r in rebinds if r != nid]) is not None:
                            ok, msg = False, f"`{X}[\"@id\"]` is reassigned ({g.nodes[nid].text(60)}) after the object was stored under its old @id"
            else:
                ctx.require(False, f"C34.R1: cannot interpret the value stored by `{unparse(stmt)[:80]}` in {f.qualname}")
            ctx.ob("R1", f"{f.name}: self.graph[{unparse(K)[:40]}] is keyed by the stored object's @id", ok, func=f, node=stmt, instance=inst,
                   message=f"{f.name}: object {msg}: the exported @graph can hold two entities with one @id, or an entity filed under a foreign key")
    ctx.require(total >= 10, f"C34.R1: only {total} stores into self.graph found")
    # b. initial literal
    init = p.classes[BASE].methods.get("__init__")
    ctx.require(init is not None, "C34.R1: RunCrateProvenanceManager.__init__ vanished")
    lit = None
    for n in init.body_nodes():
        if isinstance(n, (ast.Assign, ast.AnnAssign)):
            tg = n.targets if isinstance(n, ast.Assign) else [n.target]
            if any(_is_self_attr(t, "graph") for t in tg) and isinstance(n.value, ast.Dict):
                lit = n.value
    ctx.require(lit is not None, "C34.R1: initial `self.graph = {...}` literal not found")
    for k, v in zip(lit.keys, lit.values):
        e = _dict_get(v, "@id") if isinstance(v, ast.Dict) else None
        ok = k is not None and e is not None and const_str(k) is not None and const_str(k) == const_str(e)
        ctx.ob("R1", f"initial graph entry {unparse(k)[:50] if k is not None else '**'} is keyed by its @id", ok, func=init, node=v,
               instance=f"graph-init:{unparse(k) if k is not None else '**'}",
               message=f"initial entity filed under {unparse(k) if k is not None else '**'} has \"@id\": {unparse(e) if e is not None else None}")
    # c. export
    f = p.func(f"{BASE}.create_archive")
    holders = []
    for n in f.body_nodes():
        if isinstance(n, ast.Dict) and _dict_get(n, "@graph") is not None:
            holders.append(n)
    ctx.require(len(holders) == 1, "C34.R1: metadata literal with \"@graph\" not found in create_archive")
    gexpr = expand(f, _dict_get(holders[0], "@graph"))
    ok = False
    if isinstance(gexpr, ast.Call) and unparse(gexpr.func) in ("list", "tuple", "sorted") and len(gexpr.args) >= 1:
        ok = unparse(gexpr.args[0]) == "self.graph.values()"
    elif isinstance(gexpr, ast.ListComp) and len(gexpr.generators) == 1:
        gen = gexpr.generators[0]
        ok = not gen.ifs and unparse(gen.iter) == "self.graph.values()" and isinstance(gexpr.elt, ast.Name) and isinstance(gen.target, ast.Name) and gexpr.elt.id == gen.target.id
    ctx.ob("R1", "create_archive exports \"@graph\": list(self.graph.values())", ok, func=f, node=holders[0], instance="export:@graph",
           message=f"\"@graph\" is `{unparse(gexpr)[:80]}`: not the complete list of the entities filed in self.graph")
    hs = enclosing_stmt(holders[0])
    mvar = hs.targets[0].id if isinstance(hs, ast.Assign) and isinstance(hs.targets[0], ast.Name) and hs.value is holders[0] else None
    dumps = [c for c in f.calls() if is_call_to(p, f, c, "json.dumps", "json.dump")]
    dumped = any(c.args and ((isinstance(c.args[0], ast.Name) and c.args[0].id == mvar) or c.args[0] is holders[0]) for c in dumps)
    named = any(isinstance(c.func, ast.Attribute) and c.func.attr in ("open", "writestr") and c.args and const_str(c.args[0]) == "ro-crate-metadata.json" for c in f.calls())
    ctx.ob("R1", "the metadata object holding @graph is what is serialised into ro-crate-metadata.json", dumped and named, func=f, node=hs,
           instance="export:dumped", message="the dict that holds \"@graph\" is not the object serialised with json.dumps into ro-crate-metadata.json")


# --------------------------------------------------------------------------- R2


def _file_literals(f):
    out = []
    for n in f.body_nodes():
        if isinstance(n, ast.Dict):
            t = _dict_get(n, "@type")
            if t is not None and const_str(t) == "File":
                out.append(n)
    return out


def _registrars(p):
    """methods storing self.files_map[...] = <loopvar>["@id"] for each element of a parameter: {name: param index}."""
    out = {}
    for m in _methods(p):
        for stmt, K, W in _stores(m, "files_map"):
            if isinstance(W, ast.Subscript) and isinstance(W.value, ast.Name) and const_str(W.slice) == "@id":
                lv = W.value.id
                for n in m.body_nodes():
                    if isinstance(n, ast.For) and isinstance(n.target, ast.Name) and n.target.id == lv and isinstance(n.iter, ast.Name) and n.iter.id in m.params:
                        if any(stmt is x for x in ast.walk(n)):
                            out[m.name] = [a for a in m.params if a != "self"].index(n.iter.id)
    return out


def r2(ctx):
    p = ctx.prog
    regs = _registrars(p)
    seen = 0
    for f in _methods(p):
        lits = _file_literals(f)
        if not lits:
            continue
        g = f.cfg
        fm = _stores(f, "files_map")
        for L in lits:
            seen += 1
            st = enclosing_stmt(L)
            lid = g.ids_of(st)
            ctx.require(bool(lid), f"C34.R2: File literal statement not in CFG of {f.qualname}")
            lid = lid[0]
            X = st.targets[0].id if isinstance(st, ast.Assign) and len(st.targets) == 1 and isinstance(st.targets[0], ast.Name) and st.value is L else None
            ids = []
            e = _dict_get(L, "@id")
            if e is not None:
                ids.append(e)
            if X:
                for nid, ee, whole in _id_sources(f, X):
                    if not whole and ee is not None and nid in g.reach([lid]):
                        ids.append(ee)
            inst = f"file-literal:{norm(f, ids[0]) if ids else unparse(L)[:40]}"
            if fm:
                idtexts = {norm(f, i) for i in ids}
                paired, near = False, []
                for s, K, W in fm:
                    same = norm(f, W) in idtexts or (X is not None and _is_id_of(W, X))
                    sidl = g.ids_of(s)
                    if not sidl:
                        continue
                    related = g.dominates(sidl, lid) or g.escape(lid, sidl) is None
                    if same and related:
                        paired = True
                    elif related:
                        near.append(unparse(s)[:70])
                ctx.ob("R2", f"{f.name}: File entity `{inst[13:][:40]}` has a files_map entry with its @id", paired, func=f, node=st, instance=inst,
                       message=(f"{f.name}: the File entity with @id `{', '.join(sorted(idtexts)) or '?'}` is not paired with `self.files_map[<path>] = <that @id>` on every path"
                                + (f" (nearby: {near})" if near else "") + ": the metadata references a file that is not copied into the archive under that name"),
                       )
            else:
                # deferred registration through the callers
                sites = [(cf, c) for cf, c in p.calls_by_attr(f.name) if cf is not f and cf.cls is not None and cf.cls.qualname in _classes(p)]
                ok = bool(sites) and bool(regs)
                why = "no external caller registers the returned entities" if not ok else ""
                for cf, c in sites:
                    par = parent(c)
                    if isinstance(par, ast.Await):
                        par = parent(par)
                    rname = None
                    if isinstance(par, ast.NamedExpr):
                        rname = par.target.id
                    elif isinstance(par, ast.Assign) and len(par.targets) == 1 and isinstance(par.targets[0], ast.Name):
                        rname = par.targets[0].id
                    handed = False
                    for c2 in cf.calls():
                        if isinstance(c2.func, ast.Attribute) and c2.func.attr in regs and isinstance(c2.func.value, ast.Name) and c2.func.value.id == "self":
                            idx = regs[c2.func.attr]
                            if len(c2.args) > idx and isinstance(c2.args[idx], ast.Name) and c2.args[idx].id == rname:
                                handed = True
                    if not handed:
                        ok, why = False, f"{cf.name} does not hand the result of {f.name}() to a registrar ({sorted(regs)})"
                ctx.ob("R2", f"{f.name}: returned File entities are registered in files_map by every caller", ok, func=f, node=st, instance=inst + ":deferred",
                       message=f"{f.name} builds File entities but {why}: files listed in the metadata are never copied into the archive")
    ctx.require(seen >= 3, f"C34.R2: only {seen} File literals found")
    # list-typed File entities are outside the clause
    for f in _methods(p):
        for n in f.body_nodes():
            par = parent(n)
            typed = isinstance(par, ast.Assign) and par.value is n and any(isinstance(t, ast.Subscript) and const_str(t.slice) == "@type" for t in par.targets)
            if isinstance(n, (ast.List,)) and typed and any(const_str(e) == "File" for e in n.elts) and len(n.elts) > 1:
                ctx.observe(f"C34: {f.name} types an entity as {unparse(n)} (list type, outside R2): its @id may carry a #fragment while files_map stores the basename")


# --------------------------------------------------------------------------- R3


def r3(ctx):
    p = ctx.prog
    f = p.func(f"{BASE}.create_archive")
    loops = [
        n
        for n in f.body_nodes()
        if isinstance(n, ast.For) and isinstance(n.iter, ast.Call) and isinstance(n.iter.func, ast.Attribute) and _is_self_attr(n.iter.func.value, "files_map")
    ]
    ok_iter = bool(loops) and all(l.iter.func.attr == "items" and isinstance(l.target, ast.Tuple) and len(l.target.elts) == 2 for l in loops)
    ctx.ob("R3", "create_archive iterates self.files_map.items()", ok_iter, func=f, node=(loops[0] if loops else f.node), instance="archive:loop",
           message="create_archive does not walk (source, archive name) pairs of self.files_map: registered files are not written")
    if not ok_iter:
        return
    for l in loops:
        src, dst = (e.id if isinstance(e, ast.Name) else None for e in l.target.elts)
        writes = [c for b in l.body for c in ast.walk(b) if isinstance(c, ast.Call) and isinstance(c.func, ast.Attribute) and c.func.attr == "write"]
        ok = bool(writes) and all(
            len(c.args) >= 2 and isinstance(c.args[0], ast.Name) and c.args[0].id == src and isinstance(c.args[1], ast.Name) and c.args[1].id == dst
            for c in writes
        )
        ctx.ob("R3", "each files_map entry is written as archive.write(source path, archive name)", ok, func=f, node=l, instance="archive:write",
               message=f"files are written with {[unparse(c)[:60] for c in writes] or 'no archive.write call'}: expected write({src}, {dst})")


RULES = [("R1", r1), ("R2", r2), ("R3", r3)]
FLOORS = {"R1": 30, "R2": 5, "R3": 1}

_PFT = f"{CWL}._process_file_token"
_CA = f"{BASE}.create_archive"

VARIANTS = [
    # ---- breaking
    V("engine stored under a fresh uuid", FILE, _CA, "self.graph[engine['@id']] = engine", "self.graph['#' + str(uuid.uuid4())] = engine", "R1", control=True),
    V("engine stored under the main entity's id", FILE, _CA, "self.graph[engine['@id']] = engine", "self.graph[main_entity['@id']] = engine", "R1"),
    V("file literal keyed by checksum but @id is the basename", FILE, _PFT, "self.graph[token_value['checksum'][5:]] = {'@id': token_value['checksum'][5:],",
      "self.graph[token_value['checksum'][5:]] = {'@id': token_value['basename'],", "R1"),
    V("file literal without @id", FILE, _PFT, "self.graph[token_value['checksum'][5:]] = {'@id': token_value['checksum'][5:], '@type': 'File',",
      "self.graph[token_value['checksum'][5:]] = {'@type': 'File',", "R1"),
    V("add_file: @id assignment dropped", FILE, f"{BASE}.add_file", "jsonld_file['@id'] = dst\n", "pass\n", "R1"),
    V("add_file: dst rebound between @id and store", FILE, f"{BASE}.add_file", "jsonld_file['@id'] = dst\n", "jsonld_file['@id'] = dst\n            dst = posixpath.basename(dst)\n", "R1"),
    V("@id changed after filing", FILE, f"{CWL}._get_step", "self.graph[work_example['@id']] = work_example", "self.graph[work_example['@id']] = work_example\n    work_example['@id'] = step_name", "R1"),
    V("@graph exports the keys", FILE, _CA, "'@graph': list(self.graph.values())", "'@graph': list(self.graph.keys())", "R1", control=True),
    V("@graph filtered", FILE, _CA, "'@graph': list(self.graph.values())", "'@graph': [v for v in self.graph.values() if '@type' in v]", "R1"),
    V("initial entry under a foreign key", FILE, BASE, "'ro-crate-metadata.json': {'@id': 'ro-crate-metadata.json',", "'ro-crate-metadata.json': {'@id': 'ro-crate-metadata.jsonld',", "R1"),
    V("metadata dumped from another dict", FILE, _CA, "f.write(json.dumps(metadata, indent=4, sort_keys=True).encode('utf-8'))", "f.write(json.dumps(self.graph, indent=4, sort_keys=True).encode('utf-8'))", "R1"),
    V("config File entity without files_map entry", FILE, _CA, "self.files_map[config] = config_checksum", "pass", "R2", control=True),
    V("config files_map value is not the @id", FILE, _CA, "self.files_map[config] = config_checksum", "self.files_map[config] = os.path.basename(config)", "R2"),
    V("token file registered only with secondaryFiles", FILE, _PFT,
      "else:\n            self.files_map[token_value['path']] = token_value['checksum'][5:]\n            return {", "else:\n            return {", "R2"),
    V("token file registered under the basename", FILE, _PFT,
      "self.files_map[token_value['path']] = token_value['checksum'][5:]\n            return {", "self.files_map[token_value['path']] = token_value['basename']\n            return {", "R2"),
    V("_rename_parts no longer registers parts", FILE, f"{BASE}._rename_parts", "self.files_map[path] = part['@id']", "pass", "R2"),
    V("directory listing not handed to _rename_parts", FILE, _PFT, "dataset['hasPart'] = self._rename_parts(has_part, jsonld_map, dataset['@id'], dataset['alternateName'])",
      "dataset['hasPart'] = has_part", "R2"),
    V("archive.write arguments swapped", FILE, _CA, "archive.write(src, dst)", "archive.write(dst, src)", "R3", control=True),
    V("archive loop over the keys only", FILE, _CA, "for src, dst in self.files_map.items():", "for src, dst in zip(self.files_map, self.files_map):", "R3"),
    # ---- benign
    V("benign: @id built into a local first", FILE, _PFT,
      "self.files_map[token_value['path']] = token_value['checksum'][5:]\n            self.graph[token_value['checksum'][5:]] = {'@id': token_value['checksum'][5:],",
      "file_id = token_value['checksum'][5:]\n            self.files_map[token_value['path']] = file_id\n            self.graph[file_id] = {'@id': file_id,", None),
    V("benign: files_map entry after the graph store", FILE, _CA,
      "self.files_map[config] = config_checksum\n        self.graph['./']['hasPart'].append({'@id': config_file['@id']})\n        self.graph[config_file['@id']] = config_file",
      "self.graph['./']['hasPart'].append({'@id': config_file['@id']})\n        self.graph[config_file['@id']] = config_file\n        self.files_map[config] = config_checksum", None),
    V("benign: rename engine", FILE, _CA, "engine", "sf_engine", None, count=4),
    V("benign: @graph through a local", FILE, _CA, "metadata = {'@context'", "entities = list(self.graph.values())\n    metadata = {'@context'", None),
    V("benign: logging in _rename_parts", FILE, f"{BASE}._rename_parts", "self.files_map[path] = part['@id']", "logger.debug(path)\n        self.files_map[path] = part['@id']", None),
    V("benign: files_map value read back from the entity", FILE, _CA, "self.files_map[config] = config_checksum", "self.files_map[config] = config_file['@id']", None),
]
