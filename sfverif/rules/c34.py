"""C34 Exported run provenance is self-contained and consistent.

Clause decided: unique identifiers and file bookkeeping (necessary conditions only).

R1 `self.graph` is keyed by `@id`, and the exported `@graph` is exactly its values:
   a. every store `self.graph[K] = V` in RunCrateProvenanceManager and its subclasses (class table) has
      K == V["@id"]: either K *is* the expression `V["@id"]`, or V is / was bound to a dict whose `"@id"` entry
      (literal entry or the last `V["@id"] = E` that reaches the store) is the same pure expression as K with no
      operand rebound on a path definition -> rebinding -> store that does not execute the definition again (a temporary
      `t = E; V["@id"] = t; self.graph[t] = V` in a loop body is fine), or K is a local copy `t = V["@id"]` taken after
      the last (re)definition of V / V["@id"]; V must not reach the store from a binding that says nothing about its
      `@id` (loop target, parameter) without passing such a definition; an expression containing uuid4()/random/time is
      never "the same" twice; after the store the object's `@id` is not reassigned;
   b. every entry of the initial `self.graph = {...}` literal is keyed by its own `"@id"`;
   c. `create_archive` exports `"@graph": list(self.graph.values())` (no filter, no keys) and it is that metadata
      object which is serialised with json.dumps into `ro-crate-metadata.json`.
R2 File entity <-> files_map: every dict literal with `"@type": "File"` built in those classes is paired with an
   insertion `self.files_map[<source path>] = <that @id>` -- in the same function, on every normal path that leaves
   the literal's statement (or dominating it); a function that only *returns* such literals (`_list_dir`) must have
   every external caller hand the result to a registrar method that stores `self.files_map[...] = part["@id"]` for
   each element (`_rename_parts`; the stored value is recognised as the element's current `@id` by the same test as R1a).
R3 archive population: `create_archive` iterates `self.files_map.items()` and writes each entry as
   `archive.write(<key: source path>, <value: archive name>)`.
R4 one hash object per checksummed file: every call of a function that feeds a *caller supplied* hash object
   (`_file_checksum`: a parameter with `.update(...)` and `.hexdigest()`; enumerated by shape, callers through the call
   index) passes an object created for that call -- a `hashlib.*(...)` constructor call in the argument, or a local whose
   every reaching definition is such a constructor, with no path from the call back to itself that avoids the definition
   (hoisted out of a loop / comprehension) and no other feeding use (`X.update`, X as another call's argument) of the same
   object.  hashlib objects accumulate: a shared one makes the recorded sha1 / @id / archive name of every file after the
   first the digest of a concatenation (seeded change C34-1).
R5 "no value" is decided by `None`, never by truthiness: in every concrete `get_property_value` (class table) -- and every
   other method of these classes that returns None on some path -- a branch point whose two sides differ in whether they
   can end in `return None` / a returned entity must not test the truthiness of the token's plain value
   (`get_token_value(...)`, `<Token parameter>.value`, or a local / walrus bound to one): 0, false, '' and [] are values
   of the run and need an entity (seeded change C34-2).  Comparisons (`is None`, `!=`), isinstance(...) and truthiness of
   other things are not restricted.
R6 per-run work happens for every exported run:
   a. every call `self.<hook>(...)` of a method with a parameter annotated `Workflow` (`add_initial_inputs`; enumerated from
      the class table) is lexically inside a loop over `self.workflows`, gets that loop's element as the workflow and
      arguments that depend on the loop's targets, and lies on every path through the loop body; an abstract hook is
      called at least once;
   b. in all methods of these classes, the targets of a `for` loop without `break` are not read after the loop (a
      statement that reads them there runs once, for the last element only) (seeded change C34-3).
R7 a de-duplication guard decides registration only: for every branch point of these classes' methods whose test asks
   whether a key is already filed (`K in / not in self.graph`, `self.files_map`, also `.keys()`, `.get(K) is None`,
   `__contains__`, through a local flag), the CFG nodes that run on one side of the test only (region of the edge, not
   lexical nesting: `if K in self.graph: continue` is the same guard) may change `self` state and objects bound / created
   on that side, or prepare the entity that is filed there (a side whose alternative can only raise is not examined: nothing
   is skipped silently) -- they must not change (`.append/.extend/.add/.update/...`,
   subscript / attribute store, `+=`, `x = x + ...`) an object that was bound outside the region and is not part of
   `self`, unless the other side performs the same change.  Such an object is what the function builds for its caller
   (the `value` list of a PropertyValue): an element whose entity is already in the graph -- same content as an earlier
   file -- must still be *referenced* (seeded change C34-mut2: `value.append({'@id': ...})` slipped under
   `if property_value['@id'] not in self.graph:`).

Not decided: a de-duplication filter spelled as a comprehension condition (`[... for pv in pvs if pv['@id'] not in
self.graph]`) or hidden in a helper that receives the accumulator as an argument (R7 sees only changes made by the
function's own CFG nodes).

Undecided: presence/size/checksum of the files actually written, JSON-LD validity, completeness of inputs/outputs beyond
R5/R6 (that every port of every step is visited, that the database returns every token);
entities typed through a *list* (`["SoftwareApplication", "File"]`, workflow templates) are outside R2 (their `@id`
may carry a `#fragment` while the archive name is the file's basename) -- printed as an observation.
"""

from __future__ import annotations

import ast

from ..facts import region
from ..model import enclosing_stmt, parent, unparse
from ..selftest import V
from ._util_G import assign_nodes, const_str, def_value, expand, flow_values, impure, is_call_to, norm, reaching

MOD = "streamflow.provenance.run_crate"
FILE = "streamflow/provenance/run_crate.py"
BASE = f"{MOD}.RunCrateProvenanceManager"
CWL = f"{MOD}.CWLRunCrateProvenanceManager"

META = {
    "explanation": (
        "Class-table enumeration of every store into self.graph / self.files_map in RunCrateProvenanceManager and its "
        "subclasses; def-use + CFG (reaching `@id` definitions, rebinding between definition and store, dominance / "
        "must-pass-through for the files_map pairing); shape of the exported `@graph` and of the archive-writing loop; "
        "freshness of the hash object handed to the file checksum helper (reaching definitions + CFG cycles); operand structure of the "
        "tests that decide between a value entity and `return None`; placement of per-workflow calls relative to the loop over self.workflows; "
        "CFG regions of the `K in self.graph / self.files_map` de-duplication guards and the objects changed inside them (reaching definitions)."
    ),
    "undecided": "presence, size and checksum of files in the archive; JSON-LD validity; that every input/output value is represented "
                 "(only: falsy values are not dropped by get_property_value, per-run hooks run for every exported workflow)",
    "assumptions": ["a dict keyed by @id has unique @id values", "uuid4()/random/time based expressions differ per evaluation",
                    "hashlib objects are cumulative; a function with `p.update(..)` + `p.hexdigest()` on a parameter p feeds the caller's object",
                    "_file_checksum-like helpers of run_crate are only called with hash objects visible at the call site"],
}


def _classes(p):
    return [BASE, *p.subclasses(BASE)]


def _methods(p):
    out = []
    for cq in _classes(p):
        out.extend(p.classes[cq].methods.values())
    return out


def _is_self_attr(e, attr):
    return isinstance(e, ast.Attribute) and e.attr == attr and isinstance(e.value, ast.Name) and e.value.id == "self"


def _stores(f, attr):
    """[(stmt, key expr, value expr)] for `self.<attr>[K] = V`."""
    out = []
    for n in f.body_nodes():
        if isinstance(n, ast.Assign):
            tg, val = n.targets, n.value
        elif isinstance(n, ast.AnnAssign) and n.value is not None:
            tg, val = [n.target], n.value
        else:
            continue
        for t in tg:
            if isinstance(t, ast.Subscript) and _is_self_attr(t.value, attr):
                out.append((n, t.slice, val))
    return out


def _dict_get(d: ast.Dict, key: str):
    for k, v in zip(d.keys, d.values):
        if k is not None and const_str(k) == key:
            return v
    return None


def _is_id_of(e, name: str) -> bool:
    return isinstance(e, ast.Subscript) and isinstance(e.value, ast.Name) and e.value.id == name and const_str(e.slice) == "@id"


def _id_sources(f, name: str):
    """CFG nodes that define the `@id` of the dict bound to local `name`: (node id, expr, whole-dict?)."""
    g = f.cfg
    out = []
    for n in g.nodes.values():
        if n.kind != "stmt" or not isinstance(n.ast, (ast.Assign, ast.AnnAssign)):
            continue
        a = n.ast
        tg = a.targets if isinstance(a, ast.Assign) else [a.target]
        for t in tg:
            if isinstance(t, ast.Name) and t.id == name:
                if isinstance(a.value, ast.Dict):
                    out.append((n.id, _dict_get(a.value, "@id"), True))
                else:
                    out.append((n.id, None, True))  # rebinding to something opaque
            elif _is_id_of(t, name):
                out.append((n.id, a.value, False))
    return out


def _names(e) -> set[str]:
    return {n.id for n in ast.walk(e) if isinstance(n, ast.Name)} - {"self"}


def _keyed_by_id(p, f, sid: int, K, X: str):
    """(ok, msg): the expression `K`, evaluated at CFG node `sid`, is the `"@id"` that the dict bound to local `X` has
    at that node.  Accepted shapes:
      * K is the expression `X["@id"]`;
      * K is a local whose every reaching definition is the read `t = X["@id"]`, with no (re)definition of X / X["@id"]
        between that read and `sid` (temporary for a repeated subscript);
      * every definition of X["@id"] that reaches `sid` (a dict literal bound to X, or `X["@id"] = E`) has E == K as pure
        expressions, no operand of K / E is rebound on a path definition -> rebinding -> sid that does not execute the
        definition again, and X cannot arrive at `sid` from a binding without "@id" (loop / with target, parameter)."""
    g = f.cfg
    if _is_id_of(K, X):
        return True, ""
    srcs = _id_sources(f, X)
    src_ids = {n for n, _, _ in srcs}
    # bindings of X that say nothing about its "@id": loop / with / walrus / unpacking targets, the parameter
    opaque = [b for b in assign_nodes(g, X) if b not in src_ids]
    if X in f.params:
        opaque.append(g.entry)
    changes = src_ids | set(opaque)
    if isinstance(K, ast.Name) and K.id != X:
        kdefs = assign_nodes(g, K.id)
        rd = reaching(f, K.id, sid)
        if rd and "param" not in rd and all((vs := _bound_values(g.nodes[d], K.id)) and all(v is not None and _is_id_of(v, X) for v in vs) for d in rd):
            stale = [c for d in rd for c in changes
                     if c != d and c != sid and c in g.reach([d], avoid=kdefs) and g.path(c, [sid], avoid=kdefs) is not None]
            if not stale:
                return True, ""
            # else: the copy may be stale; decided by the definitions of X["@id"] that reach the store (below)
    reach_src = []
    for nid, e, whole in [*srcs, *((o, None, True) for o in opaque)]:
        if nid != sid and g.path(nid, [sid], avoid=changes - {nid}) is not None:
            reach_src.append((nid, e))
    if not reach_src:
        return False, f"stored under `{unparse(K)}`, which is not `{X}[\"@id\"]`, and no definition of {X}[\"@id\"] reaches the store"
    for nid, e in reach_src:
        if e is None:
            return False, f"`{X}` reaches the store without an \"@id\" ({g.nodes[nid].text(60)})"
        if impure(p, f, expand(f, e)) or impure(p, f, expand(f, K)):
            return False, f"key `{unparse(K)}` and `{X}[\"@id\"] = {unparse(e)}` are separate evaluations of a non-deterministic expression"
        if norm(f, e) != norm(f, K):
            return False, f"stored under `{unparse(K)}` but {X}[\"@id\"] is `{unparse(e)}`"
        for nm in sorted(_names(K) | _names(e)):
            for d in assign_nodes(g, nm):
                # a rebinding matters only if the store can be reached from it without executing the definition again
                # (in a loop body `t = E; X["@id"] = t; store[t] = X` the binding of t is "after" the definition only
                # through the back edge, which leads to the definition first)
                if d not in (nid, sid) and d in g.reach([nid], avoid=[sid]) and g.path(d, [sid], avoid=changes - {d}) is not None:
                    return False, f"`{nm}` is rebound ({g.nodes[d].text(50)}) between `{X}[\"@id\"] = {unparse(e)}` and the store under `{unparse(K)}`"
    return True, ""


def r1(ctx):
    p = ctx.prog
    total = 0
    for f in _methods(p):
        sts = _stores(f, "graph")
        if not sts:
            continue
        g = f.cfg
        for stmt, K, Vv in sts:
            total += 1
            sid = g.ids_of(stmt)
            ctx.require(bool(sid), f"C34.R1: store `{unparse(stmt)[:60]}` not in the CFG of {f.qualname}")
            sid = sid[0]
            ok, msg = False, ""
            inst = f"graph-store:{unparse(K)}"
            if isinstance(Vv, ast.Dict):
                e = _dict_get(Vv, "@id")
                if e is None:
                    msg = "stored literal has no \"@id\""
                elif impure(p, f, expand(f, e)) or impure(p, f, expand(f, K)):
                    msg = f"key `{unparse(K)}` and \"@id\": `{unparse(e)}` are evaluated separately and are not deterministic"
                elif norm(f, e) != norm(f, K):
                    msg = f"stored under `{unparse(K)}` but its \"@id\" is `{unparse(e)}`"
                else:
                    ok = True
            elif isinstance(Vv, ast.Name):
                X = Vv.id
                ok, msg = _keyed_by_id(p, f, sid, K, X)
                if ok:
                    # the @id must not change after the object was filed under it
                    rebinds = assign_nodes(g, X)
                    for nid, e, whole in _id_sources(f, X):
                        if not whole and nid != sid and g.path(sid, [nid], avoid=[r for r in rebinds if r != nid]) is not None:
                            ok, msg = False, f"`{X}[\"@id\"]` is reassigned ({g.nodes[nid].text(60)}) after the object was stored under its old @id"
            else:
                ctx.require(False, f"C34.R1: cannot interpret the value stored by `{unparse(stmt)[:80]}` in {f.qualname}")
            ctx.ob("R1", f"{f.name}: self.graph[{unparse(K)[:40]}] is keyed by the stored object's @id", ok, func=f, node=stmt, instance=inst,
                   message=f"{f.name}: object {msg}: the exported @graph can hold two entities with one @id, or an entity filed under a foreign key")
    ctx.require(total >= 10, f"C34.R1: only {total} stores into self.graph found")
    # b. initial literal
    init = p.classes[BASE].methods.get("__init__")
    ctx.require(init is not None, "C34.R1: RunCrateProvenanceManager.__init__ vanished")
    lit = None
    for n in init.body_nodes():
        if isinstance(n, (ast.Assign, ast.AnnAssign)):
            tg = n.targets if isinstance(n, ast.Assign) else [n.target]
            if any(_is_self_attr(t, "graph") for t in tg) and isinstance(n.value, ast.Dict):
                lit = n.value
    ctx.require(lit is not None, "C34.R1: initial `self.graph = {...}` literal not found")
    for k, v in zip(lit.keys, lit.values):
        e = _dict_get(v, "@id") if isinstance(v, ast.Dict) else None
        ok = k is not None and e is not None and const_str(k) is not None and const_str(k) == const_str(e)
        ctx.ob("R1", f"initial graph entry {unparse(k)[:50] if k is not None else '**'} is keyed by its @id", ok, func=init, node=v,
               instance=f"graph-init:{unparse(k) if k is not None else '**'}",
               message=f"initial entity filed under {unparse(k) if k is not None else '**'} has \"@id\": {unparse(e) if e is not None else None}")
    # c. export
    f = p.func(f"{BASE}.create_archive")
    holders = []
    for n in f.body_nodes():
        if isinstance(n, ast.Dict) and _dict_get(n, "@graph") is not None:
            holders.append(n)
    ctx.require(len(holders) == 1, "C34.R1: metadata literal with \"@graph\" not found in create_archive")
    gexpr = expand(f, _dict_get(holders[0], "@graph"))
    ok = False
    if isinstance(gexpr, ast.Call) and unparse(gexpr.func) in ("list", "tuple", "sorted") and len(gexpr.args) >= 1:
        ok = unparse(gexpr.args[0]) == "self.graph.values()"
    elif isinstance(gexpr, ast.ListComp) and len(gexpr.generators) == 1:
        gen = gexpr.generators[0]
        ok = not gen.ifs and unparse(gen.iter) == "self.graph.values()" and isinstance(gexpr.elt, ast.Name) and isinstance(gen.target, ast.Name) and gexpr.elt.id == gen.target.id
    ctx.ob("R1", "create_archive exports \"@graph\": list(self.graph.values())", ok, func=f, node=holders[0], instance="export:@graph",
           message=f"\"@graph\" is `{unparse(gexpr)[:80]}`: not the complete list of the entities filed in self.graph")
    hs = enclosing_stmt(holders[0])
    mvar = hs.targets[0].id if isinstance(hs, ast.Assign) and isinstance(hs.targets[0], ast.Name) and hs.value is holders[0] else None
    # (only calls spelled `dumps(...)` / `x.dump(...)` / a bare name are resolved: resolving every call of create_archive costs ~1 s)
    dumps = [c for c in f.calls() if (isinstance(c.func, ast.Name) or (isinstance(c.func, ast.Attribute) and c.func.attr in ("dumps", "dump")))
             and is_call_to(p, f, c, "json.dumps", "json.dump")]
    dumped = any(c.args and ((isinstance(c.args[0], ast.Name) and c.args[0].id == mvar) or c.args[0] is holders[0]) for c in dumps)
    named = any(isinstance(c.func, ast.Attribute) and c.func.attr in ("open", "writestr") and c.args and const_str(c.args[0]) == "ro-crate-metadata.json" for c in f.calls())
    ctx.ob("R1", "the metadata object holding @graph is what is serialised into ro-crate-metadata.json", dumped and named, func=f, node=hs,
           instance="export:dumped", message="the dict that holds \"@graph\" is not the object serialised with json.dumps into ro-crate-metadata.json")


# --------------------------------------------------------------------------- R2


def _file_literals(f):
    out = []
    for n in f.body_nodes():
        if isinstance(n, ast.Dict):
            t = _dict_get(n, "@type")
            if t is not None and const_str(t) == "File":
                out.append(n)
    return out


def _helper_literals(p, f):
    """Calls in `f` of a synchronous module-level helper of the same module whose every exit returns a File dict literal
    (directly or through a local bound once to it): the call stands for the literal at the call site (its `@id` is then
    only known as `<result>["@id"]`)."""
    out = []
    for c in f.calls():
        if not isinstance(c.func, ast.Name):
            continue
        qs = p.resolve_call(f, c, fanout=False)
        if len(qs) != 1 or qs[0] not in p.functions:
            continue
        h = p.functions[qs[0]]
        if h.cls is not None or h.module is not f.module or not isinstance(h.node, ast.FunctionDef) or h.decorators:
            continue
        rets = [n for n in h.body_nodes() if isinstance(n, ast.Return)]
        if not rets:
            continue
        lits = _file_literals(h)

        def _lit(r):
            if r.value is None:
                return False
            if any(r.value is L for L in lits):
                return True
            if isinstance(r.value, ast.Name):
                srcs = _id_sources(h, r.value.id)
                whole = [x for x in srcs if x[2]]
                return bool(whole) and all(
                    isinstance(h.cfg.nodes[nid].ast.value, ast.Dict) and any(h.cfg.nodes[nid].ast.value is L for L in lits) for nid, _, _ in whole)
            return False

        if lits and all(_lit(r) for r in rets):
            out.append(c)
    return out


def _helper_id_arg(p, f, c):
    """For a call accepted by `_helper_literals`: the call-site argument that the helper uses as the literal's `@id`
    (when every returned literal's `@id` is one plain parameter of the helper), else None."""
    qs = p.resolve_call(f, c, fanout=False)
    if len(qs) != 1 or qs[0] not in p.functions:
        return None
    h = p.functions[qs[0]]
    names = set()
    for L in _file_literals(h):
        e = _dict_get(L, "@id")
        if not (isinstance(e, ast.Name) and e.id in h.params) or assign_nodes(h.cfg, e.id):
            return None
        names.add(e.id)
    if len(names) != 1:
        return None
    name = names.pop()
    for k in c.keywords:
        if k.arg == name:
            return k.value
    if any(isinstance(a, ast.Starred) for a in c.args) or any(k.arg is None for k in c.keywords):
        return None
    i = h.params.index(name)
    return c.args[i] if i < len(c.args) else None


def _registrars(p):
    """methods storing self.files_map[...] = <the @id of the loop variable> for each element of a parameter: {name: param index}.
    The stored value is `part["@id"]`, a local copy of it, or the expression that was just assigned to `part["@id"]`
    (`_keyed_by_id`)."""
    out = {}
    for m in _methods(p):
        fm = _stores(m, "files_map")
        if not fm:
            continue
        g = m.cfg
        loops = [n for n in m.body_nodes() if isinstance(n, ast.For) and isinstance(n.target, ast.Name) and isinstance(n.iter, ast.Name) and n.iter.id in m.params]
        for stmt, K, W in fm:
            sid = g.ids_of(stmt)
            if not sid:
                continue
            for n in loops:
                if any(stmt is x for x in ast.walk(n)) and _keyed_by_id(p, m, sid[0], W, n.target.id)[0]:
                    out[m.name] = [a for a in m.params if a != "self"].index(n.iter.id)
    return out


def r2(ctx):
    p = ctx.prog
    regs = _registrars(p)
    seen = 0
    for f in _methods(p):
        lits = _file_literals(f) + _helper_literals(p, f)
        if not lits:
            continue
        g = f.cfg
        fm = _stores(f, "files_map")
        for L in lits:
            seen += 1
            st = enclosing_stmt(L)
            lid = g.ids_of(st)
            ctx.require(bool(lid), f"C34.R2: File literal statement not in CFG of {f.qualname}")
            lid = lid[0]
            X = st.targets[0].id if isinstance(st, ast.Assign) and len(st.targets) == 1 and isinstance(st.targets[0], ast.Name) and st.value is L else None
            ids = []
            e = _dict_get(L, "@id") if isinstance(L, ast.Dict) else _helper_id_arg(p, f, L)
            if e is not None:
                ids.append(e)
            if X:
                for nid, ee, whole in _id_sources(f, X):
                    if not whole and ee is not None and nid in g.reach([lid]):
                        ids.append(ee)
            inst = f"file-literal:{norm(f, ids[0]) if ids else unparse(L)[:40]}"
            if fm:
                idtexts = {norm(f, i) for i in ids}
                paired, near = False, []
                for s, K, W in fm:
                    same = norm(f, W) in idtexts or (X is not None and _is_id_of(W, X))
                    sidl = g.ids_of(s)
                    if not sidl:
                        continue
                    related = g.dominates(sidl, lid) or g.escape(lid, sidl) is None
                    if same and related:
                        paired = True
                    elif related:
                        near.append(unparse(s)[:70])
                ctx.ob("R2", f"{f.name}: File entity `{inst[13:][:40]}` has a files_map entry with its @id", paired, func=f, node=st, instance=inst,
                       message=(f"{f.name}: the File entity with @id `{', '.join(sorted(idtexts)) or '?'}` is not paired with `self.files_map[<path>] = <that @id>` on every path"
                                + (f" (nearby: {near})" if near else "") + ": the metadata references a file that is not copied into the archive under that name"),
                       )
            else:
                # deferred registration through the callers
                sites = [(cf, c) for cf, c in p.calls_by_attr(f.name) if cf is not f and cf.cls is not None and cf.cls.qualname in _classes(p)]
                ok = bool(sites) and bool(regs)
                why = "no external caller registers the returned entities" if not ok else ""
                for cf, c in sites:
                    par = parent(c)
                    if isinstance(par, ast.Await):
                        par = parent(par)
                    rname = None
                    if isinstance(par, ast.NamedExpr):
                        rname = par.target.id
                    elif isinstance(par, ast.Assign) and len(par.targets) == 1 and isinstance(par.targets[0], ast.Name):
                        rname = par.targets[0].id
                    handed = False
                    for c2 in cf.calls():
                        if isinstance(c2.func, ast.Attribute) and c2.func.attr in regs and isinstance(c2.func.value, ast.Name) and c2.func.value.id == "self":
                            idx = regs[c2.func.attr]
                            if len(c2.args) > idx and isinstance(c2.args[idx], ast.Name) and c2.args[idx].id == rname:
                                handed = True
                    if not handed:
                        ok, why = False, f"{cf.name} does not hand the result of {f.name}() to a registrar ({sorted(regs)})"
                ctx.ob("R2", f"{f.name}: returned File entities are registered in files_map by every caller", ok, func=f, node=st, instance=inst + ":deferred",
                       message=f"{f.name} builds File entities but {why}: files listed in the metadata are never copied into the archive")
    ctx.require(seen >= 3, f"C34.R2: only {seen} File literals found")
    # list-typed File entities are outside the clause
    for f in _methods(p):
        for n in f.body_nodes():
            par = parent(n)
            typed = isinstance(par, ast.Assign) and par.value is n and any(isinstance(t, ast.Subscript) and const_str(t.slice) == "@type" for t in par.targets)
            if isinstance(n, (ast.List,)) and typed and any(const_str(e) == "File" for e in n.elts) and len(n.elts) > 1:
                ctx.observe(f"C34: {f.name} types an entity as {unparse(n)} (list type, outside R2): its @id may carry a #fragment while files_map stores the basename")


# --------------------------------------------------------------------------- R3


def r3(ctx):
    p = ctx.prog
    f = p.func(f"{BASE}.create_archive")
    loops = [
        n
        for n in f.body_nodes()
        if isinstance(n, ast.For) and isinstance(n.iter, ast.Call) and isinstance(n.iter.func, ast.Attribute) and _is_self_attr(n.iter.func.value, "files_map")
    ]
    ok_iter = bool(loops) and all(l.iter.func.attr == "items" and isinstance(l.target, ast.Tuple) and len(l.target.elts) == 2 for l in loops)
    ctx.ob("R3", "create_archive iterates self.files_map.items()", ok_iter, func=f, node=(loops[0] if loops else f.node), instance="archive:loop",
           message="create_archive does not walk (source, archive name) pairs of self.files_map: registered files are not written")
    if not ok_iter:
        return
    for l in loops:
        src, dst = (e.id if isinstance(e, ast.Name) else None for e in l.target.elts)
        writes = [c for b in l.body for c in ast.walk(b) if isinstance(c, ast.Call) and isinstance(c.func, ast.Attribute) and c.func.attr == "write"]
        ok = bool(writes) and all(
            len(c.args) >= 2 and isinstance(c.args[0], ast.Name) and c.args[0].id == src and isinstance(c.args[1], ast.Name) and c.args[1].id == dst
            for c in writes
        )
        ctx.ob("R3", "each files_map entry is written as archive.write(source path, archive name)", ok, func=f, node=l, instance="archive:write",
               message=f"files are written with {[unparse(c)[:60] for c in writes] or 'no archive.write call'}: expected write({src}, {dst})")



# --------------------------------------------------------------------------- R4


_COMP = (ast.ListComp, ast.SetComp, ast.DictComp, ast.GeneratorExp, ast.Lambda)


def _accumulators(p):
    """Functions of the provenance module that feed a *caller supplied* hash object: a parameter P with
    `P.update(...)` and `P.hexdigest()/digest()` in the body -> [(Func, positional index, name)]."""
    out = []
    for f in p.all_funcs():
        if f.module.name != MOD:
            continue
        params = [a for a in f.params if a not in ("self", "cls")]
        used: dict[str, set[str]] = {}
        for c in f.calls():
            if isinstance(c.func, ast.Attribute) and isinstance(c.func.value, ast.Name) and c.func.value.id in params:
                used.setdefault(c.func.value.id, set()).add(c.func.attr)
        for nm, attrs in used.items():
            if "update" in attrs and attrs & {"hexdigest", "digest"}:
                out.append((f, params.index(nm), nm))
    return out


def _is_hash_ctor(p, f, e) -> bool:
    """`hashlib.new(...)`, `hashlib.sha1(...)`, ... or `<hash>.copy()`: a hash object nobody else has fed yet."""
    if not isinstance(e, ast.Call):
        return False
    if isinstance(e.func, ast.Attribute) and e.func.attr == "copy" and not e.args:
        return True
    return any(q.startswith("hashlib.") for q in p.resolve_call(f, e, fanout=False))


def _bound_values(node, name: str):
    """Expressions bound to local `name` by CFG node `node` (None element = bound to something that is not an expression
    of its own: loop / with / unpacking target)."""
    a = node.ast
    out = []
    if node.kind == "stmt" and isinstance(a, (ast.Assign, ast.AnnAssign, ast.AugAssign)):
        tg = a.targets if isinstance(a, ast.Assign) else [a.target]
        for t in tg:
            if isinstance(t, ast.Name) and t.id == name:
                out.append(a.value if isinstance(a, (ast.Assign, ast.AnnAssign)) else None)
            elif any(isinstance(n, ast.Name) and n.id == name and isinstance(n.ctx, ast.Store) for n in ast.walk(t)):
                out.append(None)
    elif node.kind in ("iter", "with_enter"):
        out.append(None)
    for x in node.walk():
        if isinstance(x, ast.NamedExpr) and x.target.id == name:
            out.append(x.value)
    return out


def _feeds(node, name: str) -> int:
    """How many times CFG node `node` hands the object bound to `name` to code that may feed it: `name` as a call
    argument, or `name.update(...)`."""
    k = 0
    for c in node.walk():
        if not isinstance(c, ast.Call):
            continue
        if isinstance(c.func, ast.Attribute) and c.func.attr == "update" and isinstance(c.func.value, ast.Name) and c.func.value.id == name:
            k += 1
        k += sum(1 for a in [*c.args, *(kw.value for kw in c.keywords)] if isinstance(a, ast.Name) and a.id == name)
    return k


def _in_comprehension(c, stmt) -> bool:
    n = parent(c)
    while n is not None and n is not stmt:
        if isinstance(n, _COMP):
            return True
        n = parent(n)
    return False


def _fresh_hash(p, f, call, arg):
    """(ok, why): the hash object `arg` handed to an accumulating function at `call` is created for this one call."""
    if arg is None:
        return False, "relies on the callee's default hash object, which is evaluated once and shared by all calls"
    if _is_hash_ctor(p, f, arg):
        return True, ""
    if not isinstance(arg, ast.Name):
        return False, f"`{unparse(arg)}` is not a hash object created for this call"
    X = arg.id
    g = f.cfg
    st = enclosing_stmt(call)
    if _in_comprehension(call, st):
        return False, f"`{X}` is shared by every element of the comprehension"
    cids = g.node_containing(call)
    if not cids:
        return False, f"call site of `{unparse(call)[:50]}` is not in the CFG"
    binders = assign_nodes(g, X)
    for cid in cids:
        defs = reaching(f, X, cid)
        if "param" in defs or not defs:
            return False, f"`{X}` is not created in {f.name} (parameter / module level / attribute object shared between calls)"
        for d in defs:
            vals = _bound_values(g.nodes[d], X)
            if not vals or not all(v is not None and _is_hash_ctor(p, f, v.value if isinstance(v, ast.Await) else v) for v in vals):
                return False, f"`{X}` ({g.nodes[d].text(50)}) is not a newly created hash object"
            if g.path(cid, [cid], avoid=binders) is not None:
                return False, (f"`{X}` is created once ({g.nodes[d].text(60)}) outside the loop and fed again on every iteration: hashlib objects "
                               "accumulate, so every file after the first gets the digest of the concatenation of the files before it")
        if _feeds(g.nodes[cid], X) > 1:
            return False, f"`{X}` is fed more than once in `{g.nodes[cid].text(60)}`"
        live = g.reach(defs, avoid=binders)
        for u in live:
            if u != cid and u not in binders and _feeds(g.nodes[u], X) and (cid in g.reach([u], avoid=binders) or u in g.reach([cid], avoid=binders)):
                return False, f"`{X}` is also fed by `{g.nodes[u].text(60)}`: the digest covers more than this file"
    return True, ""


def r4(ctx):
    p = ctx.prog
    accs = _accumulators(p)
    ctx.require(bool(accs), "C34.R4: no function feeding a caller-supplied hash object (`_file_checksum`) found in run_crate")
    sites = 0
    for acc, idx, pname in accs:
        for cf, c in p.callers(acc.qualname):
            sites += 1
            arg = c.args[idx] if len(c.args) > idx and not any(isinstance(a, ast.Starred) for a in c.args) else None
            for kw in c.keywords:
                if kw.arg == pname:
                    arg = kw.value
            ok, why = _fresh_hash(p, cf, c, arg)
            ctx.ob("R4", f"{cf.name}: {acc.name}(...) gets a hash object created for this file", ok, func=cf, node=c, instance=f"hasher:{acc.name}:{norm(cf, c.args[0]) if c.args else '?'}",
                   message=f"{cf.name}: `{unparse(c)[:90]}`: {why}: the recorded sha1 / @id / archive name does not match the file's content")
    ctx.require(sites >= 4, f"C34.R4: only {sites} call sites of {[a.name for a, _, _ in accs]} found")


# --------------------------------------------------------------------------- R5


_BOOL_CALLS = {"isinstance", "issubclass", "hasattr", "callable", "any", "all"}


def _truth_leaves(e):
    if isinstance(e, ast.BoolOp):
        for v in e.values:
            yield from _truth_leaves(v)
    elif isinstance(e, ast.UnaryOp) and isinstance(e.op, ast.Not):
        yield from _truth_leaves(e.operand)
    elif isinstance(e, ast.Call) and isinstance(e.func, ast.Name) and e.func.id == "bool" and len(e.args) == 1:
        yield from _truth_leaves(e.args[0])
    else:
        yield e


def _token_params(p, f):
    out = set()
    for a in f.params:
        q = p.ann_to_class(f.module, f.param_annotation(a))
        if q and q.rpartition(".")[2].endswith("Token"):
            out.add(a)
    return out


def _raw_value(p, f, e, at: int, depth: int = 4) -> bool:
    """`e`, evaluated at CFG node `at`, *is* the plain value of a token: `get_token_value(...)`, `<token param>.value`,
    or a local bound to one of those."""
    while isinstance(e, (ast.Await, ast.NamedExpr)):
        e = e.value
    if isinstance(e, ast.Call):
        return any(q.rpartition(".")[2] == "get_token_value" for q in p.resolve_call(f, e, fanout=False))
    if isinstance(e, ast.Attribute):
        return e.attr == "value" and isinstance(e.value, ast.Name) and e.value.id in _token_params(p, f)
    if isinstance(e, ast.Name) and depth > 0:
        g = f.cfg
        for x in g.nodes[at].walk():  # bound earlier in the same test: `(v := ...) is not None and v`
            if isinstance(x, ast.NamedExpr) and x.target.id == e.id and x.value is not e and _raw_value(p, f, x.value, at, depth - 1):
                return True
        for d in reaching(f, e.id, at):
            if d == "param":
                continue
            for v in _bound_values(g.nodes[d], e.id):
                if v is not None and _raw_value(p, f, v, d, depth - 1):
                    return True
    return False


def _is_none(e) -> bool:
    return e is None or (isinstance(e, ast.Constant) and e.value is None)


def _return_kinds(g):
    """{node id: {'none','value'}} for the nodes that end the function normally."""
    kinds: dict[int, set[str]] = {}
    for n in g.nodes.values():
        if n.kind == "return":
            v = n.ast.value
            if _is_none(v):
                kinds[n.id] = {"none"}
            elif isinstance(v, ast.IfExp) and (_is_none(v.body) or _is_none(v.orelse)):
                kinds[n.id] = {"none", "value"}
            else:
                kinds[n.id] = {"value"}
    for a, ss in g.succ.items():
        if g.nodes[a].kind not in ("return", "entry") and any(b == g.exit and k in ("n", "t", "f") for b, k in ss):
            kinds.setdefault(a, set()).add("none")  # falls off the end
    return kinds


def _deciding_tests(f):
    """[(CFG node id, test expression)]: branch points one side of which can only end in `return None` / only in a
    returned entity while the other side can end differently."""
    g = f.cfg
    kinds = _return_kinds(g)
    if not any("none" in k for k in kinds.values()) or not any("value" in k for k in kinds.values()):
        return []
    out = []
    for n in g.nodes.values():
        if n.kind == "test" and not (isinstance(parent(n.ast), ast.Match)):
            sides = {}
            for b, k in g.succ[n.id]:
                if k in ("t", "f"):
                    ks = set()
                    for r in g.reach([b], include_src=True):
                        ks |= kinds.get(r, set())
                    sides.setdefault(k, set()).update(ks)
            if len(sides) == 2 and sides["t"] != sides["f"]:
                out.append((n.id, n.ast))
        elif n.kind == "return" and isinstance(n.ast.value, ast.IfExp) and (_is_none(n.ast.value.body) != _is_none(n.ast.value.orelse)):
            out.append((n.id, n.ast.value.test))
    return out


def r5(ctx):
    p = ctx.prog
    impls = [f for f in p.overrides(BASE, "get_property_value") if not f.is_abstract]
    ctx.require(bool(impls), "C34.R5: no concrete get_property_value implementation found")
    funcs = list(impls)
    for f in _methods(p):
        if f not in funcs and not f.is_abstract and any(isinstance(r, ast.Return) and _is_none(r.value) for r in f.body_nodes()):
            funcs.append(f)
    for f in funcs:
        for nid, test in _deciding_tests(f):
            bad = [lf for lf in _truth_leaves(test) if not isinstance(lf, (ast.Compare, ast.Constant))
                   and not (isinstance(lf, ast.Call) and isinstance(lf.func, ast.Name) and lf.func.id in _BOOL_CALLS)
                   and _raw_value(p, f, lf, nid)]
            ctx.ob("R5", f"{f.name}: `{unparse(test)[:60]}` does not decide 'no value' by truthiness", not bad, func=f, node=test, instance=f"value-test:{unparse(test)}",
                   message=(f"{f.name}: `{unparse(test)[:80]}` chooses between building the value entity and `return None` by the truthiness of the token value "
                            f"`{unparse(bad[0])[:60] if bad else ''}`: 0, false, '' and [] are values of the run but get no entity (only `is None` means 'no value')"))


# --------------------------------------------------------------------------- R6


def _run_loops(f):
    """For loops of f over the exported runs (`self.workflows`, possibly through enumerate): [(For, {target names}, element name, index name)]."""
    out = []
    for n in f.body_nodes():
        if isinstance(n, (ast.For, ast.AsyncFor)) and any(_is_self_attr(x, "workflows") for x in ast.walk(n.iter)):
            tg = {x.id for x in ast.walk(n.target) if isinstance(x, ast.Name)}
            elem = idx = None
            it = n.iter
            if _is_self_attr(it, "workflows") and isinstance(n.target, ast.Name):
                elem = n.target.id
            elif isinstance(it, ast.Call) and unparse(it.func) == "enumerate" and it.args and _is_self_attr(it.args[0], "workflows") \
                    and isinstance(n.target, ast.Tuple) and len(n.target.elts) == 2 and all(isinstance(e, ast.Name) for e in n.target.elts):
                idx, elem = n.target.elts[0].id, n.target.elts[1].id
            out.append((n, tg, elem, idx))
    return out


def _scoped(n, x: str) -> bool:
    """The Name `n` (= x) is bound by an enclosing comprehension / lambda / nested def, not by the function's own scope."""
    a = parent(n)
    while a is not None and not isinstance(a, ast.stmt):
        if isinstance(a, (ast.ListComp, ast.SetComp, ast.DictComp, ast.GeneratorExp)):
            if any(isinstance(t, ast.Name) and t.id == x for gen in a.generators for t in ast.walk(gen.target)):
                return True
        elif isinstance(a, ast.Lambda) and any(arg.arg == x for arg in [*a.args.posonlyargs, *a.args.args, *a.args.kwonlyargs]):
            return True
        a = parent(a)
    return False


def _within(node, stmts) -> bool:
    return any(node is x for s in stmts for x in ast.walk(s))


def _per_run_hooks(p):
    """Methods of the provenance classes with a parameter annotated `Workflow`: they process one exported run."""
    out = {}
    for m in _methods(p):
        for a in m.params:
            q = p.ann_to_class(m.module, m.param_annotation(a))
            if q and q.rpartition(".")[2] == "Workflow" and "cwl_utils" not in q:
                out.setdefault(m.name, (m, a))
    return out


def r6(ctx):
    p = ctx.prog
    hooks = _per_run_hooks(p)
    ctx.require(bool(hooks), "C34.R6: no per-run method (parameter annotated Workflow) found in the provenance classes")
    called = {h: 0 for h in hooks}
    for f in _methods(p):
        sites = [c for c in f.calls() if isinstance(c.func, ast.Attribute) and c.func.attr in hooks and isinstance(c.func.value, ast.Name) and c.func.value.id == "self"]
        loops = _run_loops(f) if sites else []
        g = f.cfg if sites else None
        for c in sites:
            hook, wparam = hooks[c.func.attr]
            called[hook.name] += 1
            hp = [a for a in hook.params if a != "self"]
            args = {hp[i]: a for i, a in enumerate(c.args) if i < len(hp) and not isinstance(a, ast.Starred)}
            args.update({kw.arg: kw.value for kw in c.keywords if kw.arg})
            encl = [(L, tg, elem, idx) for L, tg, elem, idx in loops if _within(c, L.body)]
            ok, why = True, ""
            if not encl:
                ok, why = False, ("is not inside the loop over self.workflows: it runs once, with whatever the loop variables hold after the last iteration"
                                  if loops else "is not inside a loop over self.workflows")
            else:
                L, tg, elem, idx = encl[-1]
                w = args.get(wparam)
                we = expand(f, w) if w is not None else None
                if we is None:
                    ok, why = False, f"does not pass `{wparam}`"
                elif not ((isinstance(we, ast.Name) and we.id == (elem or we.id) and we.id in tg)
                          or (isinstance(we, ast.Subscript) and _is_self_attr(we.value, "workflows") and _names(we.slice) and _names(we.slice) <= tg)):
                    ok, why = False, f"passes `{unparse(w)}` as `{wparam}`, which is not the workflow of the current iteration"
                for a in hp:
                    if ok and a != wparam and a in args and not (_names(expand(f, args[a])) & tg):
                        ok, why = False, f"passes `{unparse(args[a])}` as `{a}`, which does not depend on the current iteration"
                if ok:
                    cids = set(g.node_containing(c))
                    for t in g.ids_of(L):
                        for b, k in g.succ[t]:
                            if k == "t" and b not in cids:
                                w2 = g.path(b, [t, g.exit], avoid=cids)
                                if w2 is not None:
                                    ok, why = False, f"is skipped on some iterations ({' -> '.join(g.describe(w2)[:4])})"
            ctx.ob("R6", f"{f.name}: self.{hook.name}(...) runs for every exported workflow", ok, func=f, node=c, instance=f"per-run:{hook.name}",
                   message=f"{f.name}: `{unparse(c)[:80]}` {why}: the values of the other runs exported in the same crate are not represented")
    for h, n in called.items():
        if not hooks[h][0].is_abstract and not any(m.is_abstract for m in p.overrides(BASE, h)):
            continue
        ctx.ob("R6", f"per-run hook {h} is called by the export", n > 0, func=p.func(f"{BASE}.create_archive"), instance=f"per-run-called:{h}",
               message=f"the abstract per-run hook `{h}` is never called by the provenance classes: what it contributes (initial inputs) is missing from the crate")
    # loop variables do not leak out of their loop
    nloops = 0
    for f in _methods(p):
        fors = [n for n in f.body_nodes() if isinstance(n, (ast.For, ast.AsyncFor))]
        if not fors:
            continue
        g = f.cfg
        for L in fors:
            if any(isinstance(x, ast.Break) for s in L.body for x in ast.walk(s)):
                continue  # search idiom: the variable deliberately survives the loop
            nloops += 1
            body = {id(x) for s in [*L.body, L.target] for x in ast.walk(s)}
            leaks = []
            for t in g.ids_of(L):
                for x in sorted({n.id for n in ast.walk(L.target) if isinstance(n, ast.Name)}):
                    binders = set(assign_nodes(g, x))
                    outs = [b for b, k in g.succ[t] if k == "f" and b not in binders]
                    for u in g.reach(outs, avoid=binders, include_src=True):
                        for n in g.nodes[u].walk():
                            if isinstance(n, ast.Name) and n.id == x and isinstance(n.ctx, ast.Load) and id(n) not in body and not _scoped(n, x):
                                leaks.append((x, u))
            ctx.ob("R6", f"{f.name}: targets of `for {unparse(L.target)} in {unparse(L.iter)[:40]}` are not read after the loop", not leaks, func=f, node=L,
                   instance=f"loop-leak:{unparse(L.iter)}",
                   message=(f"{f.name}: `{leaks[0][0] if leaks else ''}` is read by `{g.nodes[leaks[0][1]].text(70) if leaks else ''}` after "
                            f"`for {unparse(L.target)} in {unparse(L.iter)[:50]}` has finished: the statement runs once, for the last element only"))
    ctx.require(nloops >= 20, f"C34.R6: only {nloops} loops examined")


# --------------------------------------------------------------------------- R7

_REGISTRIES = ("graph", "files_map")
_MUTATORS = {"append", "extend", "insert", "add", "update", "setdefault", "pop", "popitem", "remove", "discard", "clear", "appendleft", "extendleft", "sort", "reverse"}
_PART_OF = {"setdefault", "get"}  # methods that return a part of their receiver


def _strip(e):
    while isinstance(e, (ast.Await, ast.NamedExpr)) or (isinstance(e, ast.Call) and unparse(e.func) in ("cast", "typing.cast") and len(e.args) == 2):
        e = e.args[1] if isinstance(e, ast.Call) else e.value
    return e


def _root(e):
    """The expression whose object owns what `e` denotes: subscripts, attributes, casts and `.setdefault/.get` chains removed."""
    while True:
        e = _strip(e)
        if isinstance(e, (ast.Subscript, ast.Starred)):
            e = e.value
        elif isinstance(e, ast.Attribute):
            if isinstance(e.value, ast.Name) and e.value.id == "self":
                return e.value
            e = e.value
        elif isinstance(e, ast.Call) and isinstance(e.func, ast.Attribute) and e.func.attr in _PART_OF:
            e = e.func.value
        else:
            return e


def _self_rooted(f, e, at: int, depth: int = 4) -> bool:
    """`e`, evaluated at CFG node `at`, denotes (a part of) the state of `self`, possibly through local aliases."""
    r = _root(e)
    if not isinstance(r, ast.Name):
        return False
    if r.id == "self":
        return True
    if depth <= 0:
        return False
    ds = reaching(f, r.id, at)
    if not ds or "param" in ds:
        return False
    for d in ds:
        node = f.cfg.nodes[d]
        v = def_value(f, r.id, d)
        if v is None and node.kind == "iter" and isinstance(node.ast.target, ast.Name):
            v = node.ast.iter  # `for entry in self.graph.values()`
            if isinstance(v, ast.Call) and isinstance(v.func, ast.Attribute) and v.func.attr in ("values", "items") and not v.args:
                v = v.func.value
        if v is None or not _self_rooted(f, v, d, depth - 1):
            return False
    return True


def _registry_test(f, test, at: int) -> str | None:
    """Text of the membership question if `test` (evaluated at CFG node `at`) asks whether a key is filed in a registry of self."""
    for e, _ in flow_values(f, test, at):
        for n in [e, *ast.walk(e)]:
            if isinstance(n, ast.Compare) and len(n.ops) == 1 and isinstance(n.ops[0], (ast.In, ast.NotIn)):
                c = _strip(n.comparators[0])
                if isinstance(c, ast.Call) and isinstance(c.func, ast.Attribute) and c.func.attr == "keys" and not c.args:
                    c = c.func.value
                for v, _d in flow_values(f, c, at):
                    if any(_is_self_attr(v, r) for r in _REGISTRIES):
                        return f"{unparse(n.left)} in self.{v.attr}"
            elif isinstance(n, ast.Call) and isinstance(n.func, ast.Attribute) and n.func.attr in ("get", "__contains__") and len(n.args) == 1 \
                    and any(_is_self_attr(n.func.value, r) for r in _REGISTRIES):
                return f"{unparse(n.args[0])} in self.{n.func.value.attr}"
            elif isinstance(n, ast.Name) and n is not e and isinstance(n.ctx, ast.Load) and n.id != "self":
                # a flag computed earlier: `known = K in self.graph` ... `if not known:`
                for v, d in flow_values(f, n, at):
                    if v is not n and isinstance(_strip(v), (ast.Compare, ast.UnaryOp, ast.BoolOp)) and (q := _registry_test(f, v, d)):
                        return q
    return None


def _accumulates(v, name: str) -> bool:
    """`v` builds a new collection / sum out of the current value of local `name`: `name + ...`, `[*name, ...]`, `{**name, ...}`."""
    def is_x(e):
        return isinstance(e, ast.Name) and e.id == name

    v = _strip(v) if v is not None else None
    if isinstance(v, ast.BinOp):
        return is_x(v.left) or is_x(v.right) or _accumulates(v.left, name) or _accumulates(v.right, name)
    if isinstance(v, (ast.List, ast.Tuple, ast.Set)):
        return any(isinstance(e, ast.Starred) and is_x(e.value) for e in v.elts)
    if isinstance(v, ast.Dict):
        return any(k is None and is_x(e) for k, e in zip(v.keys, v.values))
    return False


def _mutations(node):
    """[(receiver expression, construct)] for the in-place changes made by CFG node `node` itself."""
    out = []
    a = node.ast
    if node.kind == "stmt" and isinstance(a, (ast.Assign, ast.AnnAssign, ast.AugAssign)):
        tg = a.targets if isinstance(a, ast.Assign) else [a.target]
        for t in tg:
            for x in (t.elts if isinstance(t, (ast.Tuple, ast.List)) else [t]):
                if isinstance(x, (ast.Subscript, ast.Attribute)):
                    out.append((x.value, a))
                elif isinstance(x, ast.Name) and (isinstance(a, ast.AugAssign) or _accumulates(a.value, x.id)):
                    out.append((x, a))  # accumulation: `x += ...`, `x = x + ...`, `x = [*x, ...]`
    elif node.kind == "stmt" and isinstance(a, ast.Delete):
        out.extend((t.value, a) for t in a.targets if isinstance(t, (ast.Subscript, ast.Attribute)))
    for c in node.walk():
        if isinstance(c, ast.Call) and isinstance(c.func, ast.Attribute) and c.func.attr in _MUTATORS:
            out.append((c.func.value, c))
    return out


def _outer_objects(f, e, at: int, reg: set[int], depth: int = 4) -> list[str]:
    """Locals bound *outside* the CFG region `reg` (or parameters) whose object is changed when the object denoted by
    `e` at node `at` (inside `reg`) is changed, and which are not part of the state of `self`."""
    r = _root(e)
    if not isinstance(r, ast.Name) or r.id == "self":
        return []  # self state, or a temporary created by this very expression
    out = []
    for d in reaching(f, r.id, at):
        if d == "param":
            out.append(r.id)
        elif d in reg:
            v = def_value(f, r.id, d)
            if isinstance(f.cfg.nodes[d].ast, ast.AugAssign) or _accumulates(v, r.id):
                continue  # the accumulation itself (reported at its own node)
            if v is not None and depth > 0:
                out.extend(_outer_objects(f, v, d, reg, depth - 1))  # alias taken inside the region
        elif not _self_rooted(f, r, at):
            out.append(r.id)
    return out


def _filed_here(f, reg: set[int]) -> set[str]:
    """Locals handed to the state of self by the nodes of `reg` (`self.graph[K] = X`, `self.graph[..].append(X)`)."""
    out: set[str] = set()
    g = f.cfg
    for u in reg:
        for recv, what in _mutations(g.nodes[u]):
            if not _self_rooted(f, recv, u):
                continue
            vals = [what.value] if isinstance(what, (ast.Assign, ast.AnnAssign, ast.AugAssign)) and what.value is not None else \
                [*what.args, *(k.value for k in what.keywords)] if isinstance(what, ast.Call) else []
            out |= {v.id for v in vals if isinstance(v, ast.Name)}
    return out


def r7(ctx):
    p = ctx.prog
    guards = 0
    for f in _methods(p):
        if f.is_abstract or not any(isinstance(n, ast.Attribute) and n.attr in _REGISTRIES for n in f.body_nodes()):
            continue
        g = f.cfg
        for t in list(g.nodes.values()):
            if t.kind != "test" or t.ast is None:
                continue
            q = _registry_test(f, t.ast, t.id)
            if q is None:
                continue
            guards += 1
            regs = {k: region(g, t.id, k) for k in ("t", "f")}
            texts = {k: {unparse(w) for u in regs[k] for _, w in _mutations(g.nodes[u])} for k in regs}
            bad = []
            for k, other in (("t", "f"), ("f", "t")):
                # the other side only raises: an error check, everything after it is "this side" (nothing is skipped silently)
                if g.exit not in g.reach([b for b, kk in g.succ[t.id] if kk == other], include_src=True):
                    continue
                filed = None
                for u in sorted(regs[k]):
                    for recv, what in _mutations(g.nodes[u]):
                        outer = _outer_objects(f, recv, u, regs[k])
                        if not outer or unparse(what) in texts[other]:
                            continue
                        if filed is None:
                            filed = _filed_here(f, regs[k])
                        outer = [x for x in outer if x not in filed]
                        if outer:
                            bad.append((what, outer[0], k))
            w = bad[0] if bad else None
            ctx.ob("R7", f"{f.name}: the guard `{q}` decides registration only", not bad, func=f, node=(w[0] if w else t.ast), instance=f"dedup-guard:{q}",
                   message=(f"{f.name}: `{unparse(w[0])[:80]}` changes `{w[1]}` only on the {'true' if w[2] == 't' else 'false'} side of the de-duplication guard "
                            f"`{unparse(t.ast)[:60]}`: `{w[1]}` is built for the caller, not part of the registry -- an element whose entity is already filed (same "
                            "content as an earlier file) is referenced / described differently from a new one in the exported value") if w else "")
    ctx.require(guards >= 6, f"C34.R7: only {guards} de-duplication guards (`K in self.graph / self.files_map`) found")


RULES = [("R1", r1), ("R2", r2), ("R3", r3), ("R4", r4), ("R5", r5), ("R6", r6), ("R7", r7)]
FLOORS = {"R1": 30, "R2": 5, "R3": 1, "R4": 4, "R5": 3, "R6": 20, "R7": 6}

_PFT = f"{CWL}._process_file_token"
_CA = f"{BASE}.create_archive"
_LD = f"{BASE}._list_dir"
_GPV = f"{CWL}.get_property_value"
_HN = "hashlib.new('sha1', usedforsecurity=False)"
# normalised text of _list_dir's loop up to the checksum call (seeded change C34-1 hoists the hash object out of it)
_LD_LOOP = (
    "for element in dir_content:\n"
    "            element_path = os.path.join(path, element)\n"
    "            if os.path.isdir(element_path):\n"
    "                jsonld_object = {'@type': 'Dataset'}\n"
    "                if (inner_has_part := (await self._list_dir(element_path, jsonld_map))):\n"
    "                    jsonld_object['hasPart'] = inner_has_part\n"
    "                    jsonld_object['@id'] = _checksum(''.join(sorted([part['@id'] for part in inner_has_part])))\n"
    "                    jsonld_object['alternateName'] = os.path.basename(element_path)\n"
    "                else:\n"
    "                    jsonld_object['@id'] = os.path.basename(element_path)\n"
    "            else:\n"
    "                checksum = _file_checksum(element_path, "
)
# normalised text of the "command inputs and outputs" part of create_archive's per-run loop (seeded change C34-3 moves the
# add_initial_inputs call from before it to after the loop)
_CA_IO = (
    "        for step_name in self.step_map:\n"
    "            if (step := workflow.steps.get(step_name)):\n"
    "                for port_name, port in step.get_input_ports().items():\n"
    "                    if (jsonld_port := self.input_port_map.get(posixpath.join(step_name, port_name))):\n"
    "                        if (property_values := (await self._get_property_values(port_name, port, jsonld_port, step_name))):\n"
    "                            self._update_actions(wf_id=wf_id, property_values=property_values, step_name=step_name, is_input=True)\n"
    "                for port_name, port in step.get_output_ports().items():\n"
    "                    if (jsonld_port := self.output_port_map.get(posixpath.join(step_name, port_name))):\n"
    "                        if (property_values := (await self._get_property_values(port_name, port, jsonld_port, step_name))):\n"
    "                            self._update_actions(wf_id=wf_id, property_values=property_values, step_name=step_name, is_input=False)\n"
)
_AII = "await self.add_initial_inputs(wf_id, workflow)\n"
_GTV = "elif (value := get_token_value(token)) is not None:"
_RP = f"{BASE}._rename_parts"
# normalised text of _rename_parts from the @id rewrite to the graph store (refactoring B11-7 caches the repeated
# subscripts part['@id'] / self.graph[part['@id']] / part['alternateName'] in locals)
_RP_ID = "part['@id'] = os.path.join(prefix, part['@id'])\n"
_RP_ALT = "        if 'alternateName' in part:\n            part['alternateName'] = os.path.join(alternatePrefix, part['alternateName'])\n"
_RP_STORE = "        self.files_map[path] = part['@id']\n        if part['@id'] not in self.graph:\n            self.graph[part['@id']] = part\n"
_RP_TMP_ID = "part_id = os.path.join(prefix, part['@id'])\n        part['@id'] = part_id\n"
_RP_TMP_STORE = "        self.files_map[path] = part_id\n        if part_id not in self.graph:\n            self.graph[part_id] = part\n"

# normalised text of the File / Dataset branch of get_property_value's ListToken loop (seeded change C34-mut2 moves the
# `value.append` of the element reference under the de-duplication guard)
_LT_GUARD = "                if property_value['@id'] not in self.graph:\n"
_LT_HP = "self.graph['./']['hasPart'].append({'@id': property_value['@id']})\n"
_LT_ST = "self.graph[property_value['@id']] = property_value\n"
_LT_REF = "value.append({'@id': property_value['@id']})\n"
_I16, _I20 = " " * 16, " " * 20
_LT = _LT_GUARD + _I20 + _LT_HP + _I20 + _LT_ST + _I16 + _LT_REF
_GT_GUARD = "if (path := cwl_tool.id.split('#')[0][7:]) not in self.files_map:\n            self.graph['./']['hasPart'].append({'@id': entity_id})\n            self.files_map[path] = os.path.basename(path)\n"
_GT_SHA = "jsonld_tool['sha1'] = _file_checksum(path, hashlib.new('sha1', usedforsecurity=False))\n"
_DS_GUARD = "if dataset['@id'] not in self.graph:\n                self.graph['./']['hasPart'].append({'@id': dataset['@id']})\n"

VARIANTS = [
    # ---- breaking
    V("engine stored under a fresh uuid", FILE, _CA, "self.graph[engine['@id']] = engine", "self.graph['#' + str(uuid.uuid4())] = engine", "R1", control=True),
    V("engine stored under the main entity's id", FILE, _CA, "self.graph[engine['@id']] = engine", "self.graph[main_entity['@id']] = engine", "R1"),
    V("file literal keyed by checksum but @id is the basename", FILE, _PFT, "self.graph[token_value['checksum'][5:]] = {'@id': token_value['checksum'][5:],",
      "self.graph[token_value['checksum'][5:]] = {'@id': token_value['basename'],", "R1"),
    V("file literal without @id", FILE, _PFT, "self.graph[token_value['checksum'][5:]] = {'@id': token_value['checksum'][5:], '@type': 'File',",
      "self.graph[token_value['checksum'][5:]] = {'@type': 'File',", "R1"),
    V("add_file: @id assignment dropped", FILE, f"{BASE}.add_file", "jsonld_file['@id'] = dst\n", "pass\n", "R1"),
    V("add_file: dst rebound between @id and store", FILE, f"{BASE}.add_file", "jsonld_file['@id'] = dst\n", "jsonld_file['@id'] = dst\n            dst = posixpath.basename(dst)\n", "R1"),
    V("@id changed after filing", FILE, f"{CWL}._get_step", "self.graph[work_example['@id']] = work_example", "self.graph[work_example['@id']] = work_example\n    work_example['@id'] = step_name", "R1"),
    V("@graph exports the keys", FILE, _CA, "'@graph': list(self.graph.values())", "'@graph': list(self.graph.keys())", "R1"),
    V("@graph filtered", FILE, _CA, "'@graph': list(self.graph.values())", "'@graph': [v for v in self.graph.values() if '@type' in v]", "R1"),
    V("initial entry under a foreign key", FILE, BASE, "'ro-crate-metadata.json': {'@id': 'ro-crate-metadata.json',", "'ro-crate-metadata.json': {'@id': 'ro-crate-metadata.jsonld',", "R1"),
    V("metadata dumped from another dict", FILE, _CA, "f.write(json.dumps(metadata, indent=4, sort_keys=True).encode('utf-8'))", "f.write(json.dumps(self.graph, indent=4, sort_keys=True).encode('utf-8'))", "R1"),
    V("config File entity without files_map entry", FILE, _CA, "self.files_map[config] = config_checksum", "pass", "R2", control=True),
    V("config files_map value is not the @id", FILE, _CA, "self.files_map[config] = config_checksum", "self.files_map[config] = os.path.basename(config)", "R2"),
    V("token file registered only with secondaryFiles", FILE, _PFT,
      "else:\n            self.files_map[token_value['path']] = token_value['checksum'][5:]\n            return {", "else:\n            return {", "R2"),
    V("token file registered under the basename", FILE, _PFT,
      "self.files_map[token_value['path']] = token_value['checksum'][5:]\n            return {", "self.files_map[token_value['path']] = token_value['basename']\n            return {", "R2"),
    V("_rename_parts no longer registers parts", FILE, f"{BASE}._rename_parts", "self.files_map[path] = part['@id']", "pass", "R2"),
    V("directory listing not handed to _rename_parts", FILE, _PFT, "dataset['hasPart'] = self._rename_parts(has_part, jsonld_map, dataset['@id'], dataset['alternateName'])",
      "dataset['hasPart'] = has_part", "R2"),
    V("archive.write arguments swapped", FILE, _CA, "archive.write(src, dst)", "archive.write(dst, src)", "R3"),
    V("archive loop over the keys only", FILE, _CA, "for src, dst in self.files_map.items():", "for src, dst in zip(self.files_map, self.files_map):", "R3"),
    # R4 (seeded change C34-1 and siblings)
    V("_list_dir: one sha1 object for all the files of a directory (seeded C34-1)", FILE, _LD, _LD_LOOP + _HN + ")",
      "sha1_checksum = " + _HN + "\n        " + _LD_LOOP + "sha1_checksum)", "R4", control=True),
    V("_list_dir: File literal built by a module-level helper (benign round 7)", FILE, _LD, "jsonld_object = {'@id': checksum, '@type': 'File', 'alternateName': os.path.basename(element_path), 'sha1': checksum}", "jsonld_object = _sf_file(element_path, checksum)", None,
      append="def _sf_file(element_path, checksum):\n    return {'@id': checksum, '@type': 'File', 'alternateName': os.path.basename(element_path), 'sha1': checksum}\n"),
    V("config File literal built by a module-level helper (benign)", FILE, _CA, "config_file = {'@id': config_checksum, '@type': 'File', 'alternateName': os.path.basename(config), 'encodingFormat': 'application/yaml', 'sha1': config_checksum}", "config_file = _sf_cfg(config, config_checksum)", None,
      append="def _sf_cfg(config, cs):\n    return {'@id': cs, '@type': 'File', 'alternateName': os.path.basename(config), 'encodingFormat': 'application/yaml', 'sha1': cs}\n"),
    V("config File literal built by a helper, files_map entry dropped", FILE, _CA, "config_file = {'@id': config_checksum, '@type': 'File', 'alternateName': os.path.basename(config), 'encodingFormat': 'application/yaml', 'sha1': config_checksum}\n        self.files_map[config] = config_checksum", "config_file = _sf_cfg(config, config_checksum)", "R2",
      append="def _sf_cfg(config, cs):\n    return {'@id': cs, '@type': 'File', 'alternateName': os.path.basename(config), 'encodingFormat': 'application/yaml', 'sha1': cs}\n"),
    V("config File literal built by a helper, files_map value is another name", FILE, _CA, "config_file = {'@id': config_checksum, '@type': 'File', 'alternateName': os.path.basename(config), 'encodingFormat': 'application/yaml', 'sha1': config_checksum}\n        self.files_map[config] = config_checksum", "config_file = _sf_cfg(config, config_checksum)\n        self.files_map[config] = os.path.basename(config)", "R2",
      append="def _sf_cfg(config, cs):\n    return {'@id': cs, '@type': 'File', 'alternateName': os.path.basename(config), 'encodingFormat': 'application/yaml', 'sha1': cs}\n"),
    V("_list_dir: hash object kept on the instance", FILE, _LD, "_file_checksum(element_path, " + _HN + ")", "_file_checksum(element_path, self.sha1)", "R4"),
    V("_list_dir: hash object cached in a shared mapping", FILE, _LD, "_file_checksum(element_path, " + _HN + ")",
      "_file_checksum(element_path, jsonld_map.setdefault('#sha1', " + _HN + "))", "R4"),
    V("_list_dir: hash object is a parameter shared by the recursive calls", FILE, _LD, "_file_checksum(element_path, " + _HN + ")", "_file_checksum(element_path, jsonld_map)", "R4"),
    V("create_archive: config hashed with an object that was already fed", FILE, _CA, "config_checksum = _file_checksum(config, " + _HN + ")",
      "hasher = " + _HN + "\n        hasher.update(outdir.encode('utf-8'))\n        config_checksum = _file_checksum(config, hasher)", "R4"),
    V("get_main_entity: module level hash object", FILE, f"{CWL}.get_main_entity", "_file_checksum(path, " + _HN + ")", "_file_checksum(path, _SHA1)", "R4",
      append="_SHA1 = hashlib.new('sha1', usedforsecurity=False)"),
    # R5 (seeded change C34-2 and siblings)
    V("get_property_value: truthiness instead of `is not None` (seeded C34-2)", FILE, _GPV, _GTV, "elif (value := get_token_value(token)):", "R5"),
    V("get_property_value: `is not None and value`", FILE, _GPV, _GTV, "elif (value := get_token_value(token)) is not None and value:", "R5"),
    V("get_property_value: bool() of the value", FILE, _GPV, _GTV, "elif bool((value := get_token_value(token))):", "R5"),
    V("get_property_value: early `if not raw: return None`", FILE, _GPV, "if isinstance(token, ListToken):",
      "raw = get_token_value(token)\n    if not raw:\n        return None\n    if isinstance(token, ListToken):", "R5"),
    V("get_property_value: conditional expression on the value", FILE, _GPV,
      _GTV + "\n        return {'@id': '#' + str(uuid.uuid4()), '@type': 'PropertyValue', 'name': name, 'value': str(value)}",
      "else:\n        value = get_token_value(token)\n        return {'@id': '#' + str(uuid.uuid4()), '@type': 'PropertyValue', 'name': name, 'value': str(value)} if value else None\n"
      "    if token is None:\n        pass", "R5"),
    # R6 (seeded change C34-3 and siblings)
    V("create_archive: add_initial_inputs moved behind the per-run loop (seeded C34-3)", FILE, _CA, "        " + _AII + _CA_IO, _CA_IO + "    " + _AII, "R6", control=True),
    V("create_archive: add_initial_inputs before the loop for the first run only", FILE, _CA,
      "    for wf_id, workflow in enumerate(self.workflows):\n        wf_obj =", "    await self.add_initial_inputs(0, self.workflows[0])\n    for wf_id, workflow in enumerate(self.workflows):\n        wf_obj =", "R6"),
    V("create_archive: add_initial_inputs only for the first run", FILE, _CA, "        " + _AII, "        if wf_id == 0:\n            " + _AII, "R6"),
    V("create_archive: add_initial_inputs always with the first workflow", FILE, _CA, _AII, "await self.add_initial_inputs(wf_id, self.workflows[0])\n", "R6"),
    V("create_archive: add_initial_inputs with a constant run index", FILE, _CA, _AII, "await self.add_initial_inputs(0, workflow)\n", "R6"),
    V("create_archive: add_initial_inputs dropped", FILE, _CA, "        " + _AII, "        pass\n", "R6"),
    V("create_archive: output values of the last run only (loop variable read after the loop)", FILE, _CA, "    for file in additional_files or []:",
      "    logger.info(f'exported {wf_id + 1} runs of {workflow.name}')\n    for file in additional_files or []:", "R6"),
    # R7 (seeded change C34-mut2 and siblings)
    V("get_property_value: element reference appended only when its entity is new (seeded C34-mut2)", FILE, _GPV, _LT,
      _LT_GUARD + _I20 + _LT_HP + _I20 + _LT_ST + _I20 + _LT_REF, "R7", control=True),
    V("get_property_value: `continue` when the entity is already filed, reference appended after it", FILE, _GPV, _LT,
      "                if property_value['@id'] in self.graph:\n" + _I20 + "continue\n" + _I16 + _LT_HP + _I16 + _LT_ST + _I16 + _LT_REF, "R7"),
    V("get_property_value: reference accumulated with `value = value + [...]` under a flag computed from the guard", FILE, _GPV, _LT,
      "                is_new = not property_value['@id'] in self.graph\n                if is_new:\n" + _I20 + _LT_HP + _I20 + _LT_ST + _I20
      + "value = value + [{'@id': property_value['@id']}]\n", "R7"),
    V("get_property_value: reference appended only when the entity is already filed", FILE, _GPV, _LT,
      _LT_GUARD + _I20 + _LT_HP + _I20 + _LT_ST + _I16 + "else:\n" + _I20 + _LT_REF, "R7"),
    V("get_property_value: guard spelled `self.graph.get(..) is None`, reference through an alias of the accumulator", FILE, _GPV, _LT,
      "                if self.graph.get(property_value['@id']) is None:\n" + _I20 + _LT_HP + _I20 + _LT_ST + _I20 + "refs = value\n" + _I20
      + "refs.append({'@id': property_value['@id']})\n", "R7"),
    V("_get_tool: sha1 of the tool computed only when its file is registered for the first time", FILE, f"{CWL}._get_tool", _GT_GUARD + "        " + _GT_SHA,
      _GT_GUARD + "            " + _GT_SHA, "R7"),
    V("_get_property_values: returned mapping pruned when the entity is already filed", FILE, f"{BASE}._get_property_values",
      "            self.graph[property_value['@id']] = property_value\n", "            self.graph[property_value['@id']] = property_value\n        else:\n"
      "            dependencies = set()\n            property_value.pop('exampleOfWork', None)\n", "R7"),
    # temporaries for part['@id'] (shape of refactoring B11-7) that are *not* the current @id
    V("_rename_parts: @id temporary rebound between the @id assignment and the graph store", FILE, _RP, _RP_ID + _RP_ALT + _RP_STORE,
      _RP_TMP_ID + _RP_ALT + "        self.files_map[path] = part['@id']\n        part_id = os.path.basename(part_id)\n        if part_id not in self.graph:\n            self.graph[part_id] = part\n", "R1"),
    V("_rename_parts: graph keyed by a copy of the @id taken before it is rewritten", FILE, _RP, _RP_ID + _RP_ALT + _RP_STORE,
      "old_id = part['@id']\n        " + _RP_ID + _RP_ALT + "        self.files_map[path] = part['@id']\n        if old_id not in self.graph:\n            self.graph[old_id] = part\n", "R1"),
    V("_rename_parts: @id rewritten on one branch only, graph keyed by the temporary", FILE, _RP, _RP_ID + _RP_ALT + _RP_STORE,
      "part_id = os.path.join(prefix, part['@id'])\n        if prefix:\n            part['@id'] = part_id\n" + _RP_ALT
      + "        self.files_map[path] = part['@id']\n        if part_id not in self.graph:\n            self.graph[part_id] = part\n", "R1"),
    V("_rename_parts: files_map gets a copy of the @id taken before it is rewritten", FILE, _RP, _RP_ID + _RP_ALT + "        self.files_map[path] = part['@id']\n",
      "old_id = part['@id']\n        " + _RP_ID + _RP_ALT + "        self.files_map[path] = old_id\n", "R2"),
    V("_rename_parts: files_map gets the @id temporary after it was rebound", FILE, _RP, _RP_ID + _RP_ALT + "        self.files_map[path] = part['@id']\n",
      _RP_TMP_ID + _RP_ALT + "        part_id = os.path.basename(part_id)\n        self.files_map[path] = part_id\n", "R2"),
    # ---- benign
    V("benign: @id built into a local first", FILE, _PFT,
      "self.files_map[token_value['path']] = token_value['checksum'][5:]\n            self.graph[token_value['checksum'][5:]] = {'@id': token_value['checksum'][5:],",
      "file_id = token_value['checksum'][5:]\n            self.files_map[token_value['path']] = file_id\n            self.graph[file_id] = {'@id': file_id,", None),
    V("benign: files_map entry after the graph store", FILE, _CA,
      "self.files_map[config] = config_checksum\n        self.graph['./']['hasPart'].append({'@id': config_file['@id']})\n        self.graph[config_file['@id']] = config_file",
      "self.graph['./']['hasPart'].append({'@id': config_file['@id']})\n        self.graph[config_file['@id']] = config_file\n        self.files_map[config] = config_checksum", None),
    V("benign: rename engine", FILE, _CA, "engine", "sf_engine", None, count=4),
    V("benign: @graph through a local", FILE, _CA, "metadata = {'@context'", "entities = list(self.graph.values())\n    metadata = {'@context'", None),
    V("benign: logging in _rename_parts", FILE, f"{BASE}._rename_parts", "self.files_map[path] = part['@id']", "logger.debug(path)\n        self.files_map[path] = part['@id']", None),
    V("benign: files_map value read back from the entity", FILE, _CA, "self.files_map[config] = config_checksum", "self.files_map[config] = config_file['@id']", None),
    V("benign: hash object built into a local right before the call", FILE, _LD, "checksum = _file_checksum(element_path, " + _HN + ")",
      "file_hash = " + _HN + "\n                checksum = _file_checksum(element_path, file_hash)", None),
    V("benign: hash object local created at the top of the loop body", FILE, _LD, "element_path = os.path.join(path, element)\n",
      "element_path = os.path.join(path, element)\n            unused_hash = " + _HN + "\n            logger.debug(unused_hash.name)\n", None),
    V("benign: hash object passed by keyword", FILE, _LD, "_file_checksum(element_path, " + _HN + ")", "_file_checksum(element_path, hash_function=" + _HN + ")", None),
    V("benign: hashlib.sha1 constructor", FILE, _LD, "_file_checksum(element_path, " + _HN + ")", "_file_checksum(element_path, hashlib.sha1(usedforsecurity=False))", None),
    V("benign: `!= None` / negated `is None` value test", FILE, _GPV, _GTV, "elif not (value := get_token_value(token)) is None:", None),
    V("benign: value fetched before the None test", FILE, _GPV, "if isinstance(token, ListToken):",
      "raw = get_token_value(token)\n    if raw is None and (not isinstance(token, (ListToken, FileToken, ObjectToken))):\n        return None\n    if isinstance(token, ListToken):", None),
    V("benign: truthiness of a non-value in a deciding test", FILE, _GPV, _GTV, "elif name and (value := get_token_value(token)) is not None:", None),
    V("benign: add_initial_inputs earlier in the per-run loop, keyword arguments", FILE, _CA,
      "        " + _AII + _CA_IO, "        current = workflow\n        position = wf_id\n        await self.add_initial_inputs(workflow=current, wf_id=position)\n" + _CA_IO, None),
    V("benign: add_initial_inputs at the end of the per-run loop", FILE, _CA, "        " + _AII + _CA_IO, _CA_IO + "        " + _AII, None),
    V("benign: loop over the runs by index", FILE, _CA, "for wf_id, workflow in enumerate(self.workflows):\n",
      "for wf_id in range(len(self.workflows)):\n        workflow = self.workflows[wf_id]\n", None),
    # refactoring B11-7: temporaries for the repeated subscripts of _rename_parts
    V("benign: _rename_parts computes the new @id into a local used for part['@id'], files_map and the graph key (B11-7)", FILE, _RP,
      _RP_ID + _RP_ALT + _RP_STORE, _RP_TMP_ID + _RP_ALT + _RP_TMP_STORE, None),
    V("benign: _rename_parts reads the rewritten @id back into a local (B11-7)", FILE, _RP, _RP_STORE, "        part_id = part['@id']\n" + _RP_TMP_STORE, None),
    V("benign: _rename_parts merges alternate names through an alias of the stored entity (B11-7)", FILE, _RP,
      "if not isinstance(self.graph[part['@id']]['alternateName'], MutableSequence):\n                self.graph[part['@id']]['alternateName'] = [self.graph[part['@id']]['alternateName']]\n"
      "            if part['alternateName'] not in self.graph[part['@id']]['alternateName']:\n                self.graph[part['@id']]['alternateName'].append(part['alternateName'])",
      "graph_entry = self.graph[part['@id']]\n            if not isinstance(graph_entry['alternateName'], MutableSequence):\n                graph_entry['alternateName'] = [graph_entry['alternateName']]\n"
      "            alternate_name = part['alternateName']\n            if alternate_name not in graph_entry['alternateName']:\n                graph_entry['alternateName'].append(alternate_name)", None),
    # R7: other spellings of "register if new, reference always"
    V("benign: reference appended on both sides of the guard", FILE, _GPV, _LT,
      _LT_GUARD + _I20 + _LT_HP + _I20 + _LT_ST + _I20 + _LT_REF + _I16 + "else:\n" + _I20 + _LT_REF, None),
    V("benign: guard with swapped polarity, reference after it", FILE, _GPV, _LT,
      "                if property_value['@id'] in self.graph:\n" + _I20 + "pass\n" + _I16 + "else:\n" + _I20 + _LT_HP + _I20 + _LT_ST + _I16 + _LT_REF, None),
    V("benign: guard through a flag, reference built before it", FILE, _GPV, _LT,
      "                ref = {'@id': property_value['@id']}\n                is_new = ref['@id'] not in self.graph.keys()\n                if is_new:\n"
      + _I20 + "self.graph['./']['hasPart'].append(ref)\n" + _I20 + _LT_ST + _I16 + "value.append(ref)\n", None),
    V("benign: references collected in a list created under the guard", FILE, _PFT, _DS_GUARD,
      "if dataset['@id'] not in self.graph:\n                new_refs = []\n                new_refs.append({'@id': dataset['@id']})\n"
      "                self.graph['./']['hasPart'].extend(new_refs)\n", None),
    V("benign: the entity filed under the guard is completed there", FILE, _PFT, _DS_GUARD, _DS_GUARD + "                dataset['name'] = token_value['basename']\n", None),
    V("benign: registry entry updated through an alias when the key is already filed", FILE, _PFT, _DS_GUARD,
      "if dataset['@id'] in self.graph:\n                known = self.graph[dataset['@id']]\n                known.setdefault('alternateName', dataset['alternateName'])\n"
      "            else:\n                self.graph['./']['hasPart'].append({'@id': dataset['@id']})\n", None),
]
