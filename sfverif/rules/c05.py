"""C05 Workflow results do not depend on the interleaving.

Clauses decided (sibling comparison, P11):
R1 tag-keyed firing idiom.  Every function that calls `_group_by_tag(inputs, inputs_map)` (today six:
   ConditionalStep.run, DeployStep.run, ExecuteStep._check_inputs, ScheduleStep.run, TransferStep.run,
   Transformer.run -- enumerated through the call sites, so a new sibling is checked too)
   (a) groups before it tests, (b) fires a tag only on `len(inputs_map[tag]) == len(<ports>)` where
   <ports> denotes the same port mapping that was handed to `_get_inputs` (`self.input_ports` and
   `self.get_input_ports()` have the same key set; a filtered local mapping must be used on both
   sides; for a helper that receives `inputs` as a parameter the caller must pass the mapping it reads);
   either operand may be kept in a temporary (`n = len(inputs_map[tag])` ... `if n == len(ports):`): it is
   read through its reaching definition(s), the grouping must dominate the place where the size is
   *evaluated*, and no grouping may lie between that place and the test,
   (c) removes the fired tag from the map on every path through the firing branch (`pop`/`del`),
   (d) iterates a snapshot of the keys while it pops.  Firing on `>=`, on a different port set, or
   without removing the tag pairs tokens by arrival instead of by tag / fires a tag twice.
   (e) every other `_get_inputs` reader that reads more than one port must group by tag as well
   (single-key dict literal or a dominating `len(ports) != 1 -> raise` guard = one port; the guard is
   recognised by the edge on which `len(ports) == 1` is implied -- `!=`, `not ==`, flipped operands, a
   size kept in a temporary -- whose other edge never returns normally).
R2 `StreamFlowExecutor._wait_outputs` / `run`: results are stored under the name of the task that
   delivered them, every output task is named after the port it reads, and the re-armed task reads the
   port with the consumed task's name.  An output task is recognised by what the stored value denotes,
   not by its text: plain temporaries are followed by def-use, and a call of a program function that
   returns the task (or performs the `self.output_tasks[K] = ...` store itself) is followed with an
   inlining bound of 2 -- the helper's create_task expression is lifted into the caller's frame
   (parameters -> argument expressions) and key / name / port are compared there; a helper whose
   store depends on its own loop variables is checked in its own frame.  A helper that creates the
   task in a shape that cannot be lifted (star arguments, rebound parameters) is an analysis error.

Deviation from DESIGN.md (C05.R1 c): DESIGN asks that the tag is popped *before* it is processed.  The
map is a local of the single task that runs the loop, so the position of the pop relative to the awaits
is not observable; the armed condition is that the tag is removed on every normal path through the
firing branch before the next tag / the next read (a `del` counts as well).

Not armed (observation): DeployStep.run discards the popped group and builds the provenance of the
deployment token from the last-read `inputs`; the emitted value/tag do not depend on it (C07 matter).
Left undecided: equality of results itself; order dependence introduced by user expressions; LIFO
consumption in DotProductCombinator when a port holds several tokens of one tag; DefaultRetagTransformer
reading its primary port on demand.
"""

from __future__ import annotations

import ast

from ..cfg import NORMAL
from ..model import dotted, enclosing_stmt, unparse
from ..selftest import V
from ._util_A import (
    calls_named,
    branch_succ,
    builtin_call,
    test_compares,
    fire_edge,
    guarded_init,
    in_subtree,
    is_const,
    kwarg,
    method_call,
    name_def,
    nid_of,
    origin_at,
    rdefs,
    require_members,
    resolves_to,
    same,
    scoped_binding,
    single_origin,
    strip_await,
)

STEP = "streamflow.workflow.step"
GBT = f"{STEP}._group_by_tag"
EXE = "streamflow.workflow.executor.StreamFlowExecutor"
SFILE = "streamflow/workflow/step.py"
EFILE = "streamflow/workflow/executor.py"

META = {
    "explanation": (
        "Sibling comparison of the tag-grouping loops: for every call site of _group_by_tag the firing test "
        "(operator, both operands' origins), the removal of the fired tag (must-pass-through on the CFG), the "
        "snapshot iteration and the agreement between the port mapping read and the one counted are extracted and "
        "checked; every other multi-port _get_inputs reader must use the idiom. Executor: def-use check that results "
        "are keyed by the delivering task's name, tasks are named after their port and re-armed on that port "
        "(the task creation is followed through temporaries and through helpers that return or store the task, inlining bound 2). "
        "Decides necessary structural conditions of schedule independence; the results themselves are not computed."
    ),
    "undecided": "equality of results itself; order dependence introduced by user-level expressions; LIFO consumption in DotProductCombinator",
    "assumptions": ["Step.input_ports and Step.get_input_ports() have the same key set", "ports are FIFO per consumer (C03)"],
}


def _self_call(e, attr):
    e = strip_await(e)
    if isinstance(e, ast.Call) and isinstance(e.func, ast.Attribute) and e.func.attr == attr and isinstance(e.func.value, ast.Name) and e.func.value.id == "self":
        return e
    return None


def ports_canon(f, e, nid) -> set[str]:
    """Canonical denotation(s) of a port-mapping expression."""
    out = set()
    for o in origin_at(f, e, nid):
        sc = _self_call(o, "get_input_ports")
        gi = _self_call(o, "_get_inputs")
        if gi is not None and len(gi.args) == 1 and not gi.keywords:
            # the mapping returned by _get_inputs(P) has exactly the keys of P
            out |= ports_canon(f, gi.args[0], nid_of(f, gi) or nid)
        elif (sc is not None and not sc.args and not sc.keywords) or dotted(o) == "self.input_ports":
            out.add("ALL")
        elif isinstance(o, ast.Name):
            d = name_def(f, o, nid)
            out.add(f"param:{o.id}" if d is not None and d.kind == "param" else f"name:{o.id}")
        else:
            out.add(" ".join(unparse(o).split()))
    return out


def _operand(f, e, nid, depth: int = 4):
    """(expression, [CFG nodes where it is evaluated]) the operand `e` of a test at CFG node `nid` denotes: a local
    whose reaching definitions are all plain assignments / walruses of the same expression is read as that
    expression (`n = len(inputs_map[tag])` ... `if n == len(ports):`); anything else is the operand itself,
    evaluated in the test."""
    e = strip_await(e)
    sites = [nid]
    while depth > 0 and isinstance(e, ast.Name) and scoped_binding(e) is None and len(sites) == 1 and sites[0] is not None:
        ds = rdefs(f, e.id, sites[0], use=e)
        if not ds or not all(d.kind in ("assign", "walrus") and d.index is None for d in ds) or any(not same(ds[0].value, d.value) for d in ds[1:]):
            break
        e, sites, depth = strip_await(ds[0].value), [d.nid for d in ds], depth - 1
    return e, sites


def _get_inputs_calls(p, f):
    return [c for c in f.calls() if isinstance(c.func, ast.Attribute) and c.func.attr == "_get_inputs" and resolves_to(p, f, c, f"{STEP}.BaseStep._get_inputs", "_get_inputs")]


def _arg(call, name, pos):
    return kwarg(call, name, pos)


def _idiom(ctx, f, call):
    p = ctx.prog
    g = f.cfg
    who = ".".join(f.qualname.split(".")[-2:])
    cn = nid_of(f, call)
    I, M = _arg(call, "inputs", 0), _arg(call, "inputs_map", 1)
    ctx.require(isinstance(I, ast.Name) and isinstance(M, ast.Name), f"C05.R1: {who}: _group_by_tag arguments are not plain names")
    m = M.id
    # ---- which ports were read
    io = single_origin(f, I, cn)
    read = None
    param_mode = False
    if isinstance(io, ast.Call) and isinstance(io.func, ast.Attribute) and io.func.attr == "_get_inputs" and io.args:
        read = ports_canon(f, io.args[0], nid_of(f, io))
    elif isinstance(io, ast.Name) and (d := name_def(f, io, cn)) is not None and d.kind == "param":
        param_mode = True
    else:
        ctx.require(False, f"C05.R1: {who}: origin of the grouped inputs `{unparse(io) if io is not None else unparse(I)}` not understood")
    # ---- firing tests
    tests = []
    for t in g.nodes.values():
        if t.kind != "test":
            continue
        for cmp_, edge in test_compares(f, t):
            sides = [cmp_.left, cmp_.comparators[0]]
            hit = None
            for i, s in enumerate(sides):
                # the operand is read through its reaching definition: `n = len(inputs_map[tag])` ... `if n == len(ports):`
                so, sites_ = _operand(f, s, t.id)
                ln = builtin_call(f, so, "len")
                if ln is not None and len(ln.args) == 1:
                    a = ln.args[0]
                    if isinstance(a, ast.Subscript) and isinstance(a.value, ast.Name) and a.value.id == m:
                        hit = (a.slice, sides[1 - i], edge, sites_)
                    elif (mc := method_call(a, "get")) is not None and isinstance(mc.func.value, ast.Name) and mc.func.value.id == m and mc.args:
                        hit = (mc.args[0], sides[1 - i], edge, sites_)
            if hit:
                tests.append((t, *hit))
    if not tests:
        ctx.ob("R1", f"{who}: a tag fires on len(inputs_map[tag]) == len(ports)", False, func=f, node=call, instance=f"{who}:test",
               message="tokens are grouped by tag but no completeness test on the group was found: groups fire incomplete or never")
        return
    for t, T, other, edge, sized_at in tests:
        # (a) the group is counted (where the size is evaluated: the test itself or the temporary it reads) after the grouping,
        #     and no grouping happens between a count kept in a temporary and the test that reads it
        grouped_first = g.dominates(cn, t.id) and all(g.dominates(cn, sn) for sn in sized_at)
        stale = any(sn != t.id and cn in g.reach([sn], avoid=[t.id]) and t.id in g.reach([cn], avoid=[sn]) for sn in sized_at)
        ctx.ob("R1", f"{who}: tokens are grouped by tag before the completeness test", grouped_first and not stale, func=f, node=t.ast,
               instance=f"{who}:group-first", message="the completeness test can run before the arrived tokens were grouped"
               if not grouped_first else "the group size is taken before the arrived tokens are grouped and tested afterwards")
        # (b) operator and operands
        ok, msg = True, ""
        ln2 = builtin_call(f, other, "len")
        at2 = t.id
        if edge.startswith("op:"):
            ok, msg = False, f"the group size is compared with `{edge[3:]}` instead of ==: a tag fires before it is complete or more than once"
        elif ln2 is None or len(ln2.args) != 1:
            oo, osites = _operand(f, other, t.id)
            ln2 = builtin_call(f, oo, "len") if oo is not None else None
            if ln2 is None or len(ln2.args) != 1:
                oo = single_origin(f, other, t.id)
                ln2 = builtin_call(f, oo, "len") if oo is not None else None
            elif len(osites) == 1:
                at2 = osites[0]
            if ln2 is None or len(ln2.args) != 1:
                ok, msg = False, f"the group size is compared with `{unparse(other)}`, not with the number of ports read"
        if ok:
            counted = ports_canon(f, ln2.args[0], at2)
            if param_mode:
                ok = len(counted) == 1 and next(iter(counted)).startswith("param:")
                msg = f"{who} receives the tokens as a parameter but counts `{unparse(ln2.args[0])}`, which is not the port mapping parameter"
                if ok:
                    _check_callers(ctx, f, next(iter(counted))[6:])
                    # the helper's own reads must use the same mapping
                    for gi in _get_inputs_calls(p, f):
                        rc = ports_canon(f, gi.args[0], nid_of(f, gi)) if gi.args else set()
                        ctx.ob("R1", f"{who}: re-reads the counted port mapping", rc == counted, func=f, node=gi, instance=f"{who}:reread",
                               message=f"{who} reads `{unparse(gi.args[0]) if gi.args else ''}` but counts `{unparse(ln2.args[0])}`")
            else:
                odd = [c_ for c_ in counted if m in c_.replace("param:", "").replace("name:", "").replace(".", " ").replace("(", " ").replace("[", " ").split()]
                ctx.require(not odd, f"C05.R1: {who}: the group size is compared with len of `{odd[0] if odd else ''}`, which is derived from the grouping map, not a port mapping (unsupported shape)")
                ok = counted == read
                msg = (f"the step reads the ports `{sorted(read)}` but a tag fires when it has as many tokens as `{sorted(counted)}`: "
                       "with a filtered port set the tag never (or too early) fires")
        ctx.ob("R1", f"{who}: a tag fires exactly when len(inputs_map[tag]) == len(<ports that were read>)", ok, func=f, node=t.ast,
               instance=f"{who}:test", message=msg)
        # (c) removal of the fired tag
        pops = []
        for n in g.nodes.values():
            for x in n.calls():
                mc = method_call(x, "pop")
                if mc is not None and isinstance(mc.func.value, ast.Name) and mc.func.value.id == m and mc.args and same(mc.args[0], T):
                    pops.append(n.id)
            if n.kind == "stmt" and isinstance(n.ast, ast.Delete):
                for tg in n.ast.targets:
                    if isinstance(tg, ast.Subscript) and isinstance(tg.value, ast.Name) and tg.value.id == m and same(tg.slice, T):
                        pops.append(n.id)
        tag_loop = None
        for lp in f.body_nodes():
            if isinstance(lp, (ast.For, ast.AsyncFor)) and in_subtree(t.ast, lp) and isinstance(T, ast.Name) and isinstance(lp.target, ast.Name) and lp.target.id == T.id:
                tag_loop = lp
        heads = g.ids_of(tag_loop) if tag_loop is not None else []
        w = None
        succ = branch_succ(g, t.id, fire_edge(edge))
        if not pops:
            w = [t.id]
        else:
            for s in succ:
                if s in pops:
                    continue
                w = g.path(s, heads + [g.exit], avoid=pops, kinds=NORMAL) if s not in heads else [s]
                if w:
                    break
        ctx.ob("R1", f"{who}: the fired tag is removed from inputs_map", not w, func=f, node=t.ast, instance=f"{who}:pop",
               message="a fired tag stays in inputs_map: it fires again at the next arrival (duplicate job / duplicate output)",
               witness=g.describe(w) if w else [])
        # (d) snapshot iteration
        if tag_loop is not None:
            it = single_origin(f, tag_loop.iter, (g.ids_of(tag_loop) or [None])[0])
            snap = it is not None and any(builtin_call(f, it, nm) is not None for nm in ("list", "tuple", "sorted", "set", "frozenset"))
            live = it is not None and (
                (isinstance(it, ast.Name) and it.id == m)
                or (isinstance(it, ast.Call) and isinstance(it.func, ast.Attribute) and it.func.attr in ("keys", "items", "values") and isinstance(it.func.value, ast.Name) and it.func.value.id == m)
            )
            ctx.require(snap or live, f"C05.R1: {who}: tag loop iterates `{unparse(tag_loop.iter)}` (unsupported shape)")
            ctx.ob("R1", f"{who}: the tag loop iterates a snapshot of the keys", snap, func=f, node=tag_loop, instance=f"{who}:snapshot",
                   message="inputs_map is popped while it is being iterated (RuntimeError: dictionary changed size during iteration)")
        # observation: popped group discarded
        for pid in pops:
            n = g.nodes[pid]
            if n.kind == "stmt" and isinstance(n.ast, ast.Expr):
                ctx.observe(f"C05.R1 (not armed): {who} discards the group returned by inputs_map.pop(tag) and keeps using the last-read `inputs` "
                            "(only the provenance ids of the emitted token depend on it, not its value or tag)")


_callers_checked: set = set()


def _check_callers(ctx, f, ports_param: str):
    """Helper that receives `inputs` as a parameter: every caller passes, for the port-mapping parameter,
    the mapping that it hands to its own `_get_inputs` calls."""
    p = ctx.prog
    ps = [a for a in f.params if a != "self"]
    ctx.require(ports_param in ps, f"C05.R1: {f.qualname}: `{ports_param}` is not a parameter")
    pos = ps.index(ports_param)
    sites = [(cf, c) for cf, c in calls_named(p, f.name) if f.qualname in p.resolve_call(cf, c)]
    ctx.require(bool(sites), f"C05.R1: helper {f.qualname} has no caller")
    for cf, c in sites:
        who = ".".join(cf.qualname.split(".")[-2:])
        a = kwarg(c, ports_param, pos)
        ctx.require(a is not None, f"C05.R1: {who}: call of {f.name} without `{ports_param}`")
        passed = ports_canon(cf, a, nid_of(cf, c))
        reads = _get_inputs_calls(p, cf)
        ctx.require(bool(reads), f"C05.R1: {who} calls {f.name} but never reads its ports")
        bad = [gi for gi in reads if not gi.args or ports_canon(cf, gi.args[0], nid_of(cf, gi)) != passed]
        ctx.ob("R1", f"{who}: passes to {f.name} the port mapping it reads", not bad, func=cf, node=c, instance=f"{who}:caller",
               message=f"{who} reads `{unparse(bad[0].args[0]) if bad and bad[0].args else ''}` but lets {f.name} count `{unparse(a)}`")


def r1(ctx):
    p = ctx.prog
    require_members(ctx, f"{STEP}.BaseStep", ["_get_inputs", "get_input_ports"], ["input_ports"])
    sites = [(f, c) for f, c in calls_named(p, "_group_by_tag") if resolves_to(p, f, c, GBT)]
    ctx.require(len(sites) >= 1, "C05.R1: no call of _group_by_tag found")
    grouped = set()
    for f, c in sites:
        grouped.add(f.qualname)
        _idiom(ctx, f, c)
    # _group_by_tag itself: keyed by token.tag, then by port name
    gf = p.func(GBT)
    def _outer(e):
        """inputs_map[K] / inputs_map.setdefault(K, {}) -> (map expr, K)"""
        if isinstance(e, ast.Subscript):
            return e.value, e.slice
        if isinstance(e, ast.Call) and isinstance(e.func, ast.Attribute) and e.func.attr == "setdefault" and len(e.args) == 2 and isinstance(e.args[1], ast.Dict) and not e.args[1].keys:
            return e.func.value, e.args[0]
        return None

    stores = [n for n in gf.body_nodes() if isinstance(n, ast.Assign) and isinstance(n.targets[0], ast.Subscript) and _outer(n.targets[0].value) is not None]
    ok = False
    for s in stores:
        inner = s.targets[0]
        omap, okey = _outer(inner.value)
        loop = next((a for a in gf.body_nodes() if isinstance(a, ast.For) and in_subtree(s, a)), None)
        if loop is None or not (isinstance(loop.target, ast.Tuple) and len(loop.target.elts) == 2):
            continue
        nm, tk = loop.target.elts
        it = loop.iter
        items = isinstance(it, ast.Call) and isinstance(it.func, ast.Attribute) and it.func.attr == "items" and isinstance(it.func.value, ast.Name) and it.func.value.id == gf.params[0]
        ok = ok or (
            items
            and isinstance(omap, ast.Name) and omap.id == gf.params[1]
            and isinstance(okey, ast.Attribute) and okey.attr == "tag" and same(okey.value, tk)
            and same(inner.slice, nm) and same(s.value, tk)
        )
    ctx.ob("R1", "_group_by_tag stores inputs_map[token.tag][port name] = token", ok, func=gf, node=gf.node, instance="_group_by_tag:store",
           message="_group_by_tag no longer files each token under its own tag and port name")
    gg = gf.cfg
    for n in gg.nodes.values():
        if n.kind == "stmt" and isinstance(n.ast, ast.Assign) and len(n.ast.targets) == 1 and isinstance(n.ast.targets[0], ast.Subscript) \
                and isinstance(n.ast.targets[0].value, ast.Name) and n.ast.targets[0].value.id == gf.params[1]:
            tg = n.ast.targets[0]
            ctx.ob("R1", "_group_by_tag creates the group of a tag only when it does not exist yet", guarded_init(gf, gg, n.id, tg.value, tg.slice), func=gf, node=n.ast,
                   instance="_group_by_tag:init", message="the group of a tag is re-created at every arrival: tokens that arrived earlier under the same tag are dropped")
    # (e) other multi-port readers
    for f, c in calls_named(p, "_get_inputs"):
        if not (isinstance(c.func, ast.Attribute) and isinstance(c.func.value, ast.Name) and c.func.value.id == "self"):
            continue
        who = ".".join(f.qualname.split(".")[-2:])
        ctx.require(bool(c.args) or bool(c.keywords), f"C05.R1: {who}: _get_inputs() without ports")
        P = kwarg(c, "input_ports", 0)
        po = single_origin(f, P, nid_of(f, c)) if P is not None else None
        single = isinstance(po, ast.Dict) and len(po.keys) == 1 and po.keys[0] is not None
        if single:
            ctx.ob("R1", f"{who}: reads a single port", True, func=f, node=c, instance=f"{who}:single", trivial=True)
            continue
        if f.qualname in grouped:
            continue  # checked by the idiom above
        # groups in a callee it hands the tokens to?
        callee_groups = any(q in grouped for x in f.calls() for q in p.resolve_call(f, x, fanout=False))
        # or: a dominating `len(P) != 1 -> raise` guard
        g = f.cfg
        cn = nid_of(f, c)
        guard = False
        for t in g.nodes.values():
            if t.kind != "test" or cn is None or P is None:
                continue
            # `len(P) == 1` is known on one edge of the test (however the test is spelled: `!=`, `not ==`, a local
            # boolean, a size kept in a temporary) and the other edge never returns normally
            for cmp_, edge in test_compares(f, t):
                if edge not in ("t", "f"):
                    continue
                sides = [_operand(f, cmp_.left, t.id), _operand(f, cmp_.comparators[0], t.id)]
                for i, (so, sites_) in enumerate(sides):
                    ln = builtin_call(f, so, "len")
                    if ln is None or len(ln.args) != 1 or not is_const(sides[1 - i][0], 1):
                        continue
                    if ports_canon(f, ln.args[0], sites_[0] if len(sites_) == 1 else t.id) != ports_canon(f, P, cn):
                        continue
                    ts = branch_succ(g, t.id, "f" if edge == "t" else "t")
                    if g.dominates(t.id, cn) and ts and all(g.exit not in g.reach([s], include_src=True) for s in ts):
                        guard = True
        ctx.ob("R1", f"{who}: tokens read from several ports are grouped by tag", callee_groups or guard, func=f, node=c,
               instance=f"{who}:reader", message=f"{who} reads several ports with _get_inputs and pairs the tokens by arrival order (no _group_by_tag)")


# --------------------------------------------------------------------------- R2


_INLINE = 2  # helper calls followed from an output-task store (create_task wrapped in a private method)


class _NoLift(Exception):
    """A helper-side expression has no caller-side denotation (loop variable, rebound parameter, ...)."""


def _origin_nid(f, e, nid, depth: int = 6):
    """(expression, CFG node) `e` denotes at `nid` after following unique plain local assignments."""
    e = strip_await(e)
    while depth > 0 and isinstance(e, ast.Name) and nid is not None and scoped_binding(e) is None:
        ds = rdefs(f, e.id, nid, use=e)
        if not ds or not all(d.kind in ("assign", "walrus") and d.index is None for d in ds) or any(not same(ds[0].value, d.value) for d in ds[1:]):
            break
        e, nid, depth = strip_await(ds[0].value), ds[0].nid, depth - 1
    return e, nid


def _bind(h, call):
    """parameter name -> argument expression of `call` (a call of `h`); None when the call cannot be
    matched positionally (star arguments)."""
    a = h.node.args
    if any(isinstance(x, ast.Starred) for x in call.args) or any(k.arg is None for k in call.keywords):
        return None
    pos = [x.arg for x in a.posonlyargs + a.args]
    bind: dict = {}
    dflt = dict(zip(pos[len(pos) - len(a.defaults):], a.defaults)) if a.defaults else {}
    dflt.update({k.arg: d for k, d in zip(a.kwonlyargs, a.kw_defaults) if d is not None})
    static = any((dotted(d) or "").endswith("staticmethod") for d in h.decorators)
    if h.cls is not None and not static:
        if not pos or not isinstance(call.func, ast.Attribute):
            return None
        recv = call.func.value
        if isinstance(recv, ast.Call) and isinstance(recv.func, ast.Name) and recv.func.id == "super":
            recv = ast.Name(id="self", ctx=ast.Load())
        bind[pos[0]] = recv
        pos = pos[1:]
    if len(call.args) > len(pos) and a.vararg is None:
        return None
    for nm, v in zip(pos, call.args):
        bind[nm] = v
    for k in call.keywords:
        bind[k.arg] = k.value
    for nm, d in dflt.items():
        bind.setdefault(nm, d)
    return bind


def _lift(h, e, nid, bind, depth: int = 4):
    """Caller-side denotation of the expression `e` of helper `h` (evaluated at h's CFG node `nid`):
    parameters become the call's argument expressions (the caller's own AST nodes, so def-use keeps
    working on them), unique plain temporaries are expanded, module-level names and attributes are kept."""
    if bind is None:
        raise _NoLift("call with star arguments")
    inside = {id(x) for x in ast.walk(e)}

    def go(x, n, d):
        if isinstance(x, ast.Name):
            sb = scoped_binding(x)
            if sb is not None:
                if id(sb[1]) in inside:
                    return x
                raise _NoLift(f"`{x.id}` is bound by a comprehension of {h.name}")
            if n is None:
                raise _NoLift(f"`{x.id}`: position in {h.name} unknown")
            ds = rdefs(h, x.id, n, use=x)
            kinds = {k.kind for k in ds}
            if kinds == {"param"}:
                if x.id in bind:
                    return bind[x.id]
                raise _NoLift(f"parameter `{x.id}` of {h.name} is not passed")
            if kinds == {"unbound"}:
                return x
            if d > 0 and kinds and kinds <= {"assign", "walrus"} and all(k.index is None for k in ds) and all(same(ds[0].value, k.value) for k in ds[1:]):
                for y in ast.walk(ds[0].value):
                    inside.add(id(y))
                return go(ds[0].value, ds[0].nid, d - 1)
            raise _NoLift(f"`{x.id}` of {h.name} is neither a parameter nor a plain temporary")
        new = x.__class__()
        for fld, val in ast.iter_fields(x):
            if isinstance(val, list):
                setattr(new, fld, [go(i, n, d) if isinstance(i, ast.AST) else i for i in val])
            elif isinstance(val, ast.AST):
                setattr(new, fld, go(val, n, d))
            else:
                setattr(new, fld, val)
        return new

    return go(e, nid, depth)


def _task_calls(p, f, value, nid, depth: int = _INLINE):
    """The task creation(s) the value `value` (evaluated at f's CFG node `nid`) denotes, each as
    (create_task call expressed in f's frame, CFG node of f where it is evaluated, helper that creates it | None); None when the value is
    not a task creation.  Follows plain temporaries and calls of program functions that *return* the
    task (`self._create_output_task(name, port, consumer)`): the helper's create_task expression is
    lifted into the caller's frame (parameters -> arguments).  Raises _NoLift when a helper creates the
    task but its expression cannot be expressed at the call site."""
    v, vn = _origin_nid(f, value, nid)
    if not isinstance(v, ast.Call):
        return None
    if resolves_to(p, f, v, "asyncio.create_task", "asyncio.ensure_future"):
        return [(v, vn, None)]
    if depth <= 0:
        return None
    hs = [p.functions[q] for q in p.resolve_call(f, v, fanout=False) if q in p.functions]
    if len(hs) != 1:
        return None
    h = hs[0]
    rets = [n for n in h.body_nodes() if isinstance(n, ast.Return)]
    if not rets or any(r.value is None for r in rets):
        return None
    out = []
    bind = _bind(h, v)
    for r in rets:
        rn = nid_of(h, r.value)
        sub = _task_calls(p, h, r.value, rn, depth - 1)
        if sub is None:
            return None
        for c, cn, via in sub:
            out.append((_lift(h, c, cn, bind), vn, via or h))
    return out


def _port_of(f, c, nid, depth: int = 4):
    """(port expression, CFG node) of the `<port>.get(..)` coroutine the task `c` wraps: the `.get` call that is
    the coroutine argument of a create_task is preferred; temporaries are followed."""
    prefer, cands = [], []

    def is_get(x):
        mc = method_call(x, "get")
        if mc is not None and not (isinstance(mc.func.value, ast.Attribute) and mc.func.value.attr == "output_tasks"):
            return mc
        return None

    def go(x, n, d):
        if is_get(x) is not None:
            cands.append((x.func.value, n))
            return  # neither the receiver nor the arguments of the read are searched
        if isinstance(x, ast.Call) and x.args and (dotted(x.func) or "").split(".")[-1] in ("create_task", "ensure_future"):
            a0, an = _origin_nid(f, x.args[0], n)
            if is_get(a0) is not None:
                prefer.append((a0.func.value, an))
        if isinstance(x, ast.Name):
            if d > 0 and isinstance(x.ctx, ast.Load):
                o, on = _origin_nid(f, x, n, depth=1)
                if o is not x:
                    go(o, on, d - 1)
            return
        for y in ast.iter_child_nodes(x):
            go(y, n, d)

    go(c, nid, depth)
    best = prefer or cands
    return best[-1] if best else (None, nid)


def _is_store(n, own: bool = True):
    """`self.output_tasks[K] = V`; in a helper (own=False) `<receiver name>.output_tasks[K] = V` (the receiver is
    lifted to the call site and must denote `self` there)."""
    if not (isinstance(n, ast.Assign) and len(n.targets) == 1 and isinstance(n.targets[0], ast.Subscript)):
        return False
    t = n.targets[0].value
    if own:
        return dotted(t) == "self.output_tasks"
    return isinstance(t, ast.Attribute) and t.attr == "output_tasks" and isinstance(t.value, ast.Name)


def _output_tasks(p, f):
    """Output-task stores reachable from `f`, as dicts
    {frame, stmt, key, call, nid, name, port, pnid, via, opaque}:
    `self.output_tasks[K] = <task>` in f itself, where <task> is `asyncio.create_task(<wrapped <port>.get(..)>, name=N)`
    directly, through temporaries or through a helper that returns it; and the same store performed by a
    helper that f calls (lifted to the call site when K/N/<port> are the helper's parameters, otherwise
    checked in the helper's own frame).  `call` is None for a store of something that is not a task
    creation; `opaque` carries the reason when a helper creates the task in a shape that cannot be lifted."""
    out = []

    def rec(frame, stmt, key, c, nid, via=None):
        port, pnid = _port_of(frame, c, nid)
        out.append(dict(frame=frame, stmt=stmt, key=key, call=c, nid=nid, name=kwarg(c, "name"), port=port, pnid=pnid, via=via, opaque=None))

    def none(frame, stmt, key, opaque=None):
        out.append(dict(frame=frame, stmt=stmt, key=key, call=None, nid=None, name=None, port=None, pnid=None, via=None, opaque=opaque))

    for n in f.body_nodes():
        if _is_store(n):
            sn = nid_of(f, n)
            try:
                tcs = _task_calls(p, f, n.value, sn)
            except _NoLift as e:
                none(f, n, n.targets[0].slice, opaque=str(e))
                continue
            if tcs is None:
                none(f, n, n.targets[0].slice)
            for c, cn, via in tcs or []:
                rec(f, n, n.targets[0].slice, c, cn, via=via)
        elif isinstance(n, ast.Call):
            # a helper that performs the store itself
            hs = [p.functions[q] for q in p.resolve_call(f, n, fanout=False) if q in p.functions]
            if len(hs) != 1 or hs[0] is f:
                continue
            h = hs[0]
            stores = [s for s in h.body_nodes() if _is_store(s, own=False)]
            if not stores:
                continue
            stmt = enclosing_stmt(n) or n
            cn = nid_of(f, n)
            bind = _bind(h, n)
            for s in stores:
                hn = nid_of(h, s)
                try:
                    tcs = _task_calls(p, h, s.value, hn, _INLINE - 1)
                except _NoLift as e:
                    none(h, s, s.targets[0].slice, opaque=str(e))
                    continue
                for c, hcn, _via in tcs or []:
                    try:
                        # `self.output_tasks` of the helper must be the caller's mapping
                        if dotted(_lift(h, s.targets[0].value, hn, bind)) != "self.output_tasks":
                            raise _NoLift("another object's output_tasks")
                        rec(f, stmt, _lift(h, s.targets[0].slice, hn, bind), _lift(h, c, hcn, bind), cn, via=h)
                    except _NoLift:
                        rec(h, s, s.targets[0].slice, c, hcn, via=h)
    return out


def r2(ctx):
    p = ctx.prog
    require_members(ctx, EXE, ["_wait_outputs", "run", "_handle_exception"], ["output_tasks"])
    require_members(ctx, "streamflow.core.workflow.Workflow", ["get_output_port", "get_output_ports"])
    f = p.func(f"{EXE}._wait_outputs")
    g = f.cfg
    ps = [a for a in f.params if a != "self"]
    ctx.require(len(ps) >= 2, "C05.R2: _wait_outputs signature changed")
    results_p = ps[1]

    def is_task_name(e, nid, task=None):
        o = single_origin(f, e, nid)
        mc = method_call(o, "get_name")
        return mc is not None and (task is None or same(mc.func.value, task))

    # (a) results keyed by the delivering task's name
    stores = [n for n in g.nodes.values() if n.kind == "stmt" and isinstance(n.ast, ast.Assign) and len(n.ast.targets) == 1
              and isinstance(n.ast.targets[0], ast.Subscript) and isinstance(n.ast.targets[0].value, ast.Name) and n.ast.targets[0].value.id == results_p]
    ctx.ob("R2", "_wait_outputs stores the received values", bool(stores), func=f, node=f.node, instance="wait:store:exists",
           message="no store into the result mapping: outputs are dropped")
    for s in stores:
        key = s.ast.targets[0].slice
        val = s.ast.value
        # the token stored is the result of a task; the key is that task's name
        task = _find_task(f, val, s.id)
        ctx.require(task is not None, f"C05.R2: _wait_outputs: stored value `{unparse(val)}` does not come from task.result()")
        ctx.ob("R2", "_wait_outputs keys a result by the name of the task that delivered it", is_task_name(key, s.id, task), func=f, node=s.ast,
               instance="wait:store:key", message=f"result is stored under `{unparse(key)}`, not under the delivering task's name (= output port name)")
    # (b) every output task: key == name == port
    n_tasks = 0
    roots = (f, p.func(f"{EXE}.run"))
    records, seen = [], set()
    for root in roots:
        for r in _output_tasks(p, root):
            k = (r["frame"].qualname, id(r["stmt"]), unparse(r["call"]) if r["call"] is not None else "")
            if k not in seen:
                seen.add(k)
                records.append(r)
    for r in records:
        fn, stmt, key, c, name, port = r["frame"], r["stmt"], r["key"], r["call"], r["name"], r["port"]
        who = fn.name
        ctx.require(r["opaque"] is None, f"C05.R2: {who}: `{unparse(stmt)}` stores a task created by a helper in a shape that cannot be followed ({r['opaque']})")
        if c is None:
            continue
        n_tasks += 1
        nid = r["nid"] if r["nid"] is not None else nid_of(fn, stmt)
        pnid = r["pnid"] if r["pnid"] is not None else nid
        hint = f" (task created in {r['via'].name})" if r["via"] is not None else ""
        ok, msg = True, ""
        if name is None:
            ok, msg = False, "the output task has no name: _wait_outputs cannot tell which port it belongs to (its result is dropped)"
        elif not same(single_origin(fn, name, nid) or name, single_origin(fn, key, nid) or key):
            ok, msg = False, f"task stored under `{unparse(key)}` is named `{unparse(name)}`"
        elif port is None:
            ctx.require(False, f"C05.R2: {who}: no <port>.get(...) inside the output task")
        else:
            po = single_origin(fn, port, pnid)
            ko = single_origin(fn, key, nid) or key
            good = False
            # for <name>, <port> in self.workflow.get_output_ports().items()
            if isinstance(po, ast.Name) and isinstance(ko, ast.Name):
                dp, dk = name_def(fn, po, pnid), name_def(fn, ko, nid)
                if dp and dk and dp.kind == dk.kind == "for" and dp.stmt is dk.stmt and (dk.index, dp.index) == (0, 1):
                    it = dp.value
                    good = isinstance(it, ast.Call) and isinstance(it.func, ast.Attribute) and it.func.attr == "items" and \
                        isinstance(it.func.value, ast.Call) and isinstance(it.func.value.func, ast.Attribute) and it.func.value.func.attr == "get_output_ports"
                    if not good:
                        msg = f"`{unparse(it)}` does not enumerate the workflow's output ports by name"
                else:
                    msg = f"port `{unparse(po)}` and task name `{unparse(ko)}` do not come from the same (name, port) pair"
            # self.workflow.get_output_port(K) / get_output_ports()[K]
            elif isinstance(po, ast.Call) and isinstance(po.func, ast.Attribute) and po.func.attr == "get_output_port" and len(po.args) == 1:
                good = same(single_origin(fn, po.args[0], pnid) or po.args[0], ko)
                msg = f"the re-armed task `{unparse(key)}` reads port `{unparse(po.args[0])}`"
            elif isinstance(po, ast.Subscript) and "output_ports" in unparse(po.value):
                good = same(single_origin(fn, po.slice, pnid) or po.slice, ko)
                msg = f"the re-armed task `{unparse(key)}` reads port `{unparse(po.slice)}`"
            else:
                ctx.require(False, f"C05.R2: {who}: port expression `{unparse(po) if po is not None else unparse(port)}` not understood{hint}")
            ok = good
        ctx.ob("R2", f"{who}: an output task is stored under, named after and reads the same port", ok, func=fn, node=stmt,
               instance=f"{who}:task:{unparse(key)}:{'rearm' if in_rearm(fn, stmt) else 'new'}", message=msg + hint if msg else msg)
    ctx.require(n_tasks >= 2, f"C05.R2: only {n_tasks} output task creations found (expected run + re-arm + new ports)")
    # (c) the re-arm uses the consumed task's name
    rearm = [r for r in records if r["call"] is not None and r["frame"] is f and in_rearm(f, r["stmt"])]
    ctx.ob("R2", "_wait_outputs re-arms the port whose token it consumed", bool(rearm) and all(is_task_name(r["key"], nid_of(f, r["stmt"])) for r in rearm),
           func=f, node=(rearm[0]["stmt"] if rearm else f.node), instance="wait:rearm",
           message="after a token the executor does not wait again on the port it came from: later tokens of that port are lost")


def _find_task(f, e, nid, depth: int = 5):
    """The task `T` such that the value `e` is derived from `T.result()` (through local assignments)."""
    if depth <= 0 or nid is None:
        return None
    for x in ast.walk(e):
        if not isinstance(x, ast.Name) or not isinstance(x.ctx, ast.Load):
            continue
        for d in rdefs(f, x.id, nid, use=x):
            if d.kind in ("assign", "walrus") and d.index is None:
                v = strip_await(d.value)
                mc = method_call(v, "result")
                if mc is not None:
                    return mc.func.value
                r = _find_task(f, v, d.nid, depth - 1)
                if r is not None:
                    return r
    return None


def in_rearm(f, stmt) -> bool:
    """statement lies inside a loop over the finished tasks (not the loop over the output ports)."""
    for lp in f.body_nodes():
        if isinstance(lp, (ast.For, ast.AsyncFor)) and in_subtree(stmt, lp):
            return not (isinstance(lp.iter, ast.Call) and isinstance(lp.iter.func, ast.Attribute) and lp.iter.func.attr == "items")
    return False


RULES = [("R1", r1), ("R2", r2)]
FLOORS = {"R1": 28, "R2": 5}

_W = f"{EXE}._wait_outputs"
_C = f"{STEP}.ConditionalStep.run"
_D = f"{STEP}.DeployStep.run"
_E = f"{STEP}.ExecuteStep._check_inputs"
_ER = f"{STEP}.ExecuteStep.run"
_S = f"{STEP}.ScheduleStep.run"
_T = f"{STEP}.TransferStep.run"
_X = f"{STEP}.Transformer.run"

_I20 = " " * 20
_NEW_TASK = "self.output_tasks[port_name] = asyncio.create_task(self._handle_exception(asyncio.create_task(port.get(output_consumer))), name=port_name)"
_REARM_TASK = "self.output_tasks[task_name] = asyncio.create_task(self._handle_exception(asyncio.create_task(self.workflow.get_output_port(task_name).get(output_consumer))), name=task_name)"
_HELPER = ("def _create_output_task(executor, port_name, port, output_consumer):\n"
           "    return asyncio.create_task(executor._handle_exception(asyncio.create_task(port.get(output_consumer))), name=port_name)\n")

VARIANTS = [
    V("ScheduleStep counts all ports while reading filtered ports", SFILE, _S, "len(inputs_map[tag]) == len(input_ports)", "len(inputs_map[tag]) == len(self.input_ports)", "R1", control=True),
    V("Transformer: == -> >=", SFILE, _X, "len(inputs_map[tag]) == len(input_ports)", "len(inputs_map[tag]) >= len(input_ports)", "R1", control=True),
    V("TransferStep: group read without pop", SFILE, _T, "inputs = inputs_map.pop(tag)", "inputs = inputs_map[tag]", "R1"),
    V("ConditionalStep reads filtered ports but counts all", SFILE, _C, "inputs = await self._get_inputs(self.get_input_ports())",
      "inputs = await self._get_inputs({k: v for k, v in self.get_input_ports().items() if k != '__skip__'})", "R1"),
    V("DeployStep: pop only on one branch", SFILE, _D, "inputs_map.pop(tag)\n", "if len(inputs) > 1:\n                            inputs_map.pop(tag)\n", "R1"),
    V("ExecuteStep._check_inputs counts self.input_ports", SFILE, _E, "len(inputs_map[tag]) == len(input_ports)", "len(inputs_map[tag]) == len(self.input_ports)", "R1"),
    V("ExecuteStep.run passes another mapping to _check_inputs", SFILE, _ER, "await self._check_inputs(inputs, input_ports, inputs_map,", "await self._check_inputs(inputs, self.get_input_ports(), inputs_map,", "R1"),
    V("Transformer iterates the live map", SFILE, _X, "for tag in list(inputs_map.keys()):", "for tag in inputs_map.keys():", "R1"),
    V("ScheduleStep: test before grouping", SFILE, _S,
      "_group_by_tag(inputs, inputs_map)\n                for tag in list(inputs_map.keys()):",
      "for tag in list(inputs_map.keys()):", "R1"),
    V("TransferStep compares with != ", SFILE, _T, "len(inputs_map[tag]) == len(input_ports)", "len(inputs_map[tag]) != len(input_ports)", "R1"),
    V("new multi-port reader pairing by arrival", SFILE, f"{STEP}.InputInjectorStep.run", "if len(input_ports) != 1:", "if len(input_ports) < 1:", "R1"),
    V("_group_by_tag re-creates the group at every arrival", SFILE, GBT, "    if token.tag not in inputs_map:\n            inputs_map[token.tag] = {}", "    inputs_map[token.tag] = {}", "R1"),
    V("Transformer pops another key", SFILE, _X, "inputs = inputs_map.pop(tag)", "inputs = inputs_map.pop(next(iter(inputs_map)))", "R1"),
    V("_group_by_tag keyed by port name only", SFILE, GBT, "inputs_map[token.tag][name] = token", "inputs_map[token.tag][token.tag] = token", "R1"),
    V("_wait_outputs keys the result by tag", EFILE, _W, "output_tokens[task_name] = get_token_value(token)", "output_tokens[token.tag] = get_token_value(token)", "R2", control=True),
    V("_wait_outputs re-arm without name", EFILE, _W, "self.workflow.get_output_port(task_name).get(output_consumer))), name=task_name)", "self.workflow.get_output_port(task_name).get(output_consumer))))", "R2"),
    V("_wait_outputs re-arms the first output port", EFILE, _W, "self.workflow.get_output_port(task_name).get(output_consumer)", "self.workflow.get_output_port(next(iter(self.workflow.output_ports))).get(output_consumer)", "R2"),
    V("run names the output task after the consumer", EFILE, f"{EXE}.run", "asyncio.create_task(port.get(output_consumer))), name=port_name)", "asyncio.create_task(port.get(output_consumer))), name=output_consumer)", "R2"),
    V("_wait_outputs: new port task stored under the wrong key", EFILE, _W,
      "self.output_tasks[port_name] = asyncio.create_task(self._handle_exception(asyncio.create_task(port.get(output_consumer))), name=port_name)",
      "self.output_tasks[port.name] = asyncio.create_task(self._handle_exception(asyncio.create_task(port.get(output_consumer))), name=port_name)", "R2"),
    V("_wait_outputs: re-arm removed", EFILE, _W,
      "                self.output_tasks[task_name] = asyncio.create_task(self._handle_exception(asyncio.create_task(self.workflow.get_output_port(task_name).get(output_consumer))), name=task_name)",
      "                pass", "R2"),
    # benign
    V("benign: iterate tuple(inputs_map)", SFILE, _X, "for tag in list(inputs_map.keys()):", "for tag in tuple(inputs_map):", None),
    V("benign: rename the map and the tag variable", SFILE, _S,
      "for tag in list(inputs_map.keys()):\n                    if len(inputs_map[tag]) == len(input_ports):\n                        inputs = inputs_map.pop(tag)",
      "for t in list(inputs_map.keys()):\n                    tag = t\n                    n_ports = len(input_ports)\n                    logger.debug(tag)\n                    if n_ports == len(inputs_map[t]):\n                        inputs = inputs_map.pop(t)", None),
    V("benign: ConditionalStep counts get_input_ports()", SFILE, _C, "len(inputs_map[tag]) == len(self.input_ports)", "len(inputs_map[tag]) == len(self.get_input_ports())", None),
    V("benign: DeployStep del instead of pop", SFILE, _D, "inputs_map.pop(tag)\n", "del inputs_map[tag]\n", None),
    V("benign: TransferStep early-continue style", SFILE, _T,
      "                    if len(inputs_map[tag]) == len(input_ports):\n                        inputs = inputs_map.pop(tag)\n                        for port_name, token in inputs.items():\n                            await self._run_transfer(job=job, inputs=inputs, port_name=port_name, token=token)",
      "                    if len(inputs_map[tag]) != len(input_ports):\n                        continue\n                    inputs = inputs_map.pop(tag)\n                    for port_name, token in inputs.items():\n                        await self._run_transfer(job=job, inputs=inputs, port_name=port_name, token=token)", None),
    V("benign: _group_by_tag with setdefault", SFILE, GBT, "        if token.tag not in inputs_map:\n            inputs_map[token.tag] = {}\n        inputs_map[token.tag][name] = token", "        inputs_map.setdefault(token.tag, {})[name] = token", None),
    V("benign: DeployStep counts the mapping returned by _get_inputs", SFILE, _D, "len(inputs_map[tag]) == len(self.input_ports)", "len(inputs_map[tag]) == len(inputs)", None),
    V("benign: _wait_outputs temporaries and logging", EFILE, _W, "output_tokens[task_name] = get_token_value(token)",
      "value = get_token_value(token)\n            logger.debug(task_name)\n            output_tokens[task_name] = value", None),
    V("benign: _wait_outputs re-arm via get_output_ports()[name]", EFILE, _W, "self.workflow.get_output_port(task_name).get(output_consumer)", "self.workflow.get_output_ports()[task_name].get(output_consumer)", None),
    # testtemp: the left operand of the test is evaluated into a temporary first
    V("benign: ConditionalStep group size through a temporary", SFILE, _C, _I20 + "if len(inputs_map[tag]) == len(self.input_ports):",
      _I20 + "_sf_l1 = len(inputs_map[tag])\n" + _I20 + "if _sf_l1 == len(self.input_ports):", None),
    V("benign: DeployStep group size through a temporary", SFILE, _D, _I20 + "if len(inputs_map[tag]) == len(self.input_ports):",
      _I20 + "_sf_l1 = len(inputs_map[tag])\n" + _I20 + "if _sf_l1 == len(self.input_ports):", None),
    V("benign: ExecuteStep._check_inputs group size through a temporary", SFILE, _E, _I20[:12] + "if len(inputs_map[tag]) == len(input_ports):",
      _I20[:12] + "_sf_l1 = len(inputs_map[tag])\n" + _I20[:12] + "if _sf_l1 == len(input_ports):", None),
    V("benign: ScheduleStep both sizes through temporaries, flipped", SFILE, _S, _I20 + "if len(inputs_map[tag]) == len(input_ports):",
      _I20 + "_sf_l1 = len(inputs_map[tag])\n" + _I20 + "_sf_r1 = len(input_ports)\n" + _I20 + "if not _sf_r1 != _sf_l1:", None),
    V("benign: TransferStep group size through a temporary", SFILE, _T, _I20 + "if len(inputs_map[tag]) == len(input_ports):",
      _I20 + "_sf_l1 = len(inputs_map[tag])\n" + _I20 + "if _sf_l1 == len(input_ports):", None),
    V("benign: Transformer group size through a chain of temporaries", SFILE, _X, _I20 + "if len(inputs_map[tag]) == len(input_ports):",
      _I20 + "_sf_l1 = len(inputs_map[tag])\n" + _I20 + "_sf_l2 = _sf_l1\n" + _I20 + "if _sf_l2 == len(input_ports):", None),
    V("benign: InputInjectorStep one-port guard through a temporary", SFILE, f"{STEP}.InputInjectorStep.run", "    if len(input_ports) != 1:",
      "    _sf_l1 = len(input_ports)\n    if _sf_l1 != 1:", None),
    V("benign: InputInjectorStep one-port guard as not ==, flipped", SFILE, f"{STEP}.InputInjectorStep.run", "    if len(input_ports) != 1:",
      "    if not 1 == len(input_ports):", None),
    V("Transformer: >= through a temporary", SFILE, _X, _I20 + "if len(inputs_map[tag]) == len(input_ports):",
      _I20 + "_sf_l1 = len(inputs_map[tag])\n" + _I20 + "if _sf_l1 >= len(input_ports):", "R1"),
    V("ScheduleStep counts all ports through a temporary", SFILE, _S, _I20 + "if len(inputs_map[tag]) == len(input_ports):",
      _I20 + "_sf_r1 = len(self.input_ports)\n" + _I20 + "if len(inputs_map[tag]) == _sf_r1:", "R1"),
    V("TransferStep: group size taken before a grouping and tested after it", SFILE, _T, _I20 + "if len(inputs_map[tag]) == len(input_ports):",
      _I20 + "_sf_l1 = len(inputs_map[tag])\n" + _I20 + "more = await self._get_inputs(input_ports)\n" + _I20 + "_group_by_tag(more, inputs_map)\n" + _I20 + "if _sf_l1 == len(input_ports):", "R1"),
    V("InputInjectorStep: one-port guard weakened through a temporary", SFILE, f"{STEP}.InputInjectorStep.run", "    if len(input_ports) != 1:",
      "    _sf_l1 = len(input_ports)\n    if _sf_l1 < 1:", "R1"),
    V("InputInjectorStep: guard counts another mapping through a temporary", SFILE, f"{STEP}.InputInjectorStep.run", "    if len(input_ports) != 1:",
      "    _sf_l1 = len(self.output_ports)\n    if _sf_l1 != 1:", "R1"),
    # helper extraction (B1-1): the create_task block moved into a function that returns / stores the task
    V("benign: new-port and run tasks created by a helper that returns the task", EFILE, EXE, _NEW_TASK, "self.output_tasks[port_name] = _create_output_task(self, port_name, port, output_consumer)", None, count=2, append=_HELPER),
    V("benign: re-arm through the helper, port passed as argument", EFILE, _W, _REARM_TASK,
      "self.output_tasks[task_name] = _create_output_task(self, task_name, self.workflow.get_output_port(task_name), output_consumer)", None, append=_HELPER),
    V("benign: generic spawn helper receives the coroutine", EFILE, _W, _NEW_TASK, "self.output_tasks[port_name] = _spawn(self, port.get(output_consumer), port_name)", None,
      append="def _spawn(executor, coro, name):\n    inner = asyncio.create_task(coro)\n    wrapped = executor._handle_exception(inner)\n    return asyncio.create_task(wrapped, name=name)\n"),
    V("benign: helper performs the store itself", EFILE, EXE, _NEW_TASK, "_arm(self, port_name, port, output_consumer)", None, count=2,
      append="def _arm(executor, port_name, port, consumer):\n    executor.output_tasks[port_name] = asyncio.create_task(executor._handle_exception(asyncio.create_task(port.get(consumer))), name=port_name)\n"),
    V("benign: output task built through temporaries", EFILE, f"{EXE}.run", _NEW_TASK,
      "coro = port.get(output_consumer)\n                inner = asyncio.create_task(coro)\n                task = asyncio.create_task(self._handle_exception(inner), name=port_name)\n                self.output_tasks[port_name] = task", None),
    V("helper names the task after the consumer", EFILE, EXE, _NEW_TASK, "self.output_tasks[port_name] = _create_output_task(self, port_name, port, output_consumer)", "R2", count=2,
      append=_HELPER.replace("name=port_name", "name=output_consumer")),
    V("helper names the task after port.name, not after the key", EFILE, EXE, _NEW_TASK, "self.output_tasks[port_name] = _create_output_task(self, port_name, port, output_consumer)", "R2", count=2,
      append=_HELPER.replace("name=port_name", "name=port.name")),
    V("re-arm through the helper on the first output port", EFILE, _W, _REARM_TASK,
      "self.output_tasks[task_name] = _create_output_task(self, task_name, self.workflow.get_output_port(next(iter(self.workflow.output_ports))), output_consumer)", "R2", append=_HELPER),
    V("re-arm through the helper with swapped arguments", EFILE, _W, _REARM_TASK,
      "self.output_tasks[task_name] = _create_output_task(self, output_consumer, self.workflow.get_output_port(task_name), task_name)", "R2", append=_HELPER),
    V("storing helper creates the task without a name", EFILE, EXE, _NEW_TASK, "_arm(self, port_name, port, output_consumer)", "R2", count=2,
      append="def _arm(executor, port_name, port, consumer):\n    executor.output_tasks[port_name] = asyncio.create_task(executor._handle_exception(asyncio.create_task(port.get(consumer))))\n"),
]
