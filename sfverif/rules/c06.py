"""C06 Loops emit the last/all iteration values in iteration order, for any count.

Clauses decided:
R1 every `LoopOutputStep._process_output` (CWLLoopOutputAllStep / CWLLoopOutputLastStep, enumerated
   through the class table): every returned value that reads `self.token_map` must be selected from
   `self.token_map[<tag parameter>]` by an ordering whose key is `int(<last component of the element's tag>)`
   (the int discipline of C01.R1: as text iteration 10 sorts before 2 and 9 after 10).  Recognised equivalent
   formulations: `sorted(S, key=)`, `name.sort(key=)` in place on every path to the return, `max/min(S, key=)`,
   order-preserving copies (list/tuple/[:]/.copy()/identity comprehension), reversing views (reversed, [::-1],
   reverse=True, negated key), key given as a lambda or a single-return helper, numeric comparison of all
   components.  "all" wraps the *ascending* list in a ListToken tagged with the instance tag; "last" takes
   index -1 of the ascending order (0 of the descending one, max of an ascending key, min of a negated key)
   and retags it with the instance tag.  An output whose ordering cannot be established (arrival order,
   a copy, a slice, text key, max without int key, unreadable key, unknown output shape) is *reported* as a
   violation of the ordering obligation, never refused; returns that do not read token_map at all
   (placeholders) carry no ordering obligation, but at least one return must read it.  Tag obligation on *every*
   returned value, placeholders included (the null output of an instance without iterations is matched downstream
   by the instance's tag; the constructor default '0' is another instance's tag inside a scatter / outer loop): each
   return is `<token>.retag(<tag parameter>)`, a Token-hierarchy constructor with tag=<tag parameter> (keyword or
   the constructor's position), `<tagged>.update(v)`, or a resolved helper (inlining bound 2) all of whose returns
   are tagged with a parameter bound to the tag parameter -- through temporaries / aliases; and every path through
   the method ends in a `return <value>` (CFG must-pass-through, so guard clauses and nested ifs are alike).
R2 `LoopOutputStep.run`: the expected count of an instance is `int(<last component>)` of the
   IterationTerminationToken's tag, stored under the tag's prefix; data tokens are appended under the
   same prefix; the emission test `len(token_map[prefix]) == size_map[prefix]` (equality, defaults that
   can never be equal) lies after the three-way branch, so it is evaluated whichever of {data token,
   iteration termination} arrives last (an operand held in a temporary -- `n = len(token_map.get(prefix, []))` /
   the collected list / the expected count -- is read through its single dominating reaching definition, and that
   definition too must lie between every arrival and the next read: a count taken before the arrival is recorded
   is reported as stale); the emitted token is `_process_output(prefix)`, persisted with
   the collected iterations as inputs and put on the output port.
R3 observation only: `all(self.termination_map)` iterates the keys (dead decision, see DESIGN section 7).
R4 `LoopCombinator._product`: the first combination of an instance creates the counter with 0 under
   the instance's full tag and gets suffix `.0`; later ones increment `iteration_map[prefix]` by one
   *before* using it as the last component.  The first/later decision is read as a branch fact (the edge on which
   `<prefix> in self.iteration_map` is false, however the test is spelled and whichever branch comes first); a test that
   does not decide on that membership alone is reported.  `LoopCombinatorStep.run` stops re-arming a port exactly
   when it is terminated *and* its iteration checklist is empty (truth table); both atoms of that guard must be
   keyed by the completed task's own name, i.e. the `<task>.get_name()` value under which `terminated` is filled
   (through local aliases / a temporary holding the checklist entry) -- another key (a stale loop variable such as
   `port_name`, the step name, another task) or no key at all (the list `terminated` tested as a whole: bare truth
   value, bool()/any()/len() of it, any other expression over it = "some port has terminated") is reported as a
   violation naming the guard, not refused.  It adds a
   started iteration to the checklist and removes it on its IterationTerminationToken.  `LoopTerminationCombinator._product`
   emits one IterationTerminationToken, tagged by get_tag of the combination, per output item.

All rules of DESIGN.md section 3 (C06) are implemented; R3 is an observation by design.  Additions: the
per-instance list in LoopOutputStep.run and the group in the collection are created only when absent
(an unguarded re-initialisation drops earlier iterations), un-awaited `_process_output`/`_persist_token`,
defaults of the emission test that could compare equal, checklist add/remove in LoopCombinatorStep.run.

Left undecided: the values themselves; 0-iteration path semantics in the translator.
"""

from __future__ import annotations

import ast

from ..cfg import NORMAL
from ..facts import atoms, key as fact_key
from ..model import dotted, unparse
from ..selftest import V
from ._util_A import (
    branch_succ,
    builtin_call,
    awaited,
    test_compares,
    const_value,
    fire_edge,
    guarded_init,
    emptiness_atom,
    fold_bool,
    in_subtree,
    is_const,
    kwarg,
    last_component,
    method_call,
    name_def,
    nid_of,
    only_via,
    origin_at,
    rdefs,
    require_members,
    resolves_to,
    same,
    scoped_binding,
    shadowed,
    single_origin,
    split_dot,
    strip_await,
    tag_canon,
)

STEP = "streamflow.workflow.step"
LOS = f"{STEP}.LoopOutputStep"
LCS = f"{STEP}.LoopCombinatorStep"
COMB = "streamflow.workflow.combinator"
SFILE = "streamflow/workflow/step.py"
CFILE = "streamflow/workflow/combinator.py"
WFILE = "streamflow/cwl/step.py"

META = {
    "explanation": (
        "AST/def-use rules on every LoopOutputStep._process_output (every output that reads token_map is selected by an int-keyed "
        "ordering of token_map[tag]: sorted / in-place sort / max / min through copies, reversed views and key helpers; "
        "last = greatest iteration number, all = ascending ListToken with the instance tag; an unestablished ordering is a violation; every returned value, the placeholder of the empty case included, is tagged with the tag parameter on every path), CFG rules on LoopOutputStep.run "
        "(count from the iteration-termination tag, emission test reachable from both arrival kinds, emission shape), "
        "flow-sensitive tag-expression canonicalisation on LoopCombinator._product (counter created with 0 / incremented "
        "before use), truth-table folding of the re-arm guard of LoopCombinatorStep.run, shape of "
        "LoopTerminationCombinator._product. Decides necessary structural conditions; the loop is not executed."
    ),
    "undecided": "the values themselves; 0-iteration path semantics in the translator; LoopOutputStep termination decision (dead code, observation)",
    "assumptions": ["iteration tags are <instance tag>.<iteration number> with decimal components", "ports are FIFO"],
}


def _self_map_key(e, attr: str):
    """self.<attr>[K] / self.<attr>.get(K, d) -> (K, default | None)."""
    e = strip_await(e)
    if isinstance(e, ast.Subscript) and dotted(e.value) == f"self.{attr}" and not isinstance(e.slice, ast.Slice):
        return e.slice, None
    if isinstance(e, ast.Call) and isinstance(e.func, ast.Attribute) and e.func.attr in ("get", "setdefault") and dotted(e.func.value) == f"self.{attr}" and e.args:
        return e.args[0], (e.args[1] if len(e.args) > 1 else ast.Constant(value=None))
    return None


def _is_param(f, e, name, nid=None) -> bool:
    o = single_origin(f, e, nid)
    if not (isinstance(o, ast.Name) and o.id == name):
        return False
    d = name_def(f, o, nid)
    return d is not None and d.kind == "param"


# =========================================================================== R1
#
# The ordering obligation: whatever `_process_output` emits for a loop instance is selected from the
# collected tokens `self.token_map[<tag parameter>]` by an ordering whose key is the *integer* value of the
# last tag component.  The rule recognises the equivalent formulations of such an ordering
# (sorted / list.sort in place / max / min, order-preserving copies, reversed views, key helpers) and reports
# every output that is not provably built that way as a violation of the obligation (it does not refuse a
# shape it cannot read: the anchor is present, the obligation is what is missing).


def _key_body(f, keyf):
    """(parameter name, returned expression) of a key function given as a lambda or as a local / module-level
    single-return helper; None when it cannot be read."""
    if isinstance(keyf, ast.Lambda):
        ps = [a.arg for a in keyf.args.posonlyargs + keyf.args.args]
        return (ps[0], keyf.body) if len(ps) == 1 else None
    if isinstance(keyf, ast.Name):
        cands = [n for n in ast.walk(f.node) if isinstance(n, ast.FunctionDef) and n.name == keyf.id and n is not f.node]
        if not cands:
            cands = [n for n in f.module.tree.body if isinstance(n, ast.FunctionDef) and n.name == keyf.id]
        if len(cands) != 1:
            return None
        d = cands[0]
        ps = [a.arg for a in d.args.posonlyargs + d.args.args]
        body = [st for st in d.body if not (isinstance(st, ast.Expr) and isinstance(st.value, ast.Constant)) and not isinstance(st, ast.Pass)]
        if len(ps) == 1 and len(body) == 1 and isinstance(body[0], ast.Return) and body[0].value is not None:
            return ps[0], body[0].value
    return None


def _elem_tag(x, param) -> bool:
    return isinstance(x, ast.Attribute) and x.attr == "tag" and isinstance(x.value, ast.Name) and x.value.id == param


def _int_components(f, body, param) -> bool:
    """[int(c) for c in P.tag.split('.')] / tuple(int(c) for ...) / list(map(int, P.tag.split('.'))): numeric
    comparison of all components (the instance prefix is common, so the iteration number decides)."""
    for w in ("list", "tuple"):
        c = builtin_call(f, body, w)
        if c is not None and len(c.args) == 1 and not c.keywords:
            body = c.args[0]
            break
    m = builtin_call(f, body, "map")
    if m is not None and len(m.args) == 2 and isinstance(m.args[0], ast.Name) and m.args[0].id == "int" and not shadowed(f, "int"):
        x = split_dot(m.args[1])
        return x is not None and _elem_tag(x, param)
    if isinstance(body, (ast.ListComp, ast.GeneratorExp)) and len(body.generators) == 1:
        gen = body.generators[0]
        i = builtin_call(f, body.elt, "int")
        if i is not None and len(i.args) == 1 and isinstance(gen.target, ast.Name) and same(i.args[0], gen.target) and not gen.ifs and not gen.is_async:
            x = split_dot(gen.iter)
            return x is not None and _elem_tag(x, param)
    return False


def _iteration_key(f, keyf, fn: str = "sorted"):
    """(ok, negated, msg) for the key= of the iteration ordering `fn`."""
    if keyf is None:
        return False, False, f"{fn}() without key: tokens are not ordered by iteration number"
    kb = _key_body(f, keyf)
    if kb is None:
        return False, False, f"{fn}() key `{unparse(keyf)}` is not recognisable as int(<last tag component of the element>)"
    param, body = kb
    negated = False
    while isinstance(body, ast.UnaryOp) and isinstance(body.op, (ast.USub, ast.UAdd)):
        negated ^= isinstance(body.op, ast.USub)
        body = body.operand
    if _int_components(f, body, param):
        return True, negated, ""
    i = builtin_call(f, body, "int")
    if i is None or len(i.args) != 1 or i.keywords:
        comp = last_component(f, body)
        if comp is not None or (isinstance(body, ast.Attribute) and body.attr == "tag"):
            return False, negated, f"{fn}() key `{unparse(body)}` orders iterations as text (10 before 2, 9 after 10)"
        return False, negated, f"{fn}() key `{unparse(body)}` is not int(<last tag component>)"
    x = last_component(f, i.args[0])
    if x is None:
        return False, negated, f"{fn}() key `{unparse(body)}` does not take the last tag component (the iteration number)"
    if not _elem_tag(x, param):
        return False, negated, f"{fn}() key reads `{unparse(x)}`, not the tag of the element"
    return True, negated, ""


def _at(f, e, dflt):
    n = nid_of(f, e)
    return dflt if n is None else n


def _inplace_sorts(f, name: str):
    """[(Call `name.sort(...)`, CFG node id)] anywhere in f."""
    out = []
    for n in f.cfg.nodes.values():
        for c in n.calls():
            if method_call(c, "sort") is not None and isinstance(c.func.value, ast.Name) and c.func.value.id == name:
                out.append((c, n.id))
    return out


class _View:
    """What a sequence expression denotes: kind 'ordered' (call = sorted(...)/x.sort(...), inner = its input),
    'map' (self.token_map[key]), 'empty' (literal empty sequence) or 'other' (why)."""

    def __init__(self, kind, flipped=False, call=None, fn=None, inner=None, key=None, why=""):
        self.kind, self.flipped, self.call, self.fn, self.inner, self.key, self.why = kind, flipped, call, fn, inner, key, why


def _view(f, e, nid, depth: int = 10) -> _View:
    """Peel order-preserving copies (list/tuple/[:]/.copy()/identity comprehension), order-reversing views
    (reversed / [::-1]) and local names from `e` (evaluated at CFG node `nid`)."""
    flipped = False
    while depth > 0:
        depth -= 1
        e = strip_await(e)
        if isinstance(e, ast.NamedExpr):
            e = e.value
            continue
        if isinstance(e, ast.IfExp):
            return _View("other", flipped, why=f"`{unparse(e)}` is chosen conditionally")
        if isinstance(e, ast.Name):
            if scoped_binding(e) is not None or nid is None:
                return _View("other", flipped, why=f"`{e.id}` is not a collected-token sequence")
            ds = rdefs(f, e.id, nid, use=e)
            plain = len(ds) == 1 and ds[0].kind in ("assign", "walrus") and ds[0].index is None
            sorts = _inplace_sorts(f, e.id)
            if sorts:
                here = [(c, sn) for c, sn in sorts if sn != nid and f.cfg.dominates(sn, nid)
                        and {d.key() for d in rdefs(f, e.id, sn, use=c.func.value)} == {d.key() for d in ds}]
                if len(sorts) == 1 and len(here) == 1 and plain:
                    c, sn = here[0]
                    return _View("ordered", flipped, call=c, fn=f"{e.id}.sort", inner=(ds[0].value, ds[0].nid))
                return _View("other", flipped, why=f"`{e.id}` is sorted in place on some paths only / several times")
            if plain:
                e, nid = ds[0].value, ds[0].nid
                continue
            return _View("other", flipped, why=f"`{e.id}` has no single plain definition")
        if isinstance(e, (ast.List, ast.Tuple)) and not e.elts:
            return _View("empty", flipped)
        mk = _self_map_key(e, "token_map")
        if mk is not None:
            return _View("map", flipped, key=(mk[0], nid))
        c = builtin_call(f, e, "list") or builtin_call(f, e, "tuple")
        if c is not None and len(c.args) == 1 and not c.keywords:
            e = c.args[0]
            continue
        c = builtin_call(f, e, "reversed")
        if c is not None and len(c.args) == 1 and not c.keywords:
            flipped = not flipped
            e = c.args[0]
            continue
        if isinstance(e, ast.Subscript) and isinstance(e.slice, ast.Slice) and e.slice.lower is None and e.slice.upper is None:
            st = e.slice.step
            if st is None or is_const(st, 1):
                e = e.value
                continue
            if is_const(st, -1):
                flipped = not flipped
                e = e.value
                continue
        c = method_call(e, "copy")
        if c is not None and not c.args and not c.keywords:
            e = c.func.value
            continue
        if isinstance(e, ast.ListComp) and len(e.generators) == 1:
            gen = e.generators[0]
            if isinstance(gen.target, ast.Name) and same(e.elt, gen.target) and not gen.ifs and not gen.is_async:
                e = gen.iter
                continue
        c = builtin_call(f, e, "sorted")
        if c is not None:
            if len(c.args) != 1:
                return _View("other", flipped, why=f"`{unparse(c)}`: sorted() call shape")
            return _View("ordered", flipped, call=c, fn="sorted", inner=(c.args[0], nid))
        return _View("other", flipped, why=f"`{unparse(e)}` is not an ordered view of the collected tokens")
    return _View("other", flipped, why="definition chain too deep")


def _base_map(f, e, nid, depth: int = 4):
    """The `self.token_map[K]` a sequence expression is a (re-ordered) view of: (K, nid) | None."""
    while depth > 0:
        depth -= 1
        v = _view(f, e, nid)
        if v.kind == "map":
            return v.key
        if v.kind == "ordered":
            e, nid = v.inner
            continue
        return None
    return None


def _mentions_map(f, e, nid, depth: int = 6) -> bool:
    """`e` (local names replaced by their reaching definitions) reads self.token_map."""
    for x in ast.walk(e):
        if dotted(x) == "self.token_map":
            return True
        if isinstance(x, ast.Name) and isinstance(x.ctx, ast.Load) and depth > 0 and nid is not None and scoped_binding(x) is None:
            for d in rdefs(f, x.id, _at(f, x, nid), use=x):
                if d.value is not None and d.nid is not None and d.nid != nid and _mentions_map(f, d.value, d.nid, depth - 1):
                    return True
    return False


def _ordering(f, call, fn, nid):
    """(key ok, ascending | None, msg) of an ordering call sorted(...)/x.sort(...)/max(...)/min(...)."""
    kx = kwarg(call, "key")
    cn = _at(f, call, nid)
    ko = single_origin(f, kx, cn) if kx is not None else None
    if kx is not None and ko is None:
        ko = kx
    ok, negated, msg = _iteration_key(f, ko, fn)
    asc = not negated
    rev = kwarg(call, "reverse")
    if rev is not None:
        rv = const_value(single_origin(f, rev, cn) or rev)
        if not isinstance(rv, bool):
            return ok, None, msg
        asc = asc != rv
    return ok, asc, msg


TOKEN = "streamflow.core.workflow.Token"


def _ctor_tag(prog, f, call):
    """`call` constructs a Token (sub)class: (True, its tag argument | None when the default tag is used);
    (False, None) when it is not a token constructor."""
    for q in prog.resolve_call(f, call, fanout=False):
        if q not in prog.classes or not prog.is_subclass(q, TOKEN):
            continue
        init = prog.resolve_method(q, "__init__")
        pos = None
        if init is not None:
            a = init.node.args
            ps = [x.arg for x in a.posonlyargs + a.args][1:]
            pos = ps.index("tag") if "tag" in ps else None
        return True, kwarg(call, "tag", pos)
    return False, None


def _bind_args(h, call):
    """{parameter of helper h: argument expression of `call`} | None when the binding is unknown (* / **)."""
    if any(isinstance(x, ast.Starred) for x in call.args) or any(k.arg is None for k in call.keywords):
        return None
    a = h.node.args
    pos = [x.arg for x in a.posonlyargs + a.args]
    if pos and pos[0] in ("self", "cls") and h.cls is not None and isinstance(call.func, ast.Attribute):
        pos = pos[1:]
    out = dict(zip(pos, call.args))
    for k in call.keywords:
        out[k.arg] = k.value
    return out


def _instance_tagged(prog, f, o, on, accept, depth: int = 2):
    """(ok, msg): the token expression `o` (an origin evaluated at CFG node `on` of f) carries a tag for which
    `accept(f, tag expression, nid)` holds.  Recognised: `<token>.retag(T)`, `<Token class>(..., tag=T)` (any class of
    the Token hierarchy, keyword or the position of `tag` in its constructor), `<tagged token>.update(v)` (update keeps
    the tag) and a resolved helper (bounded inlining) every return of which is tagged with a parameter bound to T."""
    o = strip_await(o)
    rt = method_call(o, "retag")
    if rt is not None:
        te = kwarg(rt, "tag", 0)
        if te is None:
            return False, f"`{unparse(o)}`: retag() without a tag"
        ok = accept(f, te, _at(f, te, on))
        return ok, "" if ok else f"`{unparse(o)}` is tagged `{unparse(te)}`, not the loop instance's tag"
    if isinstance(o, ast.Call):
        is_tok, te = _ctor_tag(prog, f, o)
        if is_tok:
            if te is None:
                return False, f"`{unparse(o)}` is built without tag=: it carries the constructor's default tag ('0'), not the loop instance's tag"
            ok = accept(f, te, _at(f, te, on))
            return ok, "" if ok else f"`{unparse(o)}` is tagged `{unparse(te)}`, not the loop instance's tag"
        up = method_call(o, "update")
        if up is not None and depth > 0:
            rn = _at(f, up.func.value, on)
            for r in origin_at(f, up.func.value, rn):
                ok, msg = _instance_tagged(prog, f, r, _at(f, r, rn), accept, depth - 1)
                if not ok:
                    return False, msg
            return True, ""
        if depth > 0:
            hs = [q for q in prog.resolve_call(f, o, fanout=False) if q in prog.functions]
            h = prog.functions[hs[0]] if len(hs) == 1 else None
            binding = _bind_args(h, o) if h is not None and h.node is not f.node else None
            if binding is not None:
                def through(hf, e, n):
                    x = single_origin(hf, e, n)
                    if isinstance(x, ast.Name) and x.id in binding:
                        d = name_def(hf, x, n)
                        return d is not None and d.kind == "param" and accept(f, binding[x.id], _at(f, binding[x.id], on))
                    return False

                hrets = [n for n in h.body_nodes() if isinstance(n, ast.Return) and n.value is not None]
                if hrets:
                    for r in hrets:
                        rn = nid_of(h, r.value)
                        for ho in origin_at(h, r.value, rn):
                            ok, msg = _instance_tagged(prog, h, ho, _at(h, ho, rn), through, depth - 1)
                            if not ok:
                                return False, f"helper {h.name}: {msg}"
                    return True, ""
    return False, f"`{unparse(o)}` is not a token tagged with the loop instance's tag (neither <token>.retag(tag) nor <Token>(..., tag=tag))"


def r1(ctx):
    p = ctx.prog
    require_members(ctx, LOS, ["_process_output"], ["token_map"])
    impls = p.concrete_impls(LOS, "_process_output")
    ctx.require(len(impls) >= 1, "C06.R1: no LoopOutputStep._process_output implementation found")
    for f in impls:
        who = f.qualname.split(".")[-2]
        ps = [a for a in f.params if a != "self"]
        ctx.require(len(ps) == 1, f"C06.R1: {who}._process_output signature changed")
        tagp = ps[0]
        rets = sorted((n for n in f.body_nodes() if isinstance(n, ast.Return) and n.value is not None), key=lambda n: (n.lineno, n.col_offset))
        ctx.require(len(rets) >= 1, f"C06.R1: {who}._process_output returns nothing")
        outputs = []

        def is_instance_tag(hf, e, n, _f=f, _tagp=tagp):
            return hf is _f and _is_param(hf, e, _tagp, n)

        # every path through the method ends in a `return <value>` (a bare return / falling off the end emits None)
        g = f.cfg
        valued = [i for r in rets for i in g.ids_of(r)]
        w = g.escape(g.entry, valued, kinds=NORMAL)
        ctx.ob("R1", f"{who}: every path returns a token", w is None, func=f, node=f.node, instance=f"{who}:returns",
               message="a path through _process_output ends without returning a token (bare return / end of the body): None is emitted as the loop output",
               witness=g.describe(w) if w else [])
        for ret in rets:
            rn = nid_of(f, ret.value)
            for o in origin_at(f, ret.value, rn):
                on = _at(f, o, rn)
                if not _mentions_map(f, o, on):
                    ctx.observe(f"C06.R1: {who}._process_output: `return {unparse(ret.value)}` does not read the collected tokens (placeholder output, no ordering obligation)")
                    # no ordering obligation, but the tag obligation holds for every returned value: the output of a loop
                    # instance (also the null output of an instance without iterations) is matched downstream by the
                    # instance's tag; a token left with the constructor's default tag '0' belongs to another instance
                    tok, tmsg = _instance_tagged(p, f, o, on, is_instance_tag)
                    ctx.ob("R1", f"{who}: a returned placeholder carries the loop instance tag", tok, func=f, node=ret, instance=f"{who}:tag:placeholder:{unparse(o)}",
                           message=f"`return {unparse(ret.value)}`: {tmsg}: the output of this path (an instance without iterations) is emitted under a tag "
                           f"other than `{tagp}`, so a scatter element / outer iteration never receives its loop output")
                    continue
                if not any(same(o, o2) for _r, o2, _n in outputs):
                    outputs.append((ret, o, on))
        ctx.ob("R1", f"{who}: the output is built from the collected iterations", bool(outputs), func=f, node=rets[0], instance=f"{who}:source",
               message="no return value reads self.token_map: the loop output does not depend on the iterations")
        for k, (ret, o, on) in enumerate(outputs):
            sfx = "" if k == 0 else f"#{k + 1}"
            _check_output(ctx, f, who, tagp, ret, o, on, sfx)


def _check_output(ctx, f, who, tagp, ret, o, on, sfx):
    p = ctx.prog
    shape, seq, tag_expr = None, None, None
    sel, idx, sel_call = None, None, None  # last: 'index' (idx) | 'max' / 'min' (sel_call)
    why = ""
    if isinstance(o, ast.Call) and resolves_to(p, f, o, "streamflow.workflow.token.ListToken"):
        shape = "all"
        seq = kwarg(o, "value", 0)
        tag_expr = kwarg(o, "tag", 1)
        if seq is None:
            why = "ListToken(...) without a value"
    elif (rt := method_call(o, "retag")) is not None:
        shape = "last"
        tag_expr = kwarg(rt, "tag", 0)
        rnid = _at(f, rt.func.value, on)
        recv = single_origin(f, rt.func.value, rnid)
        if recv is not None:
            rnid = _at(f, recv, rnid)
        if isinstance(recv, ast.Subscript) and not isinstance(recv.slice, ast.Slice):
            sel, idx, seq = "index", const_value(single_origin(f, recv.slice, rnid) or recv.slice), recv.value
        elif (mm := (builtin_call(f, recv, "max") or builtin_call(f, recv, "min"))) is not None and len(mm.args) == 1:
            sel, sel_call, seq = mm.func.id, mm, mm.args[0]
        else:
            why = f"the retagged token `{unparse(rt.func.value)}` is not an element selected from the ordered iterations (<sorted>[i] / max(..., key=))"
    else:
        why = f"returns `{unparse(o)}`: neither ListToken(value=<ordered iterations>) nor <last iteration>.retag(tag)"
    for nm, want in (("Last", "last"), ("All", "all")):
        if nm in who:
            ctx.ob("R1", f"{who}: output shape matches the class ({want})", shape == want, func=f, node=ret, instance=f"{who}:shape{sfx}",
                   message=f"{who} builds the `{shape}` output" if shape else f"{who} {why}")
    # ---- the ordering
    ok, msg, asc = True, "", True
    ordered = False
    if seq is None:
        ok, msg = False, why
    else:
        sn = _at(f, seq, on)
        base = _base_map(f, seq, sn)
        v = _view(f, seq, sn)
        if base is None:
            ok, msg = False, (v.why or f"`{unparse(seq)}` is not a view of self.token_map[{tagp}]")
        elif not _is_param(f, base[0], tagp, base[1]):
            ok, msg = False, f"the iterations are read from self.token_map[{unparse(base[0])}], not from self.token_map[{tagp}]"
        elif sel in ("max", "min"):
            kok, kasc, kmsg = _ordering(f, sel_call, sel, sn)
            ordered = True
            if not kok:
                ok, msg = False, kmsg
            asc = kasc
        elif v.kind == "ordered":
            kok, kasc, kmsg = _ordering(f, v.call, v.fn, sn)
            ordered = True
            if not kok:
                ok, msg = False, kmsg
            asc = None if kasc is None else (kasc != v.flipped)
        else:
            ok, msg = False, f"iterations are used in arrival order: `{unparse(seq)}` is not sorted by iteration number"
            asc = not v.flipped
    ctx.ob("R1", f"{who}: iterations are ordered by int(last tag component)", ok, func=f, node=ret, instance=f"{who}:sort{sfx}", message=msg)
    if shape == "all":
        ctx.ob("R1", f"{who}: the list is in ascending iteration order", asc is True, func=f, node=ret, instance=f"{who}:order{sfx}",
               message="the ordering is descending (reverse=True / reversed / negated key): iterations are listed last to first" if asc is False
               else "the direction of the ordering is not a constant (reverse=<expression>)")
    elif shape == "last":
        if sel in ("max", "min"):
            picks_last = asc is not None and ((sel == "max") == asc)
            ctx.ob("R1", f"{who}: the selected element is the greatest iteration number", picks_last, func=f, node=ret, instance=f"{who}:index{sfx}",
                   message=f"{sel}(...) over {'an ascending' if asc else 'a negated'} key selects the first iteration, not the last" if asc is not None
                   else "the direction of the ordering is not a constant")
        elif sel == "index":
            if asc is None:
                ctx.ob("R1", f"{who}: the last iteration is selected from the sort", False, func=f, node=ret, instance=f"{who}:index{sfx}",
                       message="the direction of the ordering is not a constant (reverse=<expression>)")
            else:
                want_idx = -1 if asc else 0
                ctx.ob("R1", f"{who}: the last iteration is element {want_idx} of the sort", idx == want_idx, func=f, node=ret, instance=f"{who}:index{sfx}",
                       message=f"element [{idx if idx is not NotImplemented else '<non-constant>'}] of the {'ascending' if asc else 'descending'} "
                       f"{'sort' if ordered else 'sequence'} is not the last iteration")
    if shape is not None:
        tn = _at(f, tag_expr, on) if tag_expr is not None else on
        ctx.ob("R1", f"{who}: the output carries the loop instance tag", tag_expr is not None and _is_param(f, tag_expr, tagp, tn), func=f, node=ret,
               instance=f"{who}:tag{sfx}", message=f"output is tagged `{unparse(tag_expr) if tag_expr is not None else '<default / iteration tag>'}` instead of the instance tag")
    else:
        # unknown output shape (already reported above): the tag obligation is decided on its own
        tok, tmsg = _instance_tagged(p, f, o, on, lambda hf, e, n: hf is f and _is_param(hf, e, tagp, n))
        ctx.ob("R1", f"{who}: the output carries the loop instance tag", tok, func=f, node=ret, instance=f"{who}:tag{sfx}", message=tmsg)


# =========================================================================== R2


def _operand_at(f, e, nid, depth: int = 3):
    """(expression, CFG node where it is evaluated) of an operand used at CFG node `nid`: a local name with exactly one
    reaching definition -- a plain assignment / walrus whose node dominates the use, so no re-binding lies in between --
    stands for the assigned expression, evaluated at the definition.  Anything else is returned as it is."""
    g = f.cfg
    if isinstance(e, ast.NamedExpr):
        e = e.value
    while depth > 0 and isinstance(e, ast.Name) and nid is not None and scoped_binding(e) is None:
        depth -= 1
        ds = rdefs(f, e.id, nid, use=e)
        if len(ds) != 1:
            break
        d = ds[0]
        if d.kind not in ("assign", "walrus") or d.index is not None or d.value is None or d.nid is None:
            break
        if d.nid != nid and not g.dominates(d.nid, nid):
            break
        e, nid = d.value, d.nid
    return e, nid


def r2(ctx):
    p = ctx.prog
    require_members(ctx, LOS, ["run", "_process_output", "get_output_port", "_persist_token"], ["token_map", "size_map"])
    f = p.func(f"{LOS}.run")
    g = f.cfg
    # the arrived token: `token = await <port>.get(...)`
    gets = [n for n in g.nodes.values() if n.kind == "stmt" and isinstance(n.ast, ast.Assign) and len(n.ast.targets) == 1 and isinstance(n.ast.targets[0], ast.Name)
            and method_call(strip_await(n.ast.value), "get") is not None and n.has_await()]
    ctx.require(len(gets) == 1, f"C06.R2: LoopOutputStep.run: expected one `token = await port.get(...)`, found {len(gets)}")
    getn = gets[0]
    tok = getn.ast.targets[0].id

    def is_tok(e):
        return isinstance(e, ast.Name) and e.id == tok

    want_prefix = f"init(<{tok}.tag>)"

    def is_prefix(e, nid):
        return tag_canon(f, e, nid) == want_prefix

    def branch_test(fname):
        ts = [t for t in g.nodes.values() if t.kind == "test" and isinstance(t.ast, ast.Call) and resolves_to(p, f, t.ast, fname) and t.ast.args and is_tok(t.ast.args[0])]
        ctx.require(len(ts) == 1, f"C06.R2: LoopOutputStep.run: test `{fname.split('.')[-1]}({tok})` not found exactly once")
        return ts[0]

    t_term = branch_test("streamflow.workflow.utils.check_termination")
    t_iter = branch_test("streamflow.workflow.utils.check_iteration_termination")
    # ---- size store
    size_stores = [n for n in g.nodes.values() if n.kind == "stmt" and isinstance(n.ast, ast.Assign) and any(_self_map_key(t, "size_map") for t in n.ast.targets)]
    ctx.ob("R2", "run: the expected count is recorded", bool(size_stores), func=f, node=f.node, instance="run:size:exists",
           message="size_map is never written: no loop instance ever emits inside the loop")
    for s in size_stores:
        K = next(_self_map_key(t, "size_map")[0] for t in s.ast.targets if _self_map_key(t, "size_map"))
        v = single_origin(f, s.ast.value, s.id)
        i = builtin_call(f, v, "int")
        x = last_component(f, i.args[0]) if i is not None and len(i.args) == 1 else None
        ok = x is not None and isinstance(x, ast.Attribute) and x.attr == "tag" and is_tok(x.value)
        ctx.ob("R2", "run: expected count = int(last component of the IterationTerminationToken tag)", ok, func=f, node=s.ast, instance="run:size:value",
               message=f"expected count is `{unparse(v) if v is not None else unparse(s.ast.value)}`")
        ctx.ob("R2", "run: the count is stored under the tag prefix, in the iteration-termination branch",
               is_prefix(K, s.id) and only_via(g, t_iter.id, "t", s.id) and not only_via(g, t_term.id, "t", s.id), func=f, node=s.ast, instance="run:size:key",
               message=f"count is stored under `{tag_canon(f, K, s.id)}` / outside the iteration-termination branch")
    # ---- data append
    apps = []
    for n in g.nodes.values():
        for x in n.calls():
            mc = method_call(x, "append")
            if mc is not None and len(mc.args) == 1 and is_tok(mc.args[0]):
                mk = _self_map_key(mc.func.value, "token_map")
                if mk is not None:
                    apps.append((n, mk[0]))
    ctx.ob("R2", "run: data tokens are collected", bool(apps), func=f, node=f.node, instance="run:append:exists", message="data tokens are never appended to token_map")
    for n in g.nodes.values():
        if n.kind == "stmt" and isinstance(n.ast, ast.Assign) and len(n.ast.targets) == 1 and isinstance(n.ast.targets[0], ast.Subscript) \
                and dotted(n.ast.targets[0].value) == "self.token_map" and in_subtree(n.ast, getn.ast._parent):
            tg = n.ast.targets[0]
            ctx.ob("R2", "run: the list of an instance is created only when it does not exist yet", guarded_init(f, g, n.id, tg.value, tg.slice), func=f, node=n.ast,
                   instance="run:append:init", message="token_map[prefix] is re-created at every data token: earlier iterations are dropped")
    for n, K in apps:
        in_else = n.id in g.reach(branch_succ(g, t_iter.id, "f"), avoid=[t_iter.id], include_src=True) and not only_via(g, t_term.id, "t", n.id) and not only_via(g, t_iter.id, "t", n.id)
        ctx.ob("R2", "run: a data token is appended under its tag prefix in the data branch", is_prefix(K, n.id) and in_else, func=f, node=n.ast,
               instance="run:append:key", message=f"data token is filed under `{tag_canon(f, K, n.id)}`" + ("" if in_else else " outside the data branch"))
    # ---- emission test
    # an operand of the comparison may be held in a temporary (`n = len(self.token_map.get(prefix, [])); if n == ...`):
    # it is read through its reaching definition, and the node where it is *evaluated* is kept: the count must be
    # taken after the arrival has been recorded, not merely compared after it (see "evaluated after" below)
    tests = []
    for t in g.nodes.values():
        if t.kind != "test":
            continue
        for cmp_, edge in test_compares(f, t):
            a = b = None
            evals = []
            for s in (cmp_.left, cmp_.comparators[0]):
                s, sn = _operand_at(f, s, t.id)
                ln = builtin_call(f, s, "len")
                if ln is not None and len(ln.args) == 1:
                    c, cn = _operand_at(f, ln.args[0], sn)
                    if _self_map_key(c, "token_map"):
                        a = _self_map_key(c, "token_map") + (cn,)
                        evals += [sn, cn]
                        continue
                if _self_map_key(s, "size_map"):
                    b = _self_map_key(s, "size_map") + (sn,)
                    evals.append(sn)
            if a and b:
                tests.append((t, a, b, edge, sorted({n for n in evals if n != t.id})))
    ctx.ob("R2", "run: an emission test len(token_map[prefix]) == size_map[prefix] exists", bool(tests), func=f, node=f.node, instance="run:emit:exists",
           message="no emission test: the loop output is never produced inside the loop")
    procs = [n for n in g.nodes.values() if any(resolves_to(p, f, c, f"{LOS}._process_output") or (isinstance(c.func, ast.Attribute) and c.func.attr == "_process_output") for c in n.calls())]
    for t, (ka, da, na), (kb, db, nb), edge, evals in tests:
        ok, msg = True, ""
        if edge.startswith("op:"):
            ok, msg = False, f"collected count is compared with `{edge[3:]}`: the output is emitted early / repeatedly"
        elif not (is_prefix(ka, na) and is_prefix(kb, nb)):
            ok, msg = False, f"emission test reads token_map[{tag_canon(f, ka, na)}] and size_map[{tag_canon(f, kb, nb)}] (expected the arrived token's prefix on both sides)"
        else:
            dav = single_origin(f, da, na) if da is not None else None
            dbv = const_value(single_origin(f, db, nb) or db) if db is not None else NotImplemented
            a_empty = da is None or (isinstance(dav, (ast.List, ast.Tuple)) and not dav.elts) or is_const(dav, None)
            b_never = db is None or dbv is None or (isinstance(dbv, (int, float)) and not isinstance(dbv, bool) and dbv < 0)
            if da is not None and not a_empty:
                ctx.require(False, f"C06.R2: default `{unparse(da)}` of token_map.get not understood")
            if not b_never:
                ok, msg = False, f"a missing count defaults to `{unparse(db)}`, which an (empty) collection can equal: spurious output for unknown instances"
        ctx.ob("R2", "run: emission test is len(token_map[prefix]) == size_map[prefix] with unequal defaults", ok, func=f, node=t.ast, instance="run:emit:test", message=msg)
        # evaluated after either arrival kind, before the next token is read
        for label, nodes in (("count", [s.id for s in size_stores]), ("data", [n.id for n, _k in apps])):
            for sid in nodes:
                w = g.escape(sid, [t.id], targets=[getn.id, g.exit], kinds=NORMAL)
                stale = None
                if w is None:
                    # operands held in temporaries: each is (re)computed between the arrival and the next read as well
                    for ev in evals:
                        w = g.escape(sid, [ev], targets=[getn.id, g.exit], kinds=NORMAL)
                        if w is not None:
                            stale = ev
                            break
                ctx.ob("R2", f"run: the emission test is evaluated after a {label} arrival", w is None, func=f, node=g.nodes[sid].ast,
                       instance=f"run:emit:after-{label}", message=(f"after recording the {label} the next token is read without testing for completion: "
                       f"an instance whose {label} arrives last is never emitted" if stale is None else
                       f"the operand `{g.nodes[stale].text()}` of the emission test is computed before the {label} is recorded: the test compares a stale "
                       f"count, so an instance whose {label} arrives last is never emitted"), witness=g.describe(w) if w else [])
        # emission shape
        mine = [n for n in procs if only_via(g, t.id, fire_edge(edge), n.id)]
        ctx.ob("R2", "run: the emission branch calls _process_output", bool(mine), func=f, node=t.ast, instance="run:emit:process",
               message="the emission branch does not build the loop output")
        for n in mine:
            for c in n.calls():
                if not (isinstance(c.func, ast.Attribute) and c.func.attr == "_process_output"):
                    continue
                arg = kwarg(c, "tag", 0)
                ctx.ob("R2", "run: _process_output is awaited and called with the completed prefix", arg is not None and is_prefix(arg, n.id) and awaited(c), func=f, node=c,
                       instance="run:emit:arg", message=(f"_process_output({unparse(arg) if arg is not None else ''}) is not the completed instance" if awaited(c)
                                                         else "the _process_output coroutine is not awaited: a coroutine object is emitted as the loop output"))
            puts = [c for c in n.calls() if method_call(c, "put") is not None]
            put_ok = False
            prov_ok = False
            for c in puts:
                ro = single_origin(f, c.func.value, n.id)
                if isinstance(ro, ast.Call) and isinstance(ro.func, ast.Attribute) and ro.func.attr == "get_output_port" and not ro.args:
                    put_ok = True
                for x in ast.walk(c):
                    if isinstance(x, ast.Call) and isinstance(x.func, ast.Attribute) and x.func.attr == "_persist_token" and awaited(x):
                        ids = kwarg(x, "input_token_ids", 2)
                        for y in ast.walk(ids) if ids is not None else []:
                            mk = _self_map_key(y, "token_map")
                            if mk is not None and is_prefix(mk[0], n.id):
                                prov_ok = True
            ctx.ob("R2", "run: the output is persisted with the collected iterations as inputs and put on the output port", put_ok and prov_ok, func=f, node=n.ast,
                   instance="run:emit:put", message="loop output is not put on self.get_output_port() / not persisted with token_map[prefix] as inputs")
    # ---- R3 observation
    for t in g.nodes.values():
        if t.kind == "test":
            for x in ast.walk(t.ast):
                a = builtin_call(f, x, "all")
                if a is not None and a.args and dotted(a.args[0]) == "self.termination_map":
                    ctx.observe("C06.R3 (not armed): LoopOutputStep.run tests all(self.termination_map), which iterates the keys; the decision is dead "
                                "(the termination token is always the last token the step reads), see DESIGN section 7")


# =========================================================================== R4


def r4(ctx):
    require_members(ctx, f"{COMB}.LoopCombinator", ["_product"], ["iteration_map"])
    require_members(ctx, LCS, ["run"], ["iteration_termination_checklist"])
    require_members(ctx, f"{COMB}.LoopTerminationCombinator", ["_product"], ["output_items"])
    _loop_combinator(ctx)
    _loop_combinator_step(ctx)
    _loop_termination(ctx)


def _membership_decider(test):
    """A test that decides exactly `K in self.iteration_map`, however it is spelled (`K not in M`, `not K in M`,
    `not (K not in M)`, ...): (canonical atom `K in M`, edge 't' / 'f' on which it holds) | None.  Both edges must imply
    the atom (with opposite truth), so a compound test that enters a branch for another reason too is not accepted."""
    on_t, on_f = atoms(test, True), atoms(test, False)
    if len(on_t) != 1 or len(on_f) != 1:
        return None
    (a, va), (b, vb) = on_t[0], on_f[0]
    if not (isinstance(a, ast.Compare) and len(a.ops) == 1 and isinstance(a.ops[0], ast.In) and dotted(a.comparators[0]) == "self.iteration_map"):
        return None
    if va == vb or fact_key(a) != fact_key(b):
        return None
    return a, ("t" if va else "f")


def _loop_combinator(ctx):
    p = ctx.prog
    f = p.func(f"{COMB}.LoopCombinator._product")
    g = f.cfg
    # the emitted tag: `.retag(TAG)` inside the yield
    yields = [n for n in g.nodes.values() if n.kind == "stmt" and any(isinstance(x, ast.Yield) for x in n.walk())]
    ctx.require(len(yields) == 1, f"C06.R4: LoopCombinator._product: expected one yield, found {len(yields)}")
    yn = yields[0]
    retags = [x for x in yn.walk() if method_call(x, "retag") is not None]
    ctx.require(len(retags) >= 1 and all(len(x.args) + len(x.keywords) == 1 for x in retags), "C06.R4: LoopCombinator._product: no retag(...) in the yield")
    targ = retags[0].args[0] if retags[0].args else retags[0].keywords[0].value
    ctx.require(isinstance(targ, ast.Name), "C06.R4: LoopCombinator._product: retag argument is not a local name")
    defs = [d for d in rdefs(f, targ.id, yn.id, use=targ)]
    ctx.require(all(d.kind == "assign" and d.index is None for d in defs) and len(defs) == 2,
                f"C06.R4: LoopCombinator._product: `{targ.id}` has {len(defs)} reaching definitions at the yield (expected one per branch)")
    # the membership test on iteration_map
    # (branch facts: the test may be spelled `K not in M` / `not K in M` / `not (K not in M)` with the branches in
    # either order; what matters is the edge on which `K in self.iteration_map` is known to be false = first combination)
    tests = [t for t in g.nodes.values() if t.kind == "test" and t.ast is not None
             and any(isinstance(x, ast.Compare) and len(x.ops) == 1 and isinstance(x.ops[0], (ast.In, ast.NotIn)) and dotted(x.comparators[0]) == "self.iteration_map"
                     for x in ast.walk(t.ast))]
    ctx.require(len(tests) == 1, f"C06.R4: LoopCombinator._product: membership test on self.iteration_map not found exactly once ({len(tests)})")
    t = tests[0]
    decided = _membership_decider(t.ast)
    if decided is None:
        # the anchor is there, but the branch is not decided by the membership alone (`K not in M and <other>`): a
        # combination of a known instance can take the first-combination branch or vice versa
        ctx.ob("R4", "LoopCombinator._product: first/later iteration is decided on the tag prefix", False, func=f, node=t.ast, instance="product:test",
               message=f"the test `{unparse(t.ast)}` does not decide first / later combination by membership in iteration_map alone")
        return
    member, later_edge = decided
    first_edge = "f" if later_edge == "t" else "t"
    # base tag: the name whose definition is get_tag(...)
    base = None
    for n in g.nodes.values():
        if n.kind == "stmt" and isinstance(n.ast, ast.Assign) and len(n.ast.targets) == 1 and isinstance(n.ast.targets[0], ast.Name) \
                and isinstance(n.ast.value, ast.Call) and resolves_to(p, f, n.ast.value, "streamflow.core.utils.get_tag") and g.dominates(n.id, t.id):
            base = n.ast.targets[0].id
    ctx.require(base is not None, "C06.R4: LoopCombinator._product: the combination tag is not computed with get_tag before the test")
    B, P = f"<{base}>", f"init(<{base}>)"
    tc = tag_canon(f, member.left, t.id)
    ctx.ob("R4", "LoopCombinator._product: first/later iteration is decided on the tag prefix", tc == P, func=f, node=t.ast, instance="product:test",
           message=f"membership of `{tc}` in iteration_map is tested, expected `{P}`")
    for d in defs:
        canon = tag_canon(f, d.value, d.nid)
        if only_via(g, t.id, first_edge, d.nid):
            ctx.ob("R4", "LoopCombinator._product: the first combination of an instance gets suffix .0", canon == f"{B}.0", func=f, node=d.stmt,
                   instance="product:first:tag", message=f"first iteration is tagged `{canon}`, expected `{B}.0`")
            stores = [n for n in g.nodes.values() if n.kind == "stmt" and isinstance(n.ast, ast.Assign) and len(n.ast.targets) == 1
                      and isinstance(n.ast.targets[0], ast.Subscript) and dotted(n.ast.targets[0].value) == "self.iteration_map" and only_via(g, t.id, first_edge, n.id)]
            ok = len(stores) == 1 and is_const(stores[0].ast.value, 0) and tag_canon(f, stores[0].ast.targets[0].slice, stores[0].id) == B
            ctx.ob("R4", "LoopCombinator._product: the first combination creates the counter iteration_map[<instance tag>] = 0", ok, func=f,
                   node=(stores[0].ast if stores else d.stmt), instance="product:first:counter",
                   message=("no counter is created for a new loop instance" if not stores else
                            f"counter is created as iteration_map[{tag_canon(f, stores[0].ast.targets[0].slice, stores[0].id)}] = {unparse(stores[0].ast.value)}"))
        elif only_via(g, t.id, later_edge, d.nid):
            # which counter expression is the last component
            reads = _counter_reads(f, d.value, d.nid)
            want = None
            if len(reads) == 1:
                want = f"{P}.<{unparse(reads[0][0])}>"
            ok = want is not None and canon == want and tag_canon(f, reads[0][0].slice, reads[0][1]) == P
            ctx.ob("R4", "LoopCombinator._product: a later combination replaces the last component by the instance counter", ok, func=f, node=d.stmt,
                   instance="product:later:tag", message=f"later iteration is tagged `{canon}`, expected `{P}.<self.iteration_map[prefix]>`")
            incs = [n for n in g.nodes.values() if n.kind == "stmt" and isinstance(n.ast, ast.AugAssign) and isinstance(n.ast.target, ast.Subscript)
                    and dotted(n.ast.target.value) == "self.iteration_map" and only_via(g, t.id, later_edge, n.id)]
            ok_inc, msg = True, ""
            if len(incs) != 1:
                ok_inc, msg = False, f"{len(incs)} counter increments in the later-iteration branch (expected 1)"
            else:
                inc = incs[0]
                if not (isinstance(inc.ast.op, ast.Add) and is_const(inc.ast.value, 1)):
                    ok_inc, msg = False, f"counter is updated with `{unparse(inc.ast)}` instead of += 1"
                elif tag_canon(f, inc.ast.target.slice, inc.id) != P:
                    ok_inc, msg = False, f"the counter of `{tag_canon(f, inc.ast.target.slice, inc.id)}` is incremented, not the instance's"
                elif not reads or not all(g.dominates(inc.id, rn) for _x, rn in reads):
                    ok_inc, msg = False, "the counter is used before it is incremented: iteration 1 is tagged .0 again (duplicate tag) "
            ctx.ob("R4", "LoopCombinator._product: the counter is incremented by one before it is used", ok_inc, func=f, node=d.stmt, instance="product:later:increment", message=msg)
        else:
            ctx.require(False, "C06.R4: LoopCombinator._product: a tag definition lies outside the two branches")


def _counter_reads(f, e, nid, depth: int = 4):
    """[(Subscript self.iteration_map[..], CFG node of the read)] feeding expression e (through local temporaries)."""
    out = []
    if depth <= 0 or nid is None:
        return out
    for x in ast.walk(e):
        if isinstance(x, ast.Subscript) and dotted(x.value) == "self.iteration_map":
            out.append((x, nid))
        elif isinstance(x, ast.Name) and isinstance(x.ctx, ast.Load):
            ds = rdefs(f, x.id, nid, use=x)
            if len(ds) == 1 and ds[0].kind in ("assign", "walrus") and ds[0].index is None and ds[0].nid != nid:
                out.extend(_counter_reads(f, ds[0].value, ds[0].nid, depth - 1))
    return out


def _whole_list_atom(f, e, lists):
    """An atom that tests a list of `lists` for (non-)emptiness as a whole: bare `T`, `bool(T)` / `any(T)` (the
    elements are non-empty task names), `len(T) > 0` / `len(T) == 0` / ...: (T, True when the atom holds for a
    non-empty list) | None."""
    def is_list(x):
        return isinstance(x, ast.Name) and x.id in lists

    if is_list(e):
        return e.id, True
    for fn in ("bool", "any"):
        c = builtin_call(f, e, fn)
        if c is not None and len(c.args) == 1 and not c.keywords and is_list(c.args[0]):
            return c.args[0].id, True
    ln = builtin_call(f, e, "len")
    if ln is not None and len(ln.args) == 1 and is_list(ln.args[0]):
        return ln.args[0].id, True
    em = emptiness_atom(e)
    if em is not None and is_list(em[0]):
        return em[0].id, not em[1]
    return None


def _loop_combinator_step(ctx):
    p = ctx.prog
    f = p.func(f"{LCS}.run")
    g = f.cfg
    whiles = [n for n in f.body_nodes() if isinstance(n, ast.While)]
    ctx.require(len(whiles) == 1, "C06.R4: LoopCombinatorStep.run: expected one while loop")
    wl = whiles[0]
    CHK = "self.iteration_termination_checklist"

    def is_task_name(e, nid):
        o = single_origin(f, e, nid)
        return method_call(o, "get_name") is not None

    rearm = []
    for c in f.calls():
        if resolves_to(p, f, c, "asyncio.create_task") and in_subtree(c, wl) and c.args and method_call(strip_await(c.args[0]), "get") is not None:
            # only the re-arm inside the loop over finished tasks
            if any(isinstance(a, (ast.For, ast.AsyncFor)) and in_subtree(c, a) for a in ast.walk(wl)):
                rearm.append(c)
    ctx.ob("R4", "LoopCombinatorStep.run re-arms its ports", len(rearm) >= 1, func=f, node=wl, instance="lcs:rearm:exists", message="no port is re-armed inside the loop")
    # the lists filled with the name of a task whose port delivered its termination token, with the origin of the
    # appended key (`<task>.get_name()`): the guard of the re-arm must look the completed task up under that key
    terminated_lists: dict = {}
    for c in f.calls():
        if method_call(c, "append") is not None and isinstance(c.func.value, ast.Name) and len(c.args) == 1 and is_task_name(c.args[0], nid_of(f, c)):
            terminated_lists.setdefault(c.func.value.id, []).append(single_origin(f, c.args[0], nid_of(f, c)))
    fill_keys = [o for os_ in terminated_lists.values() for o in os_]
    for c in rearm:
        cn = nid_of(f, c)
        guards = [t for t in g.nodes.values() if t.kind == "test" and in_subtree(t.ast, wl) and g.dominates(t.id, cn)
                  and (only_via(g, t.id, "t", cn) or only_via(g, t.id, "f", cn))
                  and any(isinstance(x, ast.Name) and x.id in terminated_lists for x in ast.walk(t.ast))]
        if not guards:
            ctx.ob("R4", "LoopCombinatorStep.run: re-arm is guarded by `terminated and checklist empty`", False, func=f, node=c, instance="lcs:rearm:guard",
                   message="ports are re-armed unconditionally: the step never terminates (or the guard no longer mentions the terminated ports)")
            continue
        t = guards[-1]
        edge = "t" if only_via(g, t.id, "t", cn) else "f"

        wrong_keys: list = []

        def container(x):
            """(expression, CFG node where it is evaluated) of the container an atom tests, through one local temporary."""
            if isinstance(x, ast.Name):
                d = name_def(f, x, t.id)
                if d is not None and d.kind in ("assign", "walrus") and d.index is None and d.value is not None and d.nid is not None:
                    return d.value, d.nid
            return x, t.id

        def own_key(k, what, at=None) -> None:
            """The atom is about the completed task only if it is keyed by the task's own name, i.e. the value under
            which `terminated` is filled (`<task>.get_name()`, through local aliases).  Any other key (a port name left
            over from another loop, a constant, another task's name) is a *violation* of the guard, not an unreadable
            shape: the atom is still tabulated so that the truth table is reported independently."""
            o = single_origin(f, k, t.id if at is None else at)
            if not (method_call(o, "get_name") is not None and any(same(o, fk) for fk in fill_keys)):
                msg = f"{what} is keyed by `{unparse(k)}`" + (f" (= `{unparse(o)}`)" if o is not None and not same(o, k) else "")
                if msg not in wrong_keys:
                    wrong_keys.append(msg)

        def atom(e):
            if isinstance(e, ast.Compare) and len(e.ops) == 1 and isinstance(e.ops[0], (ast.In, ast.NotIn)) and isinstance(e.comparators[0], ast.Name) \
                    and e.comparators[0].id in terminated_lists:
                own_key(e.left, f"membership in `{e.comparators[0].id}`")
                return ("terminated", isinstance(e.ops[0], ast.In))
            # the list of terminated ports read as a whole (`terminated`, `bool(terminated)`, `len(terminated) > 0`, ...):
            # "some port has terminated", not "the completed task's port has terminated".  The atom is tabulated with the
            # polarity of its spelling and the missing key is reported as a violation of the guard (not refused).
            whole = _whole_list_atom(f, e, terminated_lists)
            if whole is not None:
                nm, pol = whole
                msg = f"`{unparse(e)}` tests whether *some* port has terminated (the list `{nm}` as a whole, no membership test)"
                if msg not in wrong_keys:
                    wrong_keys.append(msg)
                return ("terminated", pol)
            em = emptiness_atom(e)
            if em is not None:
                x, pol = em
                x, xn = container(x)
                if isinstance(x, ast.Subscript) and dotted(x.value) == CHK and not isinstance(x.slice, ast.Slice):
                    own_key(x.slice, "the iteration checklist", xn)
                    return ("empty", pol)
                return None
            x, xn = container(e)
            if isinstance(x, ast.Subscript) and dotted(x.value) == CHK and not isinstance(x.slice, ast.Slice):
                own_key(x.slice, "the iteration checklist", xn)
                return ("empty", False)  # truthy = non-empty
            if any(isinstance(n, ast.Name) and n.id in terminated_lists for n in ast.walk(e)):
                # any other reading of the terminated ports (count, comparison with another collection, ...): the guard no
                # longer asks whether *this* port has terminated; opaque atom, reported below
                msg = f"`{unparse(e)}` reads the terminated ports otherwise than by membership of the completed task's name"
                if msg not in wrong_keys:
                    wrong_keys.append(msg)
                return ("?" + unparse(e), True)
            return None

        folded = fold_bool(t.ast, atom)
        ctx.require(folded is not None, f"C06.R4: LoopCombinatorStep.run: re-arm guard `{unparse(t.ast)}` has atoms that are not understood")
        ctx.ob("R4", "LoopCombinatorStep.run: the re-arm guard looks the completed task up under its own name", not wrong_keys, func=f, node=t.ast, instance="lcs:rearm:key",
               message=f"re-arm guard `{unparse(t.ast)}`: " + "; ".join(wrong_keys) + f" -- expected a lookup under the completed task's own name `{unparse(fill_keys[0]) if fill_keys else '<task>.get_name()'}` "
               "(the key under which terminated ports are recorded): a terminated port is re-armed for ever / a live port is dropped")
        names, table = folded
        opaque = [n[1:] for n in names if n.startswith("?")]
        if opaque:
            ctx.ob("R4", "LoopCombinatorStep.run stops re-arming a port exactly when it is terminated and its iteration checklist is empty", False, func=f, node=t.ast,
                   instance="lcs:rearm:guard", message=f"re-arm guard `{unparse(t.ast)}` depends on " + ", ".join(f"`{o}`" for o in opaque)
                   + ", which is neither 'this port has terminated' nor 'its iteration checklist is empty'")
            continue
        bad = []
        for term in (False, True):
            for empty in (False, True):
                env = {"terminated": term, "empty": empty}
                val = table[tuple(env[n] for n in names)]
                re = val if edge == "t" else not val
                if re != (not (term and empty)):
                    bad.append(f"terminated={term}, checklist empty={empty}: re-arm={re}")
        ctx.ob("R4", "LoopCombinatorStep.run stops re-arming a port exactly when it is terminated and its iteration checklist is empty", not bad, func=f, node=t.ast,
               instance="lcs:rearm:guard", message="re-arm guard truth table differs: " + "; ".join(bad))
    # checklist bookkeeping
    t_iter = [t for t in g.nodes.values() if t.kind == "test" and isinstance(t.ast, ast.Call) and resolves_to(p, f, t.ast, "streamflow.workflow.utils.check_iteration_termination")]
    t_term = [t for t in g.nodes.values() if t.kind == "test" and isinstance(t.ast, ast.Call) and resolves_to(p, f, t.ast, "streamflow.workflow.utils.check_termination")]
    ctx.require(len(t_iter) == 1 and len(t_term) == 1, "C06.R4: LoopCombinatorStep.run: token kind tests not found")
    adds, rems = [], []
    for n in g.nodes.values():
        for x in n.calls():
            if isinstance(x.func, ast.Attribute) and isinstance(x.func.value, ast.Subscript) and dotted(x.func.value.value) == CHK and len(x.args) == 1:
                a = single_origin(f, x.args[0], n.id)
                is_tag = isinstance(a, ast.Attribute) and a.attr == "tag"
                if x.func.attr == "add" and is_tag:
                    adds.append(n)
                elif x.func.attr in ("remove", "discard") and is_tag:
                    rems.append(n)
    ok_add = bool(adds) and all(not only_via(g, t_iter[0].id, "t", n.id) and not only_via(g, t_term[0].id, "t", n.id) for n in adds)
    ctx.ob("R4", "LoopCombinatorStep.run records a started iteration in the checklist (data branch)", ok_add, func=f, node=(adds[0].ast if adds else wl),
           instance="lcs:checklist:add", message="started iterations are not recorded: a terminated port stops being read while an iteration is still running")
    ok_rem = bool(rems) and all(only_via(g, t_iter[0].id, "t", n.id) for n in rems)
    ctx.ob("R4", "LoopCombinatorStep.run removes an iteration from the checklist on its IterationTerminationToken", ok_rem, func=f, node=(rems[0].ast if rems else wl),
           instance="lcs:checklist:remove", message="finished iterations are never removed from the checklist: the step never stops re-arming (hang)")


def _loop_termination(ctx):
    p = ctx.prog
    f = p.func(f"{COMB}.LoopTerminationCombinator._product")
    ys = [x for x in f.body_nodes() if isinstance(x, ast.Yield)]
    ctx.require(len(ys) == 1 and ys[0].value is not None, "C06.R4: LoopTerminationCombinator._product: expected one yield")
    yn = nid_of(f, ys[0])
    v = single_origin(f, ys[0].value, yn)
    ctx.require(isinstance(v, ast.DictComp) and len(v.generators) == 1, f"C06.R4: LoopTerminationCombinator._product yields `{unparse(v) if v is not None else None}` (unsupported shape)")
    gen = v.generators[0]
    over_items = dotted(gen.iter) == "self.output_items" and not gen.ifs and same(v.key, gen.target)
    ctx.ob("R4", "LoopTerminationCombinator emits one token per output item", over_items, func=f, node=ys[0], instance="ltc:items",
           message=f"termination tokens are produced for `{unparse(gen.iter)}` (key `{unparse(v.key)}`), not once per output item")
    tok = None
    if isinstance(v.value, ast.Dict):
        for k, val in zip(v.value.keys, v.value.values):
            if is_const(k, "token"):
                tok = val
    ctx.require(tok is not None, "C06.R4: LoopTerminationCombinator._product: no 'token' entry in the yielded schema")
    is_itt = isinstance(tok, ast.Call) and resolves_to(p, f, tok, "streamflow.workflow.token.IterationTerminationToken")
    tag = kwarg(tok, "tag", 0) if isinstance(tok, ast.Call) else None
    to = single_origin(f, tag, yn) if tag is not None else None
    tag_ok = isinstance(to, ast.Call) and resolves_to(p, f, to, "streamflow.core.utils.get_tag")
    ctx.ob("R4", "LoopTerminationCombinator emits IterationTerminationToken(tag=get_tag(<combination>))", is_itt and tag_ok, func=f, node=ys[0], instance="ltc:token",
           message=f"emitted token is `{unparse(tok)}` with tag origin `{unparse(to) if to is not None else None}`")


RULES = [("R1", r1), ("R2", r2), ("R4", r4)]
FLOORS = {"R1": 7, "R2": 10, "R4": 9}

_ALL = "streamflow.cwl.step.CWLLoopOutputAllStep._process_output"
_LAST = "streamflow.cwl.step.CWLLoopOutputLastStep._process_output"
_RUN = f"{LOS}.run"
_LP = f"{COMB}.LoopCombinator._product"
_LT = f"{COMB}.LoopTerminationCombinator._product"
_LR = f"{LCS}.run"
_LAST_RET = "    return sorted(self.token_map.get(tag, [Token(value=None)]), key=lambda t: int(t.tag.split('.')[-1]))[-1].retag(tag=tag)"

VARIANTS = [
    # R1
    V("All: sort key without int", WFILE, _ALL, "key=lambda t: int(t.tag.split('.')[-1])", "key=lambda t: t.tag.split('.')[-1]", "R1", control=True),
    V("Last: takes index 0", WFILE, _LAST, "[-1].retag(tag=tag)", "[0].retag(tag=tag)", "R1", control=True),
    V("Last: sort key is the whole tag", WFILE, _LAST, "key=lambda t: int(t.tag.split('.')[-1])", "key=lambda t: t.tag", "R1"),
    V("All: sorts on the first component", WFILE, _ALL, "int(t.tag.split('.')[-1])", "int(t.tag.split('.')[0])", "R1"),
    V("All: arrival order", WFILE, _ALL, "value=sorted(self.token_map.get(tag, []), key=lambda t: int(t.tag.split('.')[-1]))", "value=self.token_map.get(tag, [])", "R1"),
    V("All: reverse order", WFILE, _ALL, "key=lambda t: int(t.tag.split('.')[-1]))", "key=lambda t: int(t.tag.split('.')[-1]), reverse=True)", "R1"),
    V("Last: keeps the iteration tag", WFILE, _LAST, "[-1].retag(tag=tag)", "[-1].retag(tag=tag + '.0')", "R1"),
    V("All: list tagged with the default tag", WFILE, _ALL, "ListToken(tag=tag, value=", "ListToken(value=", "R1"),
    V("Last: max() with the text key (seeded change 1)", WFILE, _LAST, "return sorted(self.token_map.get(tag, [Token(value=None)]), key=lambda t: int(t.tag.split('.')[-1]))[-1].retag(tag=tag)",
      "return max(self.token_map.get(tag, [Token(value=None)]), key=lambda t: t.tag.split('.')[-1]).retag(tag=tag)", "R1", control=True),
    V("All: list() copy in arrival order (seeded change 3)", WFILE, _ALL, "value=sorted(self.token_map.get(tag, []), key=lambda t: int(t.tag.split('.')[-1]))", "value=list(self.token_map.get(tag, []))", "R1"),
    V("Last: min() selects the first iteration", WFILE, _LAST, "return sorted(self.token_map.get(tag, [Token(value=None)]), key=lambda t: int(t.tag.split('.')[-1]))[-1].retag(tag=tag)",
      "return min(self.token_map.get(tag, [Token(value=None)]), key=lambda t: int(t.tag.split('.')[-1])).retag(tag=tag)", "R1"),
    V("Last: max() without key", WFILE, _LAST, "return sorted(self.token_map.get(tag, [Token(value=None)]), key=lambda t: int(t.tag.split('.')[-1]))[-1].retag(tag=tag)",
      "return max(self.token_map.get(tag, [Token(value=None)])).retag(tag=tag)", "R1"),
    V("Last: last arrived token", WFILE, _LAST, "return sorted(self.token_map.get(tag, [Token(value=None)]), key=lambda t: int(t.tag.split('.')[-1]))[-1].retag(tag=tag)",
      "return self.token_map.get(tag, [Token(value=None)])[-1].retag(tag=tag)", "R1"),
    V("Last: value re-wrapped from an unordered element", WFILE, _LAST, "return sorted(self.token_map.get(tag, [Token(value=None)]), key=lambda t: int(t.tag.split('.')[-1]))[-1].retag(tag=tag)",
      "return Token(tag=tag, value=self.token_map.get(tag, [Token(value=None)]).pop().value)", "R1"),
    V("All: in-place sort with the text key", WFILE, _ALL, "    return ListToken(tag=tag, value=sorted(self.token_map.get(tag, []), key=lambda t: int(t.tag.split('.')[-1])))",
      "    collected = list(self.token_map.get(tag, []))\n    collected.sort(key=lambda t: t.tag.split('.')[-1])\n    return ListToken(tag=tag, value=collected)", "R1"),
    V("All: in-place sort on one path only", WFILE, _ALL, "    return ListToken(tag=tag, value=sorted(self.token_map.get(tag, []), key=lambda t: int(t.tag.split('.')[-1])))",
      "    collected = list(self.token_map.get(tag, []))\n    if len(collected) > 10:\n        collected.sort(key=lambda t: int(t.tag.split('.')[-1]))\n    return ListToken(tag=tag, value=collected)", "R1"),
    V("All: reversed view of the sort", WFILE, _ALL, "value=sorted(self.token_map.get(tag, []), key=lambda t: int(t.tag.split('.')[-1]))", "value=list(reversed(sorted(self.token_map.get(tag, []), key=lambda t: int(t.tag.split('.')[-1]))))", "R1"),
    V("All: negated key", WFILE, _ALL, "key=lambda t: int(t.tag.split('.')[-1])", "key=lambda t: -int(t.tag.split('.')[-1])", "R1"),
    V("All: key helper returns the text component", WFILE, _ALL, "    return ListToken(tag=tag, value=sorted(self.token_map.get(tag, []), key=lambda t: int(t.tag.split('.')[-1])))",
      "    def iteration(t):\n        return t.tag.split('.')[-1]\n    return ListToken(tag=tag, value=sorted(self.token_map.get(tag, []), key=iteration))", "R1"),
    V("All: sorts the tokens of another instance", WFILE, _ALL, "sorted(self.token_map.get(tag, []), key=", "sorted(self.token_map.get(tag[:-2], []), key=", "R1"),
    V("All: only the first ten iterations", WFILE, _ALL, "value=sorted(self.token_map.get(tag, []), key=lambda t: int(t.tag.split('.')[-1]))", "value=sorted(self.token_map.get(tag, []), key=lambda t: int(t.tag.split('.')[-1]))[:10]", "R1"),
    V("Last: output does not depend on the iterations", WFILE, _LAST, "return sorted(self.token_map.get(tag, [Token(value=None)]), key=lambda t: int(t.tag.split('.')[-1]))[-1].retag(tag=tag)",
      "return Token(value=None, tag=tag)", "R1"),
    V("Last: early return of the empty case skips the retag (seeded change C06-3)", WFILE, _LAST, _LAST_RET,
      "    if not (tokens := self.token_map.get(tag)):\n        return Token(value=None)\n    return max(tokens, key=lambda t: int(t.tag.split('.')[-1])).retag(tag=tag)", "R1"),
    V("Last: placeholder tagged with the root tag", WFILE, _LAST, _LAST_RET,
      "    if tag not in self.token_map:\n        return Token(value=None, tag='0')\n" + _LAST_RET.replace(".get(tag, [Token(value=None)])", "[tag]"), "R1"),
    V("Last: bare return in the empty case", WFILE, _LAST, _LAST_RET,
      "    if tag not in self.token_map:\n        return\n" + _LAST_RET.replace(".get(tag, [Token(value=None)])", "[tag]"), "R1"),
    V("Last: placeholder from a helper that drops the tag", WFILE, _LAST, _LAST_RET,
      "    if tag not in self.token_map:\n        return _c06_null_token(tag)\n" + _LAST_RET.replace(".get(tag, [Token(value=None)])", "[tag]"), "R1",
      append="\n\ndef _c06_null_token(tag):\n    return Token(value=None)\n"),
    V("All: empty list token with the default tag", WFILE, _ALL, "    return ListToken(tag=tag, value=sorted(",
      "    if not self.token_map.get(tag):\n        return ListToken(value=[])\n    return ListToken(tag=tag, value=sorted(", "R1"),
    # R2
    V("run: size from len(tag)", SFILE, _RUN, "self.size_map[prefix] = int(token.tag.split('.')[-1])", "self.size_map[prefix] = len(token.tag.split('.'))", "R2", control=True),
    V("run: emission test only in the data branch", SFILE, _RUN,
      "            self.token_map[prefix].append(token)\n        if len(self.token_map.get(prefix, [])) == self.size_map.get(prefix, -1):\n            self.get_output_port().put(",
      "            self.token_map[prefix].append(token)\n            if len(self.token_map.get(prefix, [])) == self.size_map.get(prefix, -1):\n                self.get_output_port().put(", "R2"),
    V("run: emission test >=", SFILE, _RUN, "if len(self.token_map.get(prefix, [])) == self.size_map.get(prefix, -1):", "if len(self.token_map.get(prefix, [])) >= self.size_map.get(prefix, -1):", "R2"),
    V("run: missing size defaults to 0", SFILE, _RUN, "if len(self.token_map.get(prefix, [])) == self.size_map.get(prefix, -1):", "if len(self.token_map.get(prefix, [])) == self.size_map.get(prefix, 0):", "R2"),
    V("run: size stored under the full tag", SFILE, _RUN, "self.size_map[prefix] = int(", "self.size_map[token.tag] = int(", "R2"),
    V("run: _process_output on the token tag", SFILE, _RUN, "await self._process_output(prefix)", "await self._process_output(token.tag)", "R2"),
    V("run: size is the last component as text", SFILE, _RUN, "self.size_map[prefix] = int(token.tag.split('.')[-1])", "self.size_map[prefix] = token.tag.split('.')[-1]", "R2"),
    V("run: token list re-created at every data token", SFILE, _RUN, "            if prefix not in self.token_map:\n                self.token_map[prefix] = []\n", "            self.token_map[prefix] = []\n", "R2"),
    V("run: _process_output not awaited", SFILE, _RUN, "token=await self._process_output(prefix)", "token=self._process_output(prefix)", "R2"),
    V("run: prefix keeps the iteration component", SFILE, _RUN, "prefix = '.'.join(token.tag.split('.')[:-1])", "prefix = token.tag", "R2"),
    # R4
    V("_product: counter used before increment", CFILE, _LP,
      "            self.iteration_map[prefix] += 1\n            tag = '.'.join(tag.split('.')[:-1] + [str(self.iteration_map[prefix])])",
      "            tag = '.'.join(tag.split('.')[:-1] + [str(self.iteration_map[prefix])])\n            self.iteration_map[prefix] += 1", "R4", control=True),
    V("_product: first iteration suffix 1", CFILE, _LP, "tag.split('.') + ['0']", "tag.split('.') + ['1']", "R4"),
    V("_product: counter created under the prefix", CFILE, _LP, "self.iteration_map[tag] = 0", "self.iteration_map[prefix] = 0", "R4"),
    V("_product: counter starts at 1", CFILE, _LP, "self.iteration_map[tag] = 0", "self.iteration_map[tag] = 1", "R4"),
    V("_product: later iteration appends a component", CFILE, _LP, "tag.split('.')[:-1] + [str(self.iteration_map[prefix])]", "tag.split('.') + [str(self.iteration_map[prefix])]", "R4"),
    V("_product: first/later branches swapped", CFILE, _LP, "if prefix not in self.iteration_map:", "if prefix in self.iteration_map:", "R4"),
    V("_product: increment by two", CFILE, _LP, "self.iteration_map[prefix] += 1", "self.iteration_map[prefix] += 2", "R4"),
    V("LoopCombinatorStep: stops re-arming as soon as terminated", SFILE, _LR,
      "if not (task_name in terminated and len(self.iteration_termination_checklist[task_name]) == 0):", "if not task_name in terminated:", "R4"),
    V("LoopCombinatorStep: or instead of and", SFILE, _LR,
      "task_name in terminated and len(self.iteration_termination_checklist[task_name]) == 0", "task_name in terminated or len(self.iteration_termination_checklist[task_name]) == 0", "R4"),
    V("LoopCombinatorStep: guard tests another name in terminated (seeded change C06b-2)", SFILE, _LR,
      "if not (task_name in terminated and len(self.iteration_termination_checklist[task_name]) == 0):",
      "if not (port_name in terminated and len(self.iteration_termination_checklist[task_name]) == 0):", "R4"),
    V("LoopCombinatorStep: guard reads the checklist of another port", SFILE, _LR,
      "if not (task_name in terminated and len(self.iteration_termination_checklist[task_name]) == 0):",
      "if not (task_name in terminated and len(self.iteration_termination_checklist[port_name]) == 0):", "R4"),
    V("LoopCombinatorStep: guard tests the step name (De Morgan form)", SFILE, _LR,
      "if not (task_name in terminated and len(self.iteration_termination_checklist[task_name]) == 0):",
      "if self.name not in terminated or len(self.iteration_termination_checklist[task_name]) > 0:", "R4"),
    V("LoopCombinatorStep: guard tests the terminated list as a whole (seeded change C06-2)", SFILE, _LR,
      "if not (task_name in terminated and len(self.iteration_termination_checklist[task_name]) == 0):",
      "if not (terminated and len(self.iteration_termination_checklist[task_name]) == 0):", "R4"),
    V("LoopCombinatorStep: guard tests len(terminated) > 0 (De Morgan form)", SFILE, _LR,
      "if not (task_name in terminated and len(self.iteration_termination_checklist[task_name]) == 0):",
      "if len(terminated) == 0 or len(self.iteration_termination_checklist[task_name]) > 0:", "R4"),
    V("LoopCombinatorStep: guard waits for every port to terminate", SFILE, _LR,
      "if not (task_name in terminated and len(self.iteration_termination_checklist[task_name]) == 0):",
      "if not (len(terminated) == len(self.input_ports) and len(self.iteration_termination_checklist[task_name]) == 0):", "R4"),
    V("_product: first/later branches swapped (negated spelling)", CFILE, _LP, "if prefix not in self.iteration_map:", "if not prefix not in self.iteration_map:", "R4"),
    V("_product: later branch also entered for another reason", CFILE, _LP, "if prefix not in self.iteration_map:", "if prefix not in self.iteration_map and len(schema) > 1:", "R4"),
    V("LoopCombinatorStep: started iterations not recorded", SFILE, _LR, "self.iteration_termination_checklist[task_name].add(token.tag)", "pass", "R4"),
    V("LoopTerminationCombinator: one token per input item", CFILE, _LT, "for k in self.output_items}", "for k in schema}", "R4"),
    V("LoopTerminationCombinator: root tag", CFILE, _LT, "IterationTerminationToken(tag=tag)", "IterationTerminationToken(tag='0')", "R4"),
    # benign
    V("benign: All with temporaries and renamed lambda parameter", WFILE, _ALL,
      "    return ListToken(tag=tag, value=sorted(self.token_map.get(tag, []), key=lambda t: int(t.tag.split('.')[-1])))",
      "    collected = self.token_map.get(tag, [])\n    ordered = sorted(collected, key=lambda tok: int(tok.tag.split('.')[-1]))\n    logger.debug(tag)\n    return ListToken(value=ordered, tag=tag)", None),
    V("benign: Last via descending sort and index 0", WFILE, _LAST,
      "key=lambda t: int(t.tag.split('.')[-1]))[-1].retag(tag=tag)", "key=lambda t: int(t.tag.split('.')[-1]), reverse=True)[0].retag(tag)", None),
    V("benign: run renames prefix and uses rsplit", SFILE, _RUN, "self.size_map[prefix] = int(token.tag.split('.')[-1])",
      "count = int(token.tag.rsplit('.', 1)[-1])\n            self.size_map[prefix] = count", None),
    V("benign: run swaps the comparison operands", SFILE, _RUN, "if len(self.token_map.get(prefix, [])) == self.size_map.get(prefix, -1):", "if self.size_map.get(prefix, -1) == len(self.token_map.get(prefix, [])):", None),
    V("benign: _product f-string tags and reordered independent statements", CFILE, _LP,
      "            self.iteration_map[tag] = 0\n            tag = '.'.join(tag.split('.') + ['0'])",
      "            new_tag = f'{tag}.0'\n            self.iteration_map[tag] = 0\n            tag = new_tag", None),
    V("benign: _product if/else swapped with a negated test (mechanical ifswap)", CFILE, _LP,
      "        if prefix not in self.iteration_map:\n            self.iteration_map[tag] = 0\n            tag = '.'.join(tag.split('.') + ['0'])\n        else:\n"
      "            self.iteration_map[prefix] += 1\n            tag = '.'.join(tag.split('.')[:-1] + [str(self.iteration_map[prefix])])",
      "        if not prefix not in self.iteration_map:\n            self.iteration_map[prefix] += 1\n            tag = '.'.join(tag.split('.')[:-1] + [str(self.iteration_map[prefix])])\n        else:\n"
      "            self.iteration_map[tag] = 0\n            tag = '.'.join(tag.split('.') + ['0'])", None),
    V("benign: _product later-first order with a positive membership test", CFILE, _LP,
      "        if prefix not in self.iteration_map:\n            self.iteration_map[tag] = 0\n            tag = '.'.join(tag.split('.') + ['0'])\n        else:\n"
      "            self.iteration_map[prefix] += 1\n            tag = '.'.join(tag.split('.')[:-1] + [str(self.iteration_map[prefix])])",
      "        if prefix in self.iteration_map:\n            self.iteration_map[prefix] += 1\n            tag = '.'.join(tag.split('.')[:-1] + [str(self.iteration_map[prefix])])\n        else:\n"
      "            self.iteration_map[tag] = 0\n            tag = '.'.join(tag.split('.') + ['0'])", None),
    V("benign: _product counter through a temporary", CFILE, _LP,
      "            self.iteration_map[prefix] += 1\n            tag = '.'.join(tag.split('.')[:-1] + [str(self.iteration_map[prefix])])",
      "            self.iteration_map[prefix] += 1\n            n = self.iteration_map[prefix]\n            tag = prefix + '.' + str(n)", None),
    V("benign: run hoists the emission test into a local boolean", SFILE, _RUN,
      "        if len(self.token_map.get(prefix, [])) == self.size_map.get(prefix, -1):\n            self.get_output_port().put(",
      "        complete = len(self.token_map.get(prefix, [])) == self.size_map.get(prefix, -1)\n        if complete:\n            self.get_output_port().put(", None),
    V("benign: run takes the collected count through a temporary (mechanical testtemp)", SFILE, _RUN,
      "        if len(self.token_map.get(prefix, [])) == self.size_map.get(prefix, -1):",
      "        _sf_l1 = len(self.token_map.get(prefix, []))\n        if _sf_l1 == self.size_map.get(prefix, -1):", None),
    V("benign: run holds both operands of the emission test and the collected list in temporaries", SFILE, _RUN,
      "        if len(self.token_map.get(prefix, [])) == self.size_map.get(prefix, -1):",
      "        collected = self.token_map.get(prefix, [])\n        expected = self.size_map.get(prefix, -1)\n        have = len(collected)\n        if not expected != have:", None),
    V("run: collected count taken into a temporary before the data token is recorded (stale operand)", SFILE, _RUN,
      "            self.size_map[prefix] = int(token.tag.split('.')[-1])\n        else:\n            if logger.isEnabledFor(logging.DEBUG):\n"
      "                logger.debug(f'Step {self.name} received token {token.tag}.')\n            if prefix not in self.token_map:\n                self.token_map[prefix] = []\n"
      "            self.token_map[prefix].append(token)\n        if len(self.token_map.get(prefix, [])) == self.size_map.get(prefix, -1):",
      "            self.size_map[prefix] = int(token.tag.split('.')[-1])\n        have = len(self.token_map.get(prefix, []))\n"
      "        if not isinstance(token, (TerminationToken, IterationTerminationToken)):\n            if prefix not in self.token_map:\n                self.token_map[prefix] = []\n"
      "            self.token_map[prefix].append(token)\n        if have == self.size_map.get(prefix, -1):", "R2"),
    V("benign: run collects with setdefault", SFILE, _RUN, "            if prefix not in self.token_map:\n                self.token_map[prefix] = []\n            self.token_map[prefix].append(token)", "            self.token_map.setdefault(prefix, []).append(token)", None),
    V("benign: Last via max() with the int key", WFILE, _LAST, "return sorted(self.token_map.get(tag, [Token(value=None)]), key=lambda t: int(t.tag.split('.')[-1]))[-1].retag(tag=tag)",
      "return max(self.token_map.get(tag, [Token(value=None)]), key=lambda t: int(t.tag.split('.')[-1])).retag(tag=tag)", None),
    V("benign: Last via min() with the negated int key and a temporary", WFILE, _LAST, "    return sorted(self.token_map.get(tag, [Token(value=None)]), key=lambda t: int(t.tag.split('.')[-1]))[-1].retag(tag=tag)",
      "    candidates = self.token_map.get(tag, [Token(value=None)])\n    final = min(candidates, key=lambda t: -int(t.tag.rsplit('.', 1)[-1]))\n    return final.retag(tag)", None),
    V("benign: All sorts a copy in place", WFILE, _ALL, "    return ListToken(tag=tag, value=sorted(self.token_map.get(tag, []), key=lambda t: int(t.tag.split('.')[-1])))",
      "    collected = list(self.token_map.get(tag, []))\n    collected.sort(key=lambda t: int(t.tag.split('.')[-1]))\n    logger.debug(tag)\n    return ListToken(tag=tag, value=collected)", None),
    V("benign: All copies the sorted list", WFILE, _ALL, "value=sorted(self.token_map.get(tag, []), key=lambda t: int(t.tag.split('.')[-1]))", "value=list(sorted(self.token_map.get(tag, [])[:], key=lambda t: int(t.tag.split('.')[-1])))", None),
    V("benign: All descending sort viewed backwards", WFILE, _ALL, "value=sorted(self.token_map.get(tag, []), key=lambda t: int(t.tag.split('.')[-1]))", "value=sorted(self.token_map.get(tag, []), key=lambda t: int(t.tag.split('.')[-1]), reverse=True)[::-1]", None),
    V("benign: All compares every tag component numerically", WFILE, _ALL, "key=lambda t: int(t.tag.split('.')[-1])", "key=lambda t: [int(c) for c in t.tag.split('.')]", None),
    V("benign: Last with a local key helper", WFILE, _LAST, "    return sorted(self.token_map.get(tag, [Token(value=None)]), key=lambda t: int(t.tag.split('.')[-1]))[-1].retag(tag=tag)",
      "    def iteration(t):\n        return int(t.tag.split('.')[-1])\n    return sorted(self.token_map.get(tag, [Token(value=None)]), key=iteration)[-1].retag(tag=tag)", None),
    V("benign: Last with an early placeholder return", WFILE, _LAST, "    return sorted(self.token_map.get(tag, [Token(value=None)]), key=lambda t: int(t.tag.split('.')[-1]))[-1].retag(tag=tag)",
      "    if tag not in self.token_map:\n        return Token(value=None, tag=tag)\n    return sorted(self.token_map[tag], key=lambda t: int(t.tag.split('.')[-1]))[-1].retag(tag=tag)", None),
    V("benign: Last with an early placeholder retagged through a temporary", WFILE, _LAST, _LAST_RET,
      "    if not (tokens := self.token_map.get(tag)):\n        empty = Token(value=None)\n        return empty.retag(tag)\n"
      "    return max(tokens, key=lambda t: int(t.tag.split('.')[-1])).retag(tag=tag)", None),
    V("benign: Last with a positional tag and a copied instance tag", WFILE, _LAST, _LAST_RET,
      "    instance = tag\n    if tag not in self.token_map:\n        return Token(None, instance)\n" + _LAST_RET.replace(".get(tag, [Token(value=None)])", "[tag]"), None),
    V("benign: Last with the placeholder built by a helper", WFILE, _LAST, _LAST_RET,
      "    if tag not in self.token_map:\n        return _c06_null_token(instance_tag=tag)\n" + _LAST_RET.replace(".get(tag, [Token(value=None)])", "[tag]"), None,
      append="\n\ndef _c06_null_token(instance_tag):\n    null = Token(value=None, tag=instance_tag)\n    return null\n"),
    V("benign: All with an early empty list token", WFILE, _ALL, "    return ListToken(tag=tag, value=sorted(",
      "    if not self.token_map.get(tag):\n        return ListToken(value=[], tag=tag)\n    return ListToken(tag=tag, value=sorted(", None),
    V("benign: LoopCombinatorStep guard rewritten with De Morgan", SFILE, _LR,
      "if not (task_name in terminated and len(self.iteration_termination_checklist[task_name]) == 0):",
      "if task_name not in terminated or len(self.iteration_termination_checklist[task_name]) > 0:", None),
    V("benign: LoopCombinatorStep guard through an alias of the task name and a direct get_name()", SFILE, _LR,
      "                if not (task_name in terminated and len(self.iteration_termination_checklist[task_name]) == 0):",
      "                done_name = task_name\n                pending = self.iteration_termination_checklist[task.get_name()]\n"
      "                if not (done_name in terminated and len(pending) == 0):", None),
]
