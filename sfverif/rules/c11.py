"""C11 Released resources return exactly what was reserved.

R1 release guard: _free_resources is called only from notify_status, under the scheduler lock, guarded by a
   predicate over (previous status, new status) that is tabulated over Status x Status (P10): it must release when a
   holding state (FIREABLE/RUNNING) is left for a non-holding one, must not release from a non-holding state, on a
   repeated notification, or on FIREABLE -> RUNNING. `previous_status` is read before the status is overwritten.
R2 symmetry (structural part): the amount subtracted from hardware_locations[loc.name] originates from the
   allocation's recorded hardware (normalised; re-bound per wrapped level through bind_mount_point); the only value
   added back is the measured storage usage (a Hardware built with `storage=` only, or an empty Hardware()).
R3 ROLLBACK removes the job from every location's job list and clears the allocation's locations.
"""

from __future__ import annotations

import ast

from ..dataflow import defs_of, origins
from ..model import ancestors, unparse
from ..selftest import V
from ._util_sched import LOCK, SCHED, SFILE, Unfoldable, root_attr, status_members, status_table, under_lock

META = {
    "explanation": (
        "Who-may-call + lock scope for _free_resources, finite-domain tabulation (81 cells) of the release guard over "
        "Status x Status compared with the holding set used by the capacity test, def-use origin of the released "
        "amount, ROLLBACK clean-up shape. Necessary conditions for 'release exactly once what was reserved'; numeric "
        "equality to zero after all jobs end depends on the Hardware arithmetic (C14) and measured sizes: undecided."
    ),
    "undecided": "numeric equality of reserved totals to zero (C14 laws, measured storage sizes)",
    "assumptions": ["histories respect the protocol: FIREABLE is entered only through _allocate_job"],
}

HOLDING = {"Status.FIREABLE", "Status.RUNNING"}


def _inline_temps(f, expr, keep, depth=3):
    """Replace single-definition local temporaries (`changed = status != previous`) by their defining expression."""
    import copy

    for _ in range(depth):
        names = {n.id for n in ast.walk(expr) if isinstance(n, ast.Name)} - set(keep) - {"self", "Status"}
        sub = {}
        for nm in names:
            ds = defs_of(f, nm)
            if len(ds) == 1 and ds[0].kind == "assign" and ds[0].value is not None and isinstance(ds[0].stmt, ast.Assign):
                sub[nm] = ds[0].value
        if not sub:
            break

        class T(ast.NodeTransformer):
            def visit_Name(self, node):
                return ast.parse(unparse(sub[node.id]), mode="eval").body if node.id in sub else node

        # re-parse instead of deepcopy: engine nodes carry `_parent` links
        expr = T().visit(ast.parse(unparse(expr), mode="eval").body)
    return expr


def r1(ctx):
    p = ctx.prog
    callers = p.callers(f"{SCHED}._free_resources")
    ctx.require(len(callers) >= 1, "C11.R1: no call site of _free_resources")
    for f, c in callers:
        ok = f.qualname == f"{SCHED}.notify_status"
        ctx.ob("R1", f"_free_resources called from {f.name}", ok, func=f, node=c, instance=f"caller:{f.qualname}",
               message=f"_free_resources is also called from {f.qualname}: release is no longer tied to one status change")
        if not ok:
            continue
        ctx.ob("R1", "release happens under the scheduler lock", under_lock(c) is not None, func=f, node=c, instance="release-under-lock")
        ctx.ob("R1", "the release is awaited in place (not detached into a task)", isinstance(getattr(c, "_parent", None), ast.Await), func=f, node=c,
               instance="release-awaited",
               message="_free_resources is not awaited where the status changes: capacity is returned at an unknown later time (after waiters were woken)")
        # guarding tests between function entry and the call: conjunction of enclosing `if` tests
        conj = []
        node = c
        for a in ancestors(c):
            if isinstance(a, ast.If) and any(node is s or node in ast.walk(s) for s in a.body):
                conj.append(a.test)
            elif isinstance(a, ast.If):
                conj.append(ast.UnaryOp(op=ast.Not(), operand=a.test))
            if isinstance(a, (ast.FunctionDef, ast.AsyncFunctionDef)):
                break
        # keep only tests that talk about statuses
        prevs = [n.target.id for n in f.body_nodes() if isinstance(n, ast.NamedExpr) and unparse(n.value).endswith(".status")]
        prevs += [unparse(n.targets[0]) for n in f.body_nodes() if isinstance(n, ast.Assign) and isinstance(n.targets[0], ast.Name) and unparse(n.value).endswith(".status")]
        ctx.require(bool(prevs), "C11.R1: capture of the previous status not found")
        PREV = prevs[0]
        conj = [_inline_temps(f, t, {PREV, "status"}) for t in conj]
        st_tests = [t for t in conj if ("status" in unparse(t) or PREV in unparse(t)) and "job_allocation :=" not in unparse(t) and "allocation :=" not in unparse(t)]
        ctx.require(bool(st_tests), "C11.R1: release is not guarded by any status test")
        guard = ast.BoolOp(op=ast.And(), values=st_tests) if len(st_tests) > 1 else st_tests[0]
        try:
            table = status_table(p, guard, {PREV: PREV, "status": "status"})
        except Unfoldable as e:
            ctx.require(False, f"C11.R1: release guard is not a finite-domain predicate over statuses: {e}")
        bad = []
        for (prev, new), rel in table.items():
            if prev == new and rel:
                bad.append(f"{prev}->{new}: released on a repeated notification")
            elif prev not in HOLDING and rel:
                bad.append(f"{prev}->{new}: released although nothing was held")
            elif prev == "Status.FIREABLE" and new == "Status.RUNNING" and rel:
                bad.append(f"{prev}->{new}: released while the job starts running")
            elif prev in HOLDING and new not in HOLDING and not rel:
                bad.append(f"{prev}->{new}: resources are never released")
        ctx.ob("R1", f"release guard truth table over {len(table)} (previous, new) pairs", not bad, func=f, node=c,
               instance="release-guard-table", message="release guard is wrong: " + "; ".join(bad[:6]),
               witness=[f"guard: {unparse(guard)}"] + bad[:20])
        ctx.observe("C11: the release guard also releases on RUNNING->FIREABLE (out-of-protocol transition; not enforced)")
        # previous_status is captured before the overwrite
        g = f.cfg
        caps = [n for n in g.nodes.values() if any(isinstance(x, ast.NamedExpr) and x.target.id == PREV for x in n.walk())
                or (n.kind == "stmt" and isinstance(n.ast, ast.Assign) and unparse(n.ast.targets[0]) == PREV)]
        writes = [n for n in g.nodes.values() if n.kind == "stmt" and isinstance(n.ast, ast.Assign)
                  and isinstance(n.ast.targets[0], ast.Attribute) and n.ast.targets[0].attr == "status"]
        ctx.require(bool(caps) and bool(writes), "C11.R1: previous status capture / status write not found")
        cap_ok = all(g.dominates([x.id for x in caps], w.id) for w in writes)
        # the captured value is the allocation's status
        cap_src = []
        for n in caps:
            for x in n.walk():
                if isinstance(x, ast.NamedExpr) and x.target.id == PREV:
                    cap_src.append(unparse(x.value))
            if n.kind == "stmt" and isinstance(n.ast, ast.Assign):
                cap_src.append(unparse(n.ast.value))
        ctx.ob("R1", "previous status is read from the allocation before it is overwritten",
               cap_ok and all(s.endswith(".status") for s in cap_src), func=f, node=writes[0].ast, instance="prev-before-write",
               message="the previous status is captured after the overwrite (the release guard compares the new status with itself)")
        # the written value is the notified status
        ctx.ob("R1", "the notified status is stored", all(unparse(w.ast.value) == "status" for w in writes), func=f, node=writes[0].ast,
               instance="status-store")


def r2(ctx):
    p = ctx.prog
    f = p.func(f"{SCHED}._free_resources")
    stores = [n for n in f.body_nodes() if isinstance(n, ast.Assign) and root_attr(n.targets[0]) == "hardware_locations"]
    aug = [n for n in f.body_nodes() if isinstance(n, ast.AugAssign) and root_attr(n.target) == "hardware_locations"]
    ctx.require(len(stores) + len(aug) >= 1, "C11.R2: no update of hardware_locations in _free_resources")
    for s in stores:
        tgt = unparse(s.targets[0])
        v = s.value
        # collect signed terms of the +/- expression
        terms = []

        def flat(e, sign):
            if isinstance(e, ast.BinOp) and isinstance(e.op, (ast.Add, ast.Sub)):
                flat(e.left, sign)
                flat(e.right, sign if isinstance(e.op, ast.Add) else -sign)
            else:
                terms.append((sign, e))

        flat(v, 1)
        base = [(sg, e) for sg, e in terms if unparse(e) == tgt]
        minus = [(sg, e) for sg, e in terms if sg < 0]
        plus = [(sg, e) for sg, e in terms if sg > 0 and unparse(e) != tgt]
        ok_base = len(base) == 1 and base[0][0] > 0
        ctx.ob("R2", "release updates the same location's reserved amount", ok_base, func=f, node=s, instance="release:base",
               message=f"the released amount is not subtracted from {tgt}")
        # subtracted amount originates from the allocation's hardware
        okm = len(minus) == 1
        if okm:
            srcs = _hardware_sources(f, minus[0][1])
            okm = bool(srcs) and all(x in ("job_allocation.hardware", "normalized", "bind_mount_point") for x in srcs) and "job_allocation.hardware" in srcs
        ctx.ob("R2", "the subtracted amount is the allocation's recorded hardware (normalised / re-bound per level)", okm, func=f, node=s,
               instance="release:minus", message=f"the amount subtracted on release does not originate from job_allocation.hardware: {[unparse(e) for _, e in minus]}")
        # added-back amount: storage usage only
        okp = len(plus) <= 1
        for _, e in plus:
            for d in defs_of(f, unparse(e)) if isinstance(e, ast.Name) else []:
                if d.kind != "assign":
                    okp = False
                    continue
                val = d.value
                if not (isinstance(val, ast.Call) and unparse(val.func) == "Hardware"):
                    okp = False
                elif val.args or any(k.arg != "storage" for k in val.keywords):
                    okp = False
            if not isinstance(e, ast.Name):
                okp = False
        ctx.ob("R2", "only measured storage usage is added back (no cores/memory)", okp, func=f, node=s, instance="release:plus",
               message="the release adds back more than the measured storage usage")
    for a in aug:
        ctx.ob("R2", "release uses a plain subtraction of the allocation hardware", isinstance(a.op, ast.Sub) and
               "job_allocation.hardware" in _hardware_sources(f, a.value), func=f, node=a, instance="release:aug")
    # the reserved amount is updated on every path of an iteration, also when the storage probe fails
    g = f.cfg
    from ..cfg import ALL

    snodes = [n.id for n in g.nodes.values() if n.kind == "stmt" and isinstance(n.ast, (ast.Assign, ast.AugAssign))
              and root_attr(n.ast.targets[0] if isinstance(n.ast, ast.Assign) else n.ast.target) == "hardware_locations"]
    from ..facts import edge_for, facts_at

    def _has_entry(a, v):
        return v and isinstance(a, ast.Compare) and len(a.ops) == 1 and isinstance(a.ops[0], ast.In) and "hardware_locations" in unparse(a.comparators[0])

    tests = [n for n in g.nodes.values() if n.kind == "test" and n.ast is not None and edge_for(n.ast, _has_entry)]
    iters = [n.id for n in g.nodes.values() if n.kind == "iter"]
    probe = lambda n: "get_storage_usages" in n.text(600)  # noqa: E731
    all_iters = iters
    for t in tests:
        esc = None
        # "the iteration": the loop over the allocation's locations that encloses the guard (not loops nested in the body)
        loop = next((a for a in ancestors(t.ast) if isinstance(a, (ast.For, ast.AsyncFor, ast.While))), None)
        iters = [i for i in all_iters if g.nodes[i].ast is loop] or all_iters
        for b in g.real_succ(t.id, edge_for(t.ast, _has_entry)):
            if b in snodes:
                continue
            esc = esc or g.path(b, iters + [g.exit], avoid=snodes, kinds=ALL, exc_from=probe)
        ctx.ob("R2", "the reservation is returned on every path of the iteration, also when the storage probe fails", esc is None, func=f, node=t.ast,
               instance="release:all-paths",
               message="a failing storage-usage probe (or another path) skips the update of hardware_locations: cores, memory and storage stay reserved",
               witness=g.describe(esc) if esc else [])
    # the per-level rebinding uses the same binder as the reservation side
    res = p.func(f"{SCHED}._resolve_hardware_requirement")
    b1 = [c for c in f.calls() if isinstance(c.func, ast.Attribute) and c.func.attr == "bind_mount_point"]
    b2 = [c for c in res.calls() if isinstance(c.func, ast.Attribute) and c.func.attr == "bind_mount_point"]
    ctx.ob("R2", "release and reservation re-bind hardware for wrapped levels with the same binder", bool(b1) and bool(b2), func=f,
           node=b1[0] if b1 else f.node, instance="release:binder")
    # only locations that have a reservation entry are touched
    guarded = bool(snodes) and all(any(_has_entry(a, v) for a, v in facts_at(g, i)) for i in snodes)
    ctx.ob("R2", "release touches only locations with a reservation entry", guarded, func=f, node=g.nodes[snodes[0]].ast if snodes else f.node,
           instance="release:guard-in")


def _hardware_sources(f, e, depth=0, seen=None):
    """Symbolic origin of a hardware expression: set of markers."""
    seen = seen or set()
    out = set()
    if depth > 6:
        return {"?"}
    if isinstance(e, ast.Await):
        e = e.value
    txt = unparse(e)
    if txt == "job_allocation.hardware":
        return {txt}
    if isinstance(e, ast.Name):
        if e.id in seen:
            return set()
        for d in defs_of(f, e.id):
            if d.kind in ("assign", "walrus"):
                out |= _hardware_sources(f, d.value, depth + 1, seen | {e.id})
            else:
                out.add(f"?{d.kind}")
        return out
    if isinstance(e, ast.Call) and isinstance(e.func, ast.Attribute):
        if e.func.attr == "normalized":
            return {"normalized"} | _hardware_sources(f, e.func.value, depth + 1, seen)
        if e.func.attr == "bind_mount_point":
            hw = e.args[-1] if e.args else None
            return {"bind_mount_point"} | (_hardware_sources(f, hw, depth + 1, seen) if hw is not None else {"?"})
    return {f"?{txt[:40]}"}


def r3(ctx):
    p = ctx.prog
    f = p.func(f"{SCHED}.notify_status")
    from ..facts import facts_at as _facts_at, key as _key

    g = f.cfg

    def _on_rollback(call):
        """the call is executed only when the notified status is ROLLBACK (however the test is spelled)"""
        ids = g.node_containing(call)
        return bool(ids) and all(any(v and _key(a) in ("status == Status.ROLLBACK", "Status.ROLLBACK == status", "status is Status.ROLLBACK", "Status.ROLLBACK is status")
                                     for a, v in _facts_at(g, i)) for i in ids)

    def _jobs_list(e):
        """`self.location_allocations[..][..].jobs`, possibly through a local alias"""
        if root_attr(e) == "location_allocations" and unparse(e).endswith(".jobs"):
            return True
        if isinstance(e, ast.Name):
            ds = [d for d in defs_of(f, e.id) if d.kind == "assign" and d.value is not None]
            return bool(ds) and all(root_attr(d.value) == "location_allocations" and unparse(d.value).endswith(".jobs") for d in ds)
        return False

    rem = [c for c in f.calls() if isinstance(c.func, ast.Attribute) and c.func.attr in ("remove", "discard") and _jobs_list(c.func.value)]
    clr = [c for c in f.calls() if isinstance(c.func, ast.Attribute) and c.func.attr == "clear" and unparse(c.func.value).endswith(".locations")]
    body = rem[0] if rem else (clr[0] if clr else f.node)
    loops = lambda c: [a for a in ancestors(c) if isinstance(a, ast.For) and unparse(a.iter).endswith(".locations")]  # noqa: E731
    ok = bool(rem) and all(_on_rollback(c) and unparse(c.args[0]) == "job_name" and bool(loops(c)) for c in rem)
    ctx.ob("R3", "ROLLBACK removes the job from the job list of every allocated location", ok, func=f, node=body, instance="rollback:remove",
           message="a rolled-back job stays registered on its locations (it keeps counting against slots)")
    ok2 = bool(clr) and all(_on_rollback(c) and not loops(c) for c in clr)
    ctx.ob("R3", "ROLLBACK clears the allocation's locations after the loop", ok2, func=f, node=body, instance="rollback:clear")
    ctx.ob("R3", "ROLLBACK clean-up happens under the scheduler lock", bool(rem or clr) and all(under_lock(c) is not None for c in rem + clr), func=f, node=body, instance="rollback:lock")
    # the release walks job_allocation.locations: it must not run after the clean-up emptied them
    frees = [n.id for n in g.nodes.values() if any(isinstance(c.func, ast.Attribute) and c.func.attr == "_free_resources" for c in n.calls())]
    cleans = [n.id for n in g.nodes.values() if any(
        isinstance(c.func, ast.Attribute) and c.func.attr in ("clear", "remove", "discard") and
        (unparse(c.func.value).endswith(".locations") or root_attr(c.func.value) == "location_allocations" or _jobs_list(c.func.value)) for c in n.calls())]
    ctx.require(bool(frees) and bool(cleans), "C11.R3: release / clean-up nodes not found")
    bad = next((pth for c in cleans for pth in [g.path(c, frees)] if pth), None)
    ctx.ob("R3", "the release runs before the ROLLBACK clean-up empties the allocation's locations", bad is None, func=f, node=body, instance="rollback:after-release",
           message="the ROLLBACK clean-up precedes _free_resources, which iterates job_allocation.locations: a job rolled back while holding resources never returns them",
           witness=g.describe(bad) if bad else [])


RULES = [("R1", r1), ("R2", r2), ("R3", r3)]
FLOORS = {"R1": 6, "R2": 6, "R3": 4}

NS = f"{SCHED}.notify_status"
VARIANTS = [
    V("status != previous guard removed", SFILE, NS, "if status != previous_status and (previous_status == Status.RUNNING", "if (previous_status == Status.RUNNING", "R1", control=True),
    V("FIREABLE never released", SFILE, NS, " or (previous_status == Status.FIREABLE and status != Status.RUNNING)", "", "R1"),
    V("FIREABLE->RUNNING releases", SFILE, NS, "previous_status == Status.FIREABLE and status != Status.RUNNING", "previous_status == Status.FIREABLE", "R1"),
    V("release also from COMPLETED", SFILE, NS, "previous_status == Status.RUNNING or", "previous_status == Status.RUNNING or previous_status == Status.COMPLETED or", "R1"),
    V("previous captured after overwrite", SFILE, NS,
      "if status != (previous_status := job_allocation.status):\n                job_allocation.status = status",
      "job_allocation.status = status\n            if status != (previous_status := job_allocation.status):\n                pass", "R1"),
    V("second caller of _free_resources", SFILE, f"{SCHED}.close", "pass", "for (n, a) in self.job_allocations.items():\n        await self._free_resources(self.get_connector(n), a)", "R1"),
    V("release subtracts the requirement twice", SFILE, f"{SCHED}._free_resources",
      "self.hardware_locations[loc.name] - job_hardware + storage_usage", "self.hardware_locations[loc.name] - job_hardware - job_hardware + storage_usage", "R2"),
    V("release adds instead of subtracting", SFILE, f"{SCHED}._free_resources",
      "self.hardware_locations[loc.name] - job_hardware + storage_usage", "self.hardware_locations[loc.name] + job_hardware + storage_usage", "R2", control=True),
    V("storage usage with cores", SFILE, f"{SCHED}._free_resources", "storage_usage = Hardware()", "storage_usage = Hardware(cores=1.0)", "R2"),
    V("release uses location hardware", SFILE, f"{SCHED}._free_resources", "job_hardware = job_allocation.hardware", "job_hardware = self.hardware_locations[job_allocation.locations[0].name]", "R2"),
    V("rollback clean-up moved before the release", SFILE, NS,
      "if status != previous_status and (previous_status == Status.RUNNING",
      "if status == Status.ROLLBACK:\n                job_allocation.locations.clear()\n            if status != previous_status and (previous_status == Status.RUNNING", "R3"),
    V("release detached into a task", SFILE, NS, "await self._free_resources(connector, job_allocation)", "asyncio.create_task(self._free_resources(connector, job_allocation))", "R1"),
    V("probe failure skips the release", SFILE, f"{SCHED}._free_resources", "storage_usage = Hardware()", "continue", "R2"),
    V("rollback does not remove job", SFILE, NS, "self.location_allocations[loc.deployment][loc.name].jobs.remove(job_name)", "pass", "R3", control=True),
    V("rollback does not clear locations", SFILE, NS, "job_allocation.locations.clear()", "pass", "R3"),
    # benign
    V("guard split into nested ifs", SFILE, NS,
      "if status != previous_status and (previous_status == Status.RUNNING or (previous_status == Status.FIREABLE and status != Status.RUNNING)):\n                await self._free_resources(connector, job_allocation)",
      "if status != previous_status:\n                if previous_status == Status.RUNNING or (previous_status == Status.FIREABLE and status != Status.RUNNING):\n                    await self._free_resources(connector, job_allocation)", None),
    V("guard with `in`", SFILE, NS, "previous_status == Status.RUNNING or", "previous_status in (Status.RUNNING,) or", None),
    V("rename loop var", SFILE, f"{SCHED}._free_resources", "for execution_loc in locations:", "for eloc in locations:", None),
]
