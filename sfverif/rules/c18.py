"""C18 Recovery re-runs only failed jobs and producers of lost data.

R1 expansion only for lost data (`ProvenanceGraph.build_graph`): the call that expands a token to
   its producers (`load_dependee_tokens`) is evaluated only after, in the same iteration, (a) the
   recovering-job test came out negative and (b) `token.is_available()` of the *same* token came
   out False (CFG: the node is unreachable from the outcomes that force `is_recovering` / the
   availability to True, and every path from the loop head passes both tests); the recorded
   `ProvenanceToken.is_available` is the tested value; a token without producers raises; every loaded
   producer is linked to the lost token and queued unless visited / queued - in a loop of build_graph itself or of
   a helper (resolved to one definition) that receives the producers, the token and the frontier as arguments.
   `extract method`: when build_graph does not call `load_dependee_tokens` itself, a call of build_graph that resolves to
   exactly one function of the module which does is analysed as the expansion (one level): its position relative to the
   two tests is checked in build_graph, the token / frontier roles are the parameters bound to them (never re-bound),
   the raise and the producer loop are checked in the helper (a normal return of the helper = going on).
   Nec.: expanding an available token re-executes a job whose outputs stayed available.
R2 availability of file data (`FileToken.is_available` / `_is_path_available`): not recoverable ->
   only `return False`; a path without PRIMARY location -> only `return False`; no location passing
   `_is_path_available` (builtin `any` over *all* its locations) -> only `return False`;
   `return True` only after the loop over every path; `_is_path_available` returns the result of
   `exists()` on (path, location) of the examined data location, False when the check fails, and
   invalidates that location on every path where the result is False; composite tokens
   (ListToken/ObjectToken) are the conjunction over their members (the returned value is read through
   temporaries: `tmp = all(...); return tmp`, flow-sensitive reaching definitions).  The aggregate is the any/all/...
   call that consumes the `_is_path_available` results: an enclosing call, or the call applied to the local the
   (gathered) results are bound to (`res = await gather(...); if not any(res)`; only locals with a single definition
   are followed, a non-`any` consumer decides).  The aggregate over the
   locations may live in a helper coroutine of the module (one level): the helper must be awaited, iterate the
   parameter bound to the data locations and return the builtin `any(...)` on every return; its call is then the
   tested value in `is_available`.  The look-up may live in a helper of the module too (one level): a helper whose
   every return yields `get_data_locations(<parameter bound to the loop's path>, PRIMARY)` stands for the locations
   (its call is what the emptiness test and the aggregate read); any other helper holding the look-up performs the
   whole check of one path - the emptiness test and the aggregate (possibly in its own helper) are then decided in
   it, every return of it must yield constant False, the aggregate itself, or True on the positive outcome of the
   test of the aggregate (no fall-through), and its awaited call is the tested value in `is_available`.
R3 steps selected for re-execution (`GraphMapper.get_step_ids`): ports of the failed step's own
   outputs are excluded (`not in output_port_names`, and the caller passes
   `failed_step.output_ports.values()`); steps having an input port outside the mapped ports are
   collected under `port name not in self.port_tokens` (per port in a loop, or for some port: `any(...)`,
   `not all(mapped ...)`, a non-empty filtered list; boolean temporaries followed) and removed from the returned
   set on every path (not only when debugging).
R4 (added) every coroutine call of these functions is awaited.
R5 (added) the `restore` overrides select exactly the requested tags.  Every override of `Step.restore` /
   `Combinator.restore` is enumerated through the class table.  (a) In none of them a tag (`<x>.tag`, a
   local derived from one, an entry of the combinator's `from_tags`) is compared as a raw string:
   no `startswith/endswith/find/index/count` on or against a tag, no `in` whose right operand is a tag
   string, no slice of a tag string, no regular expression, no `< <= > >=` between tags and no
   `min/max/sorted/.sort` over tags without `key=` (or with the raw tag as key) - whole tags are compared with
   `==` / membership in a collection, prefixes on `split('.')` component lists, order with `compare_tags`.
   (b) Every `FilterTokenPort` built by a `restore` gets a filter that is an exact test
   `<token>.tag in <tags of on_tokens[...]>` (or `==` / `any(== ...)`), the collection being fed only from
   the `on_tokens` argument; `ScatterStep.restore` builds one.  Nec.: `0.1` is a string prefix of `0.10`;
   a prefix / substring / wider filter re-scatters elements whose results stayed available and their jobs
   run again.
R6 (added, seeded change C18b-2) per-job memos of a step are keyed by the job: in every method of a `Step` subclass
   (class table) that takes a `Job` parameter, a `self.<attr>` mapping that the method stores into with a value
   computed from that job (def-use, 3 levels) is a per-job memo; every key used on it in the method - store,
   `setdefault`, `.get` / `.pop`, subscript load, `in` / `not in` - must be derived from the job parameter.  Nec.: a
   memo of `CWLExecuteStep._is_recoverable` (WorkReuse) keyed by the step applies the first job's answer to every
   job of the step; outputs persisted as not recoverable count as lost and their producers are re-run although
   the data stayed available.  A memo whose value does not depend on the job is not examined.
Undecided: the predicted re-execution counts.
"""

from __future__ import annotations

import ast

from ..cfg import NORMAL
from ..dataflow import defs_of, origins
from ..model import ancestors, parent, unparse
from ..selftest import V
from ._util_D import (
    FM_FILE,
    RFM,
    STEP_FILE,
    TOKEN_FILE,
    UTILS,
    UTILS_FILE,
    bind_args,
    branch_edges,
    check_awaited,
    check_defined,
    rcall,
    has_fact,
    membership_fact,
    path_facts,
    implied,
    implies_empty,
    is_awaited,
    is_builtin_call,
    mentions,
    effective_test,
    outcome_table,
    param_of_type,
    region,
    resolves_to,
    returned_exprs,
    strip,
    succ,
)

TOK = "streamflow.workflow.token"
CORE_WF = "streamflow.core.workflow"

META = {
    "explanation": (
        "CFG branch analysis of ProvenanceGraph.build_graph (which outcomes of the recovering / availability tests can "
        "reach the expansion to producers), of FileToken.is_available and _is_path_available (which returns each "
        "outcome of each test can reach, must-pass-through of the invalidation), and def-use analysis of "
        "GraphMapper.get_step_ids (exclusion filter, removal of steps with unmapped inputs). R5: a small abstract "
        "typing of tag-valued expressions (tag / component list / collection of tags) in every override of Step.restore "
        "and Combinator.restore (class table) decides that tags are never compared, ordered or cut as raw strings and "
        "that the filter of a FilterTokenPort built there is whole-tag membership in a collection fed only from "
        "on_tokens. R6: def-use of the keys of per-job memos kept by steps. Decides the structural "
        "conditions under which only lost data is expanded; it does not predict execution counts."
    ),
    "undecided": "the predicted re-execution counts per job",
    "assumptions": ["Token.recoverable / DataManager.get_data_locations report the registry state (C21)", "StreamFlowPath.exists is exact (C24)"],
}


def _test_nodes_with(f, pred_call):
    """[(cfg test node, effective condition, the call)] for tests whose condition contains - directly or
    through a local assigned once just for the test - a call accepted by pred_call."""
    g = f.cfg
    out = []
    for n in g.nodes.values():
        if n.kind != "test" or n.ast is None:
            continue
        eff = effective_test(f, n.ast)
        cs = [c for c in [eff, *ast.walk(eff)] if isinstance(c, ast.Call) and pred_call(c)]
        if cs:
            out.append((n, eff, cs[0]))
    return out


# --------------------------------------------------------------------------- R1

def _producer_helper_views(p, f, loop, is_result, tok, fr_names):
    """`extract method`: calls inside the frontier loop of `f` that hand the loaded producers to a helper resolved to
    exactly one definition -> [(helper, is-producers predicate, parameter holding the lost token, parameters
    holding the frontier)], the roles being played by the parameters bound to exactly those values (and never
    re-bound in the helper)."""
    out = []
    for c in f.calls():
        if not any(a is loop for a in ancestors(c)):
            continue
        if not any(is_result(a) for a in [*c.args, *[k.value for k in c.keywords]]):
            continue
        qs = rcall(p, f, c, fanout=False)
        h = p.functions.get(qs[0]) if len(qs) == 1 else None
        if h is None or h is f or h.is_abstract:
            continue
        if h.is_async and not is_awaited(c):
            continue
        b = bind_args(h.node, c, bound=h.cls is not None)
        if b is None:
            continue

        def fixed(pn, h=h):
            return all(d.kind == "param" for d in defs_of(h, pn))

        prods = {pn for pn, a in b.items() if is_result(a) and fixed(pn)}
        toks = [pn for pn, a in b.items() if tok is not None and isinstance(strip(a), ast.Name) and strip(a).id == tok and fixed(pn)]
        frontier = {pn for pn, a in b.items() if isinstance(a, ast.Name) and a.id in fr_names and fixed(pn)}
        if not prods:
            continue
        out.append((h, lambda x, prods=prods: isinstance(x, ast.Name) and x.id in prods, toks[0] if len(toks) == 1 else None, frontier))
    return out


def _producer_loop_checks(p, fn, is_res, tok, frontier):
    """[(ok, message)] for every `for x in <producers>` loop of `fn`: the edge x -> `tok` is recorded for every
    producer, and x is queued exactly when it was neither visited nor queued before.  `frontier` (helper only):
    the parameters bound to the caller's frontier - a queue that is a parameter must be one of them."""
    g = fn.cfg
    out = []
    for lp in [n for n in fn.body_nodes() if isinstance(n, ast.For) and is_res(n.iter) and isinstance(n.target, ast.Name)]:
        pv = lp.target.id
        iid = g.ids_of(lp)
        links = [c for c in fn.calls() if any(a is lp for a in ancestors(c)) and resolves_to(p, fn, c, [f"{UTILS}.ProvenanceGraph.add"], attr_fallback=False)
                 and len(c.args) == 2 and isinstance(c.args[0], ast.Name) and c.args[0].id == pv and isinstance(c.args[1], ast.Name) and c.args[1].id == tok]
        lids_ = [i for c in links for i in g.node_containing(c)]
        body = [b for i in iid for b in succ(g, i, "t")]
        skip = next((pth for b in body if b not in lids_ for pth in [g.path(b, iid, avoid=lids_)] if pth), None) if lids_ else [0]
        queues = [c for c in fn.calls() if any(a is lp for a in ancestors(c)) and isinstance(c.func, ast.Attribute) and c.func.attr in ("append", "appendleft", "extend")
                  and c.args and isinstance(c.args[0], ast.Name) and c.args[0].id == pv]
        visited_ok = False
        for c in queues:
            facts = [x for i in g.node_containing(c) for x in path_facts(g, i)]
            not_seen = membership_fact(facts, lambda e: mentions(fn, e, lambda k: isinstance(k, ast.Name) and k.id == pv, depth=0),
                                       lambda e: mentions(fn, e, lambda k: isinstance(k, ast.Attribute) and k.attr == "info_tokens", depth=0))
            not_queued = has_fact(facts, lambda e: isinstance(e, ast.Call) and resolves_to(p, fn, e, ["streamflow.core.utils.contains_persistent_id"], attr_fallback=False), False)
            visited_ok = not_seen is False and not_queued
            q = c.func.value
            if frontier is not None and isinstance(q, ast.Name) and q.id in fn.params and q.id not in frontier:
                visited_ok = False  # queued on something that is not the caller's frontier
        ok = bool(lids_) and not skip and visited_ok
        where = "" if frontier is None else f" (in {fn.qualname})"
        out.append((ok, f"edge producer->token recorded for every producer={bool(lids_) and not skip}; producer queued exactly when neither visited nor already queued={visited_ok}{where}"))
    return out



def _fixed_param(h, pn) -> bool:
    """Parameter `pn` of `h` is never re-bound in `h`."""
    ds = defs_of(h, pn)
    return bool(ds) and all(d.kind == "param" for d in ds)


def _extracted_sites(p, f, targets, pred=None):
    """`extract method / function`: [(call in f, helper, call in the helper, binding parameter -> argument)] for every
    call of `f` that resolves to exactly one non-abstract function of the same module which itself calls one of
    `targets` (one level of inlining; a call forwarding * / ** cannot be bound and is not followed).  `pred`: the
    target calls are those accepted by pred(call) instead of those resolving to `targets`."""
    out = []
    for c in f.calls():
        if pred(c) if pred is not None else resolves_to(p, f, c, targets, attr_fallback=False):
            continue
        qs = rcall(p, f, c, fanout=False)
        h = p.functions.get(qs[0]) if len(qs) == 1 else None
        if h is None or h is f or h.is_abstract or h.module is not f.module:
            continue
        inner = [x for x in h.calls() if (pred(x) if pred is not None else resolves_to(p, h, x, targets, attr_fallback=False))]
        if not inner:
            continue
        b = bind_args(h.node, c, bound=h.cls is not None)
        if b is None:
            continue
        out += [(c, h, x, b) for x in inner]
    return out


def r1(ctx):
    p = ctx.prog
    f = p.func(f"{UTILS}.ProvenanceGraph.build_graph")
    g = f.cfg
    target = ["streamflow.persistence.utils.load_dependee_tokens"]
    # (call of build_graph whose evaluation is the expansion, function holding the load call, the load call, binding)
    exp_sites = [(c, f, c, None) for c in f.calls() if resolves_to(p, f, c, target, attr_fallback=False)] + _extracted_sites(p, f, target)
    ctx.require(bool(exp_sites), "C18.R1: build_graph no longer calls load_dependee_tokens (neither directly nor through a helper of its module)")
    rec_tests = _test_nodes_with(f, lambda c: isinstance(c.func, ast.Attribute) and c.func.attr == "is_recovering")
    av_tests = _test_nodes_with(f, lambda c: isinstance(c.func, ast.Attribute) and c.func.attr == "is_available")
    ctx.require(len(rec_tests) == 1, f"C18.R1: expected one is_recovering test in build_graph, found {len(rec_tests)}")
    ctx.require(len(av_tests) == 1, f"C18.R1: expected one is_available test in build_graph, found {len(av_tests)}")
    for hc, sf, ec, hb in exp_sites:
        gs = sf.cfg
        via = "" if sf is f else f" (the expansion is performed by the helper {sf.qualname}, invoked as `{unparse(hc)[:70]}`)"
        if sf is not f:
            ctx.observe(f"C18.R1: load_dependee_tokens is called by the helper {sf.qualname}; the call `{unparse(hc)[:70]}` of build_graph is analysed as the expansion")
        lids = g.node_containing(hc)
        ctx.require(bool(lids), "C18.R1: CFG node of load_dependee_tokens not found")
        loop = next((a for a in ancestors(hc) if isinstance(a, ast.While)), None)
        ctx.require(loop is not None, "C18.R1: the expansion is not inside the frontier loop")
        heads = g.ids_of(loop.test)
        for label, (t, eff, call), want_msg in (
            ("recovering", rec_tests[0], "the token is the JobToken of a job that is being recovered elsewhere"),
            ("available", av_tests[0], "the token's data is available"),
        ):
            table = outcome_table(eff, lambda a, call=call: a is call)
            ctx.require(bool(table), f"C18.R1: cannot tabulate `{t.text(60)}`")
            bad = None
            why = f"although {want_msg}"
            if t.id in lids:
                bad = [t.id]  # the expansion is evaluated inside the very condition that tests the token
            for k, evaluated, value in table:
                reg = region(g, t.id, k)
                hit = [i for i in lids if i in reg]
                if not hit:
                    continue
                if evaluated and value is True:
                    bad = bad or g.path(t.id, hit) or [t.id, hit[0]]
                elif label == "available" and not evaluated:
                    # the expansion must only happen when the availability was actually found False
                    bad = bad or g.path(t.id, hit) or [t.id, hit[0]]
                    why = "without its availability having been evaluated (short-circuit)"
            if label == "recovering" and bad is None:
                rec_edges = {k for k, ev, val in table if ev and val is True}
                sloppy = [k for k, ev, val in table if k in rec_edges and not (ev and val is True)]
                if sloppy:
                    bad = [t.id]
                    why = "- and tokens are treated as `being recovered` without is_recovering() having returned True -"
            ctx.ob("R1", f"producers are not loaded when {want_msg}", bad is None, func=f, node=hc, instance=f"expand:not-when-{label}",
                   message=f"load_dependee_tokens is evaluated {why}: jobs whose outputs are still usable are re-executed{via}",
                   witness=g.describe(bad or []))
            # tested in the same iteration
            skip = None
            for h in heads:
                for i in lids:
                    if i == t.id:
                        continue
                    skip = skip or g.path(h, [i], avoid=[t.id])
            ctx.ob("R1", f"the `{label}` test is evaluated in every iteration before the expansion", skip is None, func=f, node=hc,
                   instance=f"expand:tested-{label}", message=f"load_dependee_tokens can be reached without evaluating `{t.text(60)}`{via}",
                   witness=g.describe(skip or []))
        # same token tested and expanded
        t, _eff, call = av_tests[0]
        recv = call.func.value
        arg0 = ec.args[0] if ec.args else (ec.keywords[0].value if ec.keywords else None)
        # the local of `sf` that holds the tested token: the receiver itself, or - in a helper - the parameter bound to it
        tokname = recv.id if isinstance(recv, ast.Name) else None
        if sf is not f and tokname is not None:
            cands = [pn for pn, a in hb.items() if isinstance(strip(a), ast.Name) and strip(a).id == tokname and _fixed_param(sf, pn)]
            tokname = cands[0] if len(cands) == 1 else None
        same = tokname is not None and arg0 is not None and mentions(
            sf, arg0, lambda n: isinstance(n, ast.Attribute) and n.attr == "persistent_id" and isinstance(n.value, ast.Name) and n.value.id == tokname, depth=1)
        ctx.ob("R1", "the expanded token is the one whose availability was tested", same, func=f, node=hc, instance="expand:same-token",
               message=f"availability is tested on `{unparse(recv)}` but `{unparse(arg0) if arg0 is not None else '?'}` is expanded{via}")
        # no producers => raise ; producers => linked to the token and queued unless already visited
        ets = [n for n in gs.nodes.values() if n.kind == "test" and (any(c is ec for c in n.calls()) or mentions(sf, n.ast, lambda x: x is ec, depth=1))]
        res_names = set()
        for n in sf.body_nodes():
            if isinstance(n, ast.NamedExpr) and strip(n.value) is ec:
                res_names.add(n.target.id)
            if isinstance(n, ast.Assign) and strip(n.value) is ec and len(n.targets) == 1 and isinstance(n.targets[0], ast.Name):
                res_names.add(n.targets[0].id)

        def is_result(x):
            return strip(x) is ec or (isinstance(x, ast.Name) and x.id in res_names)

        if ets:
            et = ets[0]
            neg = branch_edges(gs, et, lambda x, v: v is False and is_result(x))
            if len(neg) != 1:
                ctx.ob("R1", "an unavailable token without producers raises", False, func=f, node=hc, instance="expand:no-producers",
                       message=f"no outcome of `{et.text(70)}` singles out the case `no producers`: it cannot raise exactly then{via}")
            else:
                empty_reg = region(gs, et.id, neg[0])
                # the case `no producers` must not go on: next iteration / end of build_graph, or - in a helper - a normal return
                nxt = (set(heads) | {g.exit}) if sf is f else {gs.exit}
                leak = next((i for i in empty_reg if i in nxt), None)
                ctx.ob("R1", "an unavailable token without producers raises", leak is None and any(gs.nodes[i].kind == "raise_stmt" for i in empty_reg),
                       func=f, node=hc, instance="expand:no-producers", message=f"a lost token that cannot be regenerated is silently treated as a root{via}")
        else:
            ctx.ob("R1", "an unavailable token without producers raises (result not tested in place)", True, func=f, node=hc,
                   instance="expand:no-producers", trivial=True)
        fr_names = {n.id for n in [loop.test, *ast.walk(loop.test)] if isinstance(n, ast.Name)}
        if sf is f:
            views = [(f, is_result, tokname, None)] + _producer_helper_views(p, f, loop, is_result, tokname, fr_names)
        else:
            # the whole expansion block lives in the helper: its frontier is the parameter bound to the caller's frontier
            fr_params = {pn for pn, a in hb.items() if isinstance(a, ast.Name) and a.id in fr_names and _fixed_param(sf, pn)}
            views = [(sf, is_result, tokname, fr_params)]
        okl, msgl = False, "the producers returned by load_dependee_tokens are not iterated"
        for fn_, is_res_, tok_, frontier_ in views:
            for ok_, msg_ in _producer_loop_checks(p, fn_, is_res_, tok_, frontier_):
                if ok_ or not okl:
                    okl, msgl = okl or ok_, msg_
        ctx.ob("R1", "every loaded producer is linked to the lost token and queued for examination unless already seen", okl, func=f, node=hc,
               instance="expand:link", message=msgl + via)
        # the search runs while the frontier is not empty
        wt = g.nodes[heads[0]] if heads else None
        fr = {n.id for n in [loop.test, *ast.walk(loop.test)] if isinstance(n, ast.Name)}
        pos = wt is not None and any(v is True and isinstance(e, ast.Name) and e.id in fr for e, v in implied(loop.test, True)) and any(
            isinstance(c.func, ast.Attribute) and c.func.attr in ("popleft", "pop") and isinstance(c.func.value, ast.Name) and c.func.value.id in fr
            for c in f.calls() if any(a is loop for a in ancestors(c)))
        ctx.ob("R1", "the backward search continues while the frontier is not empty", pos, func=f, node=loop.test, instance="expand:frontier",
               message=f"the loop condition `{unparse(loop.test)}` does not run while tokens remain in the frontier")
    # the recorded availability is the tested one
    t, _eff, call = av_tests[0]
    recs = [c for c in f.calls() if resolves_to(p, f, c, [f"{UTILS}.ProvenanceToken"], attr_fallback=False)]
    ctx.require(bool(recs), "C18.R1: build_graph does not record a ProvenanceToken")
    init = p.func(f"{UTILS}.ProvenanceToken.__init__")
    for c in recs:
        b = bind_args(init.node, c) or {}
        e = b.get("is_available")
        ok = False
        if isinstance(e, ast.Name):
            ds = defs_of(f, e.id)
            vals = [strip(d.value) for d in ds if d.value is not None]
            has_call = any(v is call for v in vals)
            others_false = all(v is call or (isinstance(v, ast.Constant) and v.value is False) for v in vals)
            ok = has_call and others_false
        elif e is not None:
            ok = strip(e) is call
        if ok and isinstance(e, ast.Name):
            tr_, _e2, rcall_ = rec_tests[0]
            table = outcome_table(_e2, lambda a: a is rcall_) or []
            assigns = [n.id for n in g.nodes.values() if n.kind in ("stmt", "test") and any(
                (isinstance(x, ast.Name) and isinstance(x.ctx, ast.Store) and x.id == e.id) for x in n.walk())]
            cid = g.node_containing(c)
            for k in {k for k, ev, val in table if ev and val is True}:
                for s_ in succ(g, tr_.id, k):
                    if s_ not in assigns and g.path(s_, cid, avoid=assigns) is not None:
                        ok = False
        ctx.ob("R1", "the recorded availability is the tested value (False for recovering jobs)", ok, func=f, node=c, instance="record:availability",
               message=f"ProvenanceToken.is_available receives `{unparse(e) if e is not None else None}`, not the result of token.is_available()")


# --------------------------------------------------------------------------- R2


def _ret_kind(n):
    v = n.ast.value
    if isinstance(v, ast.Constant) and v.value is False:
        return "False"
    if isinstance(v, ast.Constant) and v.value is True:
        return "True"
    return "other"


def _only_false(g, starts):
    """Every normal path from `starts` ends in `return False` (no other return, no fall-through)."""
    reg = g.reach(starts, kinds=NORMAL, include_src=True)
    bad = [g.nodes[i] for i in reg if g.nodes[i].kind == "return" and _ret_kind(g.nodes[i]) != "False"]
    if bad:
        return g.path(starts[0], [bad[0].id]) or [starts[0], bad[0].id]
    # fall-through to exit without a return
    for i in reg:
        if g.nodes[i].kind != "return" and g.exit in [b for b, k in g.succ[i] if k in NORMAL]:
            return [i, g.exit]
    return None


_AGGREGATES = ("any", "all", "sum", "max", "min", "next")


def _consumers(fn, e, depth=3):
    """(aggregate calls - any/all/sum/... by name - that consume the value of expression `e` of `fn`, the expression nodes
    the value flows through).  The value flows upwards through the enclosing expressions of its statement; when no
    aggregate encloses it and the statement binds the whole expression to one local that has no other definition in
    `fn` (`res = await gather(...)`, `(res := ...)`), it flows on from every read of that local (depth-bounded).  A local
    bound more than once is not followed (the read may see another value)."""
    aggs, chain = [], []

    def bound_name(x, a):
        # the local that `a` (a statement or a walrus) binds to the whole value of its operand `x`
        if isinstance(a, ast.NamedExpr) and a.value is x:
            return a.target.id
        if isinstance(a, ast.Assign) and a.value is x and len(a.targets) == 1 and isinstance(a.targets[0], ast.Name):
            return a.targets[0].id
        if isinstance(a, ast.AnnAssign) and a.value is x and isinstance(a.target, ast.Name):
            return a.target.id
        return None

    def up(x, d):
        cur = x
        for a in ancestors(x):
            nm = bound_name(cur, a)
            if nm is not None and d < depth and len(defs_of(fn, nm)) == 1:
                for u in fn.body_nodes():
                    if isinstance(u, ast.Name) and isinstance(u.ctx, ast.Load) and u.id == nm:
                        up(u, d + 1)
            if isinstance(a, ast.stmt):
                return
            chain.append(a)
            if isinstance(a, ast.Call) and isinstance(a.func, ast.Name) and a.func.id in _AGGREGATES:
                if not any(a is b_ for b_ in aggs):
                    aggs.append(a)
                return
            cur = a

    up(e, 0)
    return aggs, chain


def r2(ctx):
    p = ctx.prog
    f = p.func(f"{TOK}.FileToken.is_available")
    g = f.cfg
    # (a) not recoverable
    rts = [n for n in g.nodes.values() if n.kind == "test" and any(isinstance(x, ast.Attribute) and x.attr == "recoverable" for x in n.walk())]
    ctx.require(len(rts) >= 1, "C18.R2: FileToken.is_available does not test `recoverable`")
    t = rts[0]
    neg = branch_edges(g, t, lambda n, v: v is False and isinstance(n, ast.Attribute) and n.attr == "recoverable")
    ctx.require(len(neg) == 1, "C18.R2: cannot tell which outcome of the recoverable test means `not recoverable`")
    w = _only_false(g, succ(g, t.id, neg[0]))
    ctx.ob("R2", "a token that is not recoverable is unavailable", w is None and g.dominates(t.id, g.exit), func=f, node=t.ast, instance="file:not-recoverable",
           message="a FileToken that is not recoverable can be reported available: its producer is never re-run although the data cannot be trusted",
           witness=g.describe(w or []))
    # (b) PRIMARY locations of each path
    # the look-up is written in is_available itself, or - `extract function` - in one helper of the module that is_available
    # calls (one level): (call of is_available standing for it, function holding the look-up, the look-up, binding)
    def is_lookup(c):
        return isinstance(c.func, ast.Attribute) and c.func.attr == "get_data_locations"

    look = [(c, f, c, None) for c in f.calls() if is_lookup(c)] or _extracted_sites(p, f, [], pred=is_lookup)
    ctx.require(len(look) == 1, "C18.R2: expected one get_data_locations call in FileToken.is_available (directly or in one helper of its module)")
    lcall, lf, gl, lb = look[0]
    b = bind_args(p.func("streamflow.core.data.DataManager.get_data_locations").node, gl) or {}
    dt = b.get("data_type")
    prim = dt is not None and isinstance(strip(dt), ast.Attribute) and strip(dt).attr == "PRIMARY" and p.resolve_expr(lf.module, strip(dt).value) == "streamflow.core.data.DataType"
    loop = next((a for a in ancestors(lcall) if isinstance(a, (ast.For, ast.AsyncFor))), None)
    # the examined path: the loop variable itself, or - in the helper - the parameter bound to it (never re-bound)
    pexpr = b.get("path")
    if lf is not f and isinstance(pexpr, ast.Name):
        pexpr = strip(lb[pexpr.id]) if pexpr.id in lb and _fixed_param(lf, pexpr.id) else None
    path_ok = loop is not None and isinstance(loop.target, ast.Name) and isinstance(pexpr, ast.Name) and pexpr.id == loop.target.id and any(
        isinstance(o, ast.Call) and isinstance(o.func, ast.Attribute) and o.func.attr == "get_paths" and isinstance(o.func.value, ast.Name) and o.func.value.id == "self"
        for o in [strip(x) for x in origins(f, loop.iter)])
    # where the per-path check (emptiness test, aggregate over the locations) lives and what denotes the locations there:
    #   look-up written in is_available                       -> is_available, the look-up
    #   helper whose every return yields the look-up          -> is_available, the (awaited) call of the helper
    #   otherwise the helper performs the whole per-path check -> the helper, the look-up; its call in is_available is
    #   the tested value
    lrets = [r for r in lf.body_nodes() if isinstance(r, ast.Return)]
    if lf is f:
        cf, loc_expr = f, gl
    elif lrets and all(r.value is not None and [strip(v) for v in returned_exprs(lf, r)] == [gl] for r in lrets):
        cf, loc_expr = f, lcall
    else:
        cf, loc_expr = lf, gl
    cg = cf.cfg
    lvia = "" if lf is f else f" (the look-up is performed by the helper {lf.qualname}, invoked as `{unparse(lcall)[:70]}`)"
    cvia = "" if cf is f else f" (the per-path check is performed by the helper {cf.qualname}, invoked as `{unparse(lcall)[:70]}`)"
    l_awaited = lf is f or not lf.is_async or is_awaited(lcall)
    if lf is not f:
        ctx.observe(f"C18.R2: get_data_locations is called by the helper {lf.qualname}; its call `{unparse(lcall)[:70]}` in FileToken.is_available is analysed as "
                    + ("the look-up of the locations" if cf is f else "the check of one path"))
    ctx.ob("R2", "PRIMARY data locations are looked up for every path of the token", prim and path_ok and l_awaited, func=f, node=lcall, instance="file:primary",
           message=f"`{unparse(gl)}`: data_type=PRIMARY={prim}, iterates get_paths()={path_ok} - symbolic links / other paths would make lost data look available{lvia}")

    def is_locs(e):
        e0 = e
        if isinstance(e0, ast.NamedExpr):
            return strip(e0.value) is loc_expr
        if strip(e0) is loc_expr:
            return True
        if isinstance(e0, ast.Name):
            return any(d.value is not None and strip(d.value) is loc_expr for d in defs_of(cf, e0.id))
        return False

    ets = [(n, k) for n in cg.nodes.values() if n.kind == "test" for k, tr in (("t", True), ("f", False)) if implies_empty(p, cf, n.ast, tr, is_locs)]
    ctx.require(len(ets) >= 1, "C18.R2: no emptiness test of the data locations found")
    for n, k in ets:
        w = _only_false(cg, succ(cg, n.id, k))
        ctx.ob("R2", "a path without any PRIMARY location makes the token unavailable", w is None, func=f, node=n.ast, instance="file:no-location",
               message=f"a path with no registered PRIMARY location does not make the token unavailable{cvia}", witness=cg.describe(w or []))
    # (c) no location passes _is_path_available
    # the check of the locations: written in the function holding the per-path check, or - `extract function` - in a helper
    # of the module that it calls (one level): (call standing for the check, function holding the
    # `_is_path_available` call, that call, binding parameter -> argument)
    chk_target = [f"{TOK}._is_path_available"]
    chk = [(c, cf, c, None) for c in cf.calls() if resolves_to(p, cf, c, chk_target, attr_fallback=False)] or _extracted_sites(p, cf, chk_target)
    ctx.require(len(chk) == 1, "C18.R2: expected one _is_path_available call in FileToken.is_available (directly or in one helper of its module)")
    hc, sf, ck, hb = chk[0]
    via = cvia + ("" if sf is cf else f" (the locations are checked by the helper {sf.qualname}, invoked as `{unparse(hc)[:70]}`)")
    if sf is not cf:
        ctx.observe(f"C18.R2: _is_path_available is called by the helper {sf.qualname}; its call `{unparse(hc)[:70]}` in {cf.qualname} is analysed as the location check")

    def is_locs_sf(e):
        if sf is cf:
            return is_locs(e)
        # in the helper: a parameter bound to the data locations at the call site and never re-bound
        return isinstance(e, ast.Name) and e.id in hb and is_locs(hb[e.id]) and _fixed_param(sf, e.id)

    # the aggregate consuming the results: an enclosing call, or - `introduce temporary` - the call applied to the local the
    # (gathered) results are bound to (`res = await gather(...); if not any(res)`, bounded chain of single-definition locals)
    aggs, chain = _consumers(sf, ck)
    agg = next((a for a in aggs if not is_builtin_call(p, sf, a, "any")), aggs[0] if aggs else None)
    is_any = agg is not None and is_builtin_call(p, sf, agg, "any")  # agg is a non-`any` consumer whenever there is one
    comp = next((a for a in ancestors(ck) if isinstance(a, (ast.GeneratorExp, ast.ListComp, ast.SetComp))), None)
    over_all = comp is not None and len(comp.generators) == 1 and not comp.generators[0].ifs and is_locs_sf(comp.generators[0].iter) and isinstance(
        comp.generators[0].target, ast.Name) and any(isinstance(a, ast.Name) and a.id == comp.generators[0].target.id for a in ck.args)
    awaited = any(isinstance(a, ast.Await) for a in chain) and (sf is cf or (sf.is_async and is_awaited(hc))) and (cf is f or (cf.is_async and is_awaited(lcall)))
    ctx.ob("R2", "availability = any(_is_path_available(loc) for every PRIMARY location)", is_any and over_all and awaited, func=f, node=hc, instance="file:any-location",
           message=f"aggregate is builtin any={is_any}, over all locations without filter={over_all}, awaited={awaited}{via}")
    # the expression of the function holding the per-path check that carries the aggregate: the aggregate itself, or the
    # call of the helper whose every return yields it (temporaries followed)
    agg_c = agg
    if sf is not cf and agg is not None:
        hrets = [r for r in sf.body_nodes() if isinstance(r, ast.Return)]
        agg_c = hc if hrets and all(r.value is not None and [strip(v) for v in returned_exprs(sf, r)] == [agg] for r in hrets) else None

    def lost_test(fn, carrier):
        """(test node of `fn` on `carrier` - directly or through a local -, its outcome meaning `no location holds the path`)"""
        gg = fn.cfg
        tn = [n for n in gg.nodes.values() if n.kind == "test" and any(x is carrier for x in n.walk())]
        if not tn:
            # result stored in a local first
            tn = [n for n in gg.nodes.values() if n.kind == "test" and mentions(fn, n.ast, lambda x: x is carrier, depth=1)]
        if len(tn) != 1:
            return tn, None
        neg = branch_edges(gg, tn[0], lambda x, v: v is False and (x is carrier or (isinstance(x, ast.Name) and any(
            d.value is not None and strip(d.value) is carrier for d in defs_of(fn, x.id)))))
        ctx.require(len(neg) == 1, "C18.R2: cannot tell which outcome means `no location holds the path`")
        return tn, neg[0]

    agg_f = agg_c  # the expression of is_available itself whose falsity means `this path is lost`
    if cf is not f and agg_c is not None:
        # the helper performs the whole check of one path: its result is truthy only when the aggregate is - every return
        # yields constant False, the aggregate itself (temporaries followed), or True on the positive outcome of the
        # (single) test of the aggregate, whose negative outcome only returns False
        tn, neg = lost_test(cf, agg_c)
        ctx.require(len(tn) <= 1, f"C18.R2: the result of the location check is tested more than once in {cf.qualname}")
        bad, wit = None, []
        if tn:
            w = _only_false(cg, succ(cg, tn[0].id, neg))
            if w is not None:
                bad, wit = "a path that no location holds does not make the helper return False", cg.describe(w)
        yields_agg = False
        for r in [n for n in cg.nodes.values() if n.kind == "return"]:
            vals = [strip(v) for v in returned_exprs(cf, r.ast)] if r.ast.value is not None else [None]
            for v in vals:
                if isinstance(v, ast.Constant) and v.value is False:
                    continue
                if v is agg_c:
                    yields_agg = True
                    continue
                pos_only = bool(tn) and isinstance(v, ast.Constant) and v.value is True and cg.dominates(tn[0].id, r.id) and r.id not in region(cg, tn[0].id, neg)
                if not pos_only:
                    bad = bad or f"`{unparse(r.ast)}` does not yield the result of the location check"
        if not tn and not yields_agg:
            bad = bad or "the result of the location check is neither tested nor returned"
        live = cg.reach([cg.entry], kinds=NORMAL, include_src=True)
        if any(cg.nodes[i].kind != "return" and any(b_ == cg.exit and k_ in NORMAL for b_, k_ in cg.succ[i]) for i in live):
            bad = bad or "the helper can end without returning the outcome"
        ctx.ob("R2", "the helper checking one path returns the outcome of the location check", bad is None, func=f, node=lcall, instance="file:lost:helper",
               message=f"{cf.qualname}: {bad}: a path that no location holds any more can be reported available and lost data is not regenerated", witness=wit)
        agg_f = lcall
    if agg_f is not None:
        tn, neg = lost_test(f, agg_f)
        ctx.require(len(tn) == 1, "C18.R2: the result of the location check is not tested")
        n = tn[0]
        w = _only_false(g, succ(g, n.id, neg))
        ctx.ob("R2", "a path that exists on none of its locations makes the token unavailable", w is None, func=f, node=n.ast, instance="file:lost",
               message=f"a path that no location holds any more does not make the token unavailable: lost data is not regenerated{via}", witness=g.describe(w or []))
    else:
        ctx.ob("R2", "a path that exists on none of its locations makes the token unavailable", False, func=f, node=hc, instance="file:lost",
               message="the results of _is_path_available are not aggregated" + (f": the helper {sf.qualname} does not return the aggregate on every return" if agg is not None else "") + via)
    # (d) `return True` only after all paths
    trues = [n for n in g.nodes.values() if n.kind == "return" and _ret_kind(n) != "False"]
    ctx.require(bool(trues), "C18.R2: FileToken.is_available never returns True")
    for n in trues:
        inside = loop is not None and any(a is loop for a in ancestors(n.ast))
        iid = g.ids_of(loop) if loop is not None else []
        ok = not inside and bool(iid) and all(g.dominates(iid, n.id) for _ in [0]) and _ret_kind(n) == "True"
        ctx.ob("R2", "`return True` only after every path was examined", ok, func=f, node=n.ast, instance="file:all-paths",
               message="the token is reported available before all of its paths were examined" if inside or not ok else "")
    # (e) _is_path_available
    h = p.func(f"{TOK}._is_path_available")
    gh = h.cfg
    dl = param_of_type(p, h, "streamflow.core.data.DataLocation")
    ctx.require(dl is not None, "C18.R2: _is_path_available has no DataLocation parameter")
    ex = [c for c in h.calls() if isinstance(c.func, ast.Attribute) and c.func.attr == "exists"]
    ctx.require(len(ex) == 1, "C18.R2: expected one exists() call in _is_path_available")
    ctor = strip(ex[0].func.value)

    def field(e, name):
        e = strip(e) if e is not None else None
        return isinstance(e, ast.Attribute) and e.attr == name and isinstance(e.value, ast.Name) and e.value.id == dl

    okc = False
    if isinstance(ctor, ast.Call) and resolves_to(p, h, ctor, ["streamflow.data.remotepath.StreamFlowPath"], attr_fallback=False):
        kw = {k.arg: k.value for k in ctor.keywords}
        okc = bool(ctor.args) and field(ctor.args[0], "path") and field(kw.get("location"), "location")
    ctx.ob("R2", "_is_path_available checks exists() of (data_location.path, data_location.location)", okc and is_awaited(ex[0]), func=h, node=ex[0],
           instance="path:exists", message=f"`{unparse(ex[0])}` does not test the examined data location")
    rets = [n for n in gh.nodes.values() if n.kind == "return"]
    ctx.require(len(rets) >= 1, "C18.R2: _is_path_available has no return")
    res_names = set()
    ok_ret = True
    for n in rets:
        v = n.ast.value
        if isinstance(v, ast.Name):
            res_names.add(v.id)
            for d in defs_of(h, v.id):
                dv = strip(d.value) if d.value is not None else None
                if not (dv is ex[0] or (isinstance(dv, ast.Constant) and dv.value is False)):
                    ok_ret = False
        elif not (strip(v) is ex[0] if v is not None else False):
            ok_ret = False
    for hd in [n for n in h.body_nodes() if isinstance(n, ast.ExceptHandler)]:
        hid = gh.ids_of(hd)
        sets = [n.id for n in gh.nodes.values() if n.kind == "stmt" and isinstance(n.ast, ast.Assign) and any(
            isinstance(t_, ast.Name) and t_.id in res_names for t_ in n.ast.targets) and isinstance(n.ast.value, ast.Constant) and n.ast.value.value is False]
        if hid and res_names and gh.path(hid[0], [r.id for r in rets], avoid=sets) is not None:
            ok_ret = False
    ctx.ob("R2", "_is_path_available returns the outcome of exists() (False when the check fails)", ok_ret, func=h, node=rets[0].ast, instance="path:result",
           message="the returned value is not the result of exists() / False on failure")
    inv = [c for c in h.calls() if isinstance(c.func, ast.Attribute) and c.func.attr == "invalidate_location"]
    iids = [i for c in inv for i in gh.node_containing(c)]
    args_ok = bool(inv) and all(len(c.args) + len(c.keywords) >= 2 for c in inv)
    for c in inv:
        bb = bind_args(p.func("streamflow.core.data.DataManager.invalidate_location").node, c) or {}
        args_ok = args_ok and field(bb.get("location"), "location") and field(bb.get("path"), "path")
    tests = [n for n in gh.nodes.values() if n.kind == "test" and any(isinstance(x, ast.Name) and x.id in res_names for x in n.walk())]
    ctx.require(bool(tests) or not res_names, "C18.R2: the result of exists() is never tested in _is_path_available")
    esc = None
    for n in tests:
        for k in branch_edges(gh, n, lambda x, v: v is False and isinstance(x, ast.Name) and x.id in res_names):
            for s in succ(gh, n.id, k):
                if s not in iids:
                    esc = esc or gh.path(s, [gh.exit], avoid=iids) or ([s] if s == gh.exit else None)
    ctx.ob("R2", "a location whose path does not exist is invalidated on every path", bool(iids) and esc is None and args_ok, func=h,
           node=(inv[0] if inv else h.node), instance="path:invalidate",
           message="a missing path is not (always) invalidated in the data manager: later look-ups still count the lost copy as available",
           witness=gh.describe(esc or []))
    # (f) composite tokens
    for cq in (f"{TOK}.ListToken", f"{TOK}.ObjectToken"):
        m = p.cls(cq).methods.get("is_available")
        ok = False
        if m is not None:
            rs = [n for n in m.body_nodes() if isinstance(n, ast.Return)]
            vals = returned_exprs(m, rs[0]) if len(rs) == 1 else []  # `tmp = all(...); return tmp` reads like `return all(...)`
            if len(vals) == 1:
                v = strip(vals[0])
                ok = is_builtin_call(p, m, v, "all") and mentions(
                    m, v, lambda c: isinstance(c, ast.Call) and isinstance(c.func, ast.Attribute) and c.func.attr == "is_available") and mentions(
                    m, v, lambda x: isinstance(x, ast.Attribute) and x.attr == "value" and isinstance(x.value, ast.Name) and x.value.id == "self")
        ctx.ob("R2", f"{cq.rpartition('.')[2]} is available iff all of its members are", ok, qualname=cq, func=m, node=(m.node if m else p.cls(cq).node),
               instance="composite:all", message=f"{cq.rpartition('.')[2]}.is_available is not `all(member.is_available(...))`")


# --------------------------------------------------------------------------- R3


def _unmapped_port_fact(p, f, test, truth, depth=3) -> bool:
    """The outcome `truth` of `test` establishes that some examined port name is `not in <...>.port_tokens`:
    directly (`name not in self.port_tokens` true / `name in ...` false, through not / and / or), or for some
    element of the examined collection - builtin `any(<cond> for ...)` true, builtin `all(<cond> for ...)` false, a
    non-empty `[x for ... if <cond>]` (the filters of the comprehension hold for the witnessing element)."""
    for e, v in implied(test, truth):
        if isinstance(e, ast.Compare) and len(e.ops) == 1 and any(isinstance(x, ast.Attribute) and x.attr == "port_tokens" for x in ast.walk(e.comparators[0])) \
                and ((isinstance(e.ops[0], ast.NotIn) and v) or (isinstance(e.ops[0], ast.In) and not v)):
            return True
        if depth <= 0:
            continue
        x = e
        if isinstance(x, ast.Name):
            x = effective_test(f, x)
            if x is e:
                continue
            if not isinstance(x, (ast.Call, ast.ListComp, ast.SetComp)):
                if _unmapped_port_fact(p, f, x, v, depth - 1):
                    return True
                continue
        comp, elt_truth = None, None
        if isinstance(x, ast.Call) and len(x.args) == 1 and not x.keywords and isinstance(x.args[0], (ast.GeneratorExp, ast.ListComp, ast.SetComp)):
            if is_builtin_call(p, f, x, "any") and v:
                comp, elt_truth = x.args[0], True
            elif is_builtin_call(p, f, x, "all") and not v:
                comp, elt_truth = x.args[0], False
        elif isinstance(x, (ast.ListComp, ast.SetComp)) and v:
            comp = x  # non-empty: some element passed every filter
        if comp is None:
            continue
        conds = [(c, True) for gen in comp.generators for c in gen.ifs]
        if elt_truth is not None:
            conds.append((comp.elt, elt_truth))
        if any(_unmapped_port_fact(p, f, c, tv, depth - 1) for c, tv in conds):
            return True
    return False


def r3(ctx):
    p = ctx.prog
    f = p.func(f"{UTILS}.GraphMapper.get_step_ids")
    g = f.cfg
    ctx.require(len(f.params) >= 2, "C18.R3: get_step_ids lost its parameter")
    outp = f.params[1]
    # exclusion of the failed step's own output ports
    found = False
    for n in f.body_nodes():
        if isinstance(n, (ast.SetComp, ast.ListComp, ast.GeneratorExp)) and len(n.generators) == 1:
            gen = n.generators[0]
            if any(isinstance(x, ast.Attribute) and x.attr == "port_tokens" for x in ast.walk(gen.iter)) and isinstance(gen.target, ast.Name):
                if not any(isinstance(x, ast.Attribute) and x.attr == "port_name_ids" for x in ast.walk(n.elt)):
                    continue
                found = True
                ok = False
                for cond in gen.ifs:
                    for e, v in implied(cond, True):
                        if isinstance(e, ast.Compare) and len(e.ops) == 1 and isinstance(e.left, ast.Name) and e.left.id == gen.target.id and mentions(
                                f, e.comparators[0], lambda x: isinstance(x, ast.Name) and x.id == outp, depth=1):
                            ok = ok or (isinstance(e.ops[0], ast.NotIn) and v) or (isinstance(e.ops[0], ast.In) and not v)
                ctx.ob("R3", "ports named in `output_port_names` are excluded from the ports to regenerate", ok, func=f, node=n, instance="steps:exclude-outputs",
                       message="the failed step's own output ports are not excluded: the steps consuming its outputs would be re-loaded and re-run")
    ctx.require(found, "C18.R3: the port-id selection of get_step_ids was not found")
    # caller passes the failed step's output ports
    rec = p.func(f"{RFM}._recover")
    fstep = param_of_type(p, rec, f"{CORE_WF}.Step")
    calls = [c for c in rec.calls() if resolves_to(p, rec, c, [f.qualname], attr_fallback=False)]
    ctx.require(bool(calls) and fstep is not None, "C18.R3: _recover does not call get_step_ids")
    for c in calls:
        b = bind_args(f.node, c) or {}
        a = b.get(outp)
        ok = a is not None and mentions(rec, a, lambda x: isinstance(x, ast.Attribute) and x.attr == "output_ports" and isinstance(x.value, ast.Name) and x.value.id == fstep) and mentions(
            rec, a, lambda x: isinstance(x, ast.Call) and isinstance(x.func, ast.Attribute) and x.func.attr == "values")
        ctx.ob("R3", "_recover excludes the workflow ports bound to the failed step's outputs", ok and is_awaited(c), func=rec, node=c, instance="steps:caller",
               message=f"get_step_ids receives `{unparse(a) if a is not None else None}` instead of failed_step.output_ports.values()")
    # the recovery workflow starts empty: the builder must not copy every step of the original workflow
    wb = [c for c in rec.calls() if resolves_to(p, rec, c, ["streamflow.persistence.loading_context.WorkflowBuilder"], attr_fallback=False)]
    ctx.require(bool(wb), "C18.R3: _recover does not create a WorkflowBuilder")
    for c in wb:
        b = bind_args(p.func("streamflow.persistence.loading_context.WorkflowBuilder.__init__").node, c) or {}
        dc = b.get("deep_copy")
        ctx.ob("R3", "the recovery workflow is built with deep_copy=False (only the selected steps are loaded)", isinstance(dc, ast.Constant) and dc.value is False,
               func=rec, node=c, instance="steps:no-deep-copy",
               message=f"`{unparse(c)}` copies every step of the original workflow into the recovery workflow: jobs whose outputs are available are re-executed")
    # removal of steps with an unmapped input port
    rets = [n for n in g.nodes.values() if n.kind == "return"]
    ctx.require(len(rets) == 1 and isinstance(rets[0].ast.value, ast.Name), "C18.R3: get_step_ids does not return a named set")
    R = rets[0].ast.value.id
    adds = []
    for c in f.calls():
        if isinstance(c.func, ast.Attribute) and c.func.attr == "add" and isinstance(c.func.value, ast.Name) and c.func.value.id != R:
            adds.append(c)
    guarded = None
    for c in adds:
        S = c.func.value.id
        cid = g.node_containing(c)
        for t in g.nodes.values():
            if t.kind != "test":
                continue
            for k, tr in (("t", True), ("f", False)):
                hit = _unmapped_port_fact(p, f, effective_test(f, t.ast), tr)
                if hit and cid and all(i in region(g, t.id, k) for i in cid):
                    other = "f" if k == "t" else "t"
                    if not any(i in region(g, t.id, other) for i in cid):
                        guarded = (S, c, t)
    ctx.ob("R3", "steps with an input port outside the mapped ports are collected", guarded is not None, func=f, node=(guarded[1] if guarded else f.node),
           instance="steps:collect", message="no `<set>.add(step)` under `port name not in self.port_tokens`: steps whose inputs cannot be provided stay in the recovery workflow")
    if guarded is None:
        ctx.ob("R3", "collected steps are removed from the result on every path", False, func=f, node=f.node, instance="steps:remove",
               message="nothing is collected for removal")
        return
    S = guarded[0]
    ok, wit = False, []
    # forms: for x in S: R.remove/discard(x) | R -= S | R.difference_update(S) | return R - S
    for n in g.nodes.values():
        if n.kind != "stmt":
            continue
        a = n.ast
        if isinstance(a, ast.AugAssign) and isinstance(a.op, ast.Sub) and isinstance(a.target, ast.Name) and a.target.id == R and isinstance(a.value, ast.Name) and a.value.id == S:
            ok = g.dominates(n.id, rets[0].id)
        if isinstance(a, ast.Expr) and isinstance(a.value, ast.Call) and isinstance(a.value.func, ast.Attribute) and a.value.func.attr == "difference_update" and unparse(a.value.func.value) == R:
            ok = ok or (g.dominates(n.id, rets[0].id) and any(isinstance(x, ast.Name) and x.id == S for x in a.value.args))
    for c in f.calls():
        if isinstance(c.func, ast.Attribute) and c.func.attr in ("remove", "discard") and isinstance(c.func.value, ast.Name) and c.func.value.id == R:
            lp = next((a for a in ancestors(c) if isinstance(a, (ast.For, ast.AsyncFor))), None)
            if lp is None or not (isinstance(strip(lp.iter), ast.Name) and strip(lp.iter).id == S) and not mentions(f, lp.iter, lambda x: isinstance(x, ast.Name) and x.id == S, depth=0):
                continue
            if not (isinstance(lp.target, ast.Name) and c.args and isinstance(c.args[0], ast.Name) and c.args[0].id == lp.target.id):
                continue
            iid = g.ids_of(lp)
            cid = g.node_containing(c)
            body = [b for i in iid for b in succ(g, i, "t")]
            skip = next((pth for b in body if b not in cid for pth in [g.path(b, iid, avoid=cid)] if pth), None)
            brk = next((pth for b in body for pth in [g.path(b, [rets[0].id], avoid=iid)] if pth), None)
            if skip or brk:
                wit = g.describe(skip or brk)
            ok = ok or (not skip and not brk and all(g.dominates(iid, rets[0].id) for _ in [0]))
    ctx.ob("R3", "collected steps are removed from the result on every path", ok, func=f, node=rets[0].ast, instance="steps:remove",
           message="steps collected for removal are not (always) removed from the returned set", witness=wit)


def r4(ctx):
    """No coroutine of the availability / selection code is created without being awaited (an un-awaited
    `is_available()` / `is_recovering()` is always truthy)."""
    names = [f"{UTILS}.ProvenanceGraph.build_graph", f"{UTILS}.GraphMapper.get_step_ids", f"{UTILS}.create_graph_mapper",
                              f"{TOK}.FileToken.is_available", f"{TOK}._is_path_available", f"{TOK}.ListToken.is_available", f"{TOK}.ObjectToken.is_available"]
    # helpers extracted from the anchored functions (those R1 / R2 follow) are covered too
    p = ctx.prog
    for q, tg in ((f"{UTILS}.ProvenanceGraph.build_graph", ["streamflow.persistence.utils.load_dependee_tokens"]), (f"{TOK}.FileToken.is_available", [f"{TOK}._is_path_available"])):
        for _c, h, _x, _b in _extracted_sites(p, p.func(q), tg):
            if h.qualname not in names:
                names.append(h.qualname)
    # ... and the helper holding the look-up of the locations (possibly the whole per-path check, with its own helper)
    for _c, h, _x, _b in _extracted_sites(p, p.func(f"{TOK}.FileToken.is_available"), [], pred=lambda c: isinstance(c.func, ast.Attribute) and c.func.attr == "get_data_locations"):
        for h2 in [h, *[x[1] for x in _extracted_sites(p, h, [f"{TOK}._is_path_available"])]]:
            if h2.qualname not in names:
                names.append(h2.qualname)
    check_awaited(ctx, "R4", names)
    check_defined(ctx, "R4", names, classes=[f"{UTILS}.ProvenanceGraph", f"{UTILS}.GraphMapper"])


# --------------------------------------------------------------------------- R5

STEP_BASE = f"{CORE_WF}.Step"
STEPM = "streamflow.workflow.step"
COMB_BASE = f"{STEPM}.Combinator"
FILTER_PORT = "streamflow.workflow.port.FilterTokenPort"
COMB_FILE = "streamflow/workflow/combinator.py"

_UP = {"tag": "tags", "tags": "tagss"}
_DOWN = {"tags": "tag", "tagss": "tags", "tagitems": "tagitem"}
_WRAP = ("list", "set", "tuple", "frozenset", "sorted", "reversed", "iter")
_ADD1 = ("append", "add", "appendleft")
_ADDN = ("extend", "update")
_SEARCH = ("startswith", "endswith", "find", "rfind", "index", "rindex", "count")
_RAW = ("tag", "str")  # a tag as a plain string / a string assembled from tags
_PRIORITY = ("tag", "str", "comps", "tags", "tagss", "tagitems", "tagmap", "tagitem")


def _target_index(t: ast.AST, name: str, idx=None):
    """Unpacking position of `name` in assignment target `t` (None: bound as a whole; False: not bound)."""
    if isinstance(t, ast.Name):
        return idx if t.id == name else False
    if isinstance(t, ast.Starred):
        return _target_index(t.value, name, idx)
    if isinstance(t, (ast.Tuple, ast.List)):
        for i, x in enumerate(t.elts):
            r = _target_index(x, name, i if idx is None else idx)
            if r is not False:
                return r
    return False


def _const(e, value) -> bool:
    return isinstance(e, ast.Constant) and e.value == value and type(e.value) is type(value)


class _TagKinds:
    """What an expression of a `restore` override denotes, as far as tags are concerned (flow-insensitive,
    through local definitions, loop / comprehension targets and `.append/.add/.extend/.update` feeds):
    'tag' a tag string; 'str' another string cut from / assembled from tags; 'comps' the list of components
    `tag.split('.')` (or a slice of it); 'tags' a collection of tags; 'tagss' a collection of those;
    'tagmap' a mapping name -> tags (`seeds`: the parameter of Combinator.restore); None anything else."""

    def __init__(self, f, seeds: dict[str, str]):
        self.f, self.seeds = f, seeds
        self.feeds: dict[str, list[tuple[str, ast.AST]]] = {}
        for n in ast.walk(f.node):
            if isinstance(n, ast.Call) and isinstance(n.func, ast.Attribute) and isinstance(n.func.value, ast.Name) \
                    and n.func.attr in _ADD1 + _ADDN and len(n.args) == 1:
                self.feeds.setdefault(n.func.value.id, []).append((n.func.attr, n.args[0]))

    def sources(self, name: str) -> list[ast.AST]:
        """Expressions whose value (or elements) end up in the function-level local `name`."""
        out = [d.value for d in defs_of(self.f, name) if d.value is not None and d.kind != "comp"]
        return out + [a for _, a in self.feeds.get(name, ())]

    @staticmethod
    def scoped(n: ast.Name):
        """A name bound by an enclosing comprehension / lambda is local to it (the same identifier may be a
        loop variable elsewhere in the function): ('comp', iterable, unpack index) / ('lambda', None, None) / None."""
        for a in ancestors(n):
            if isinstance(a, (ast.ListComp, ast.SetComp, ast.GeneratorExp, ast.DictComp)):
                for gen in a.generators:
                    idx = _target_index(gen.target, n.id)
                    if idx is not False:
                        return "comp", gen.iter, idx
            elif isinstance(a, ast.Lambda):
                al = a.args
                if n.id in {x.arg for x in al.posonlyargs + al.args + al.kwonlyargs + [y for y in (al.vararg, al.kwarg) if y]}:
                    return "lambda", None, None
            elif isinstance(a, (ast.FunctionDef, ast.AsyncFunctionDef)):
                break
        return None

    def _unpacked(self, k, index):
        if k == "tagitem":
            return "tags" if index == 1 else None
        return _DOWN.get(k)

    def _name(self, node: ast.Name, seen: frozenset):
        name = node.id
        sc = self.scoped(node)
        if sc is not None:
            if sc[0] == "lambda":
                return None
            k = _DOWN.get(self.kind(sc[1], seen))
            return self._unpacked(k, sc[2]) if sc[2] is not None else k
        if name in seen:
            return None
        seen = seen | {name}
        ks = []
        for d in defs_of(self.f, name):
            if d.kind == "comp":
                continue
            if d.kind == "param":
                ks.append(self.seeds.get(name))
                continue
            if d.value is None or d.kind in ("with", "except", "import"):
                continue
            k = self.kind(d.value, seen)
            if d.kind == "for":
                k = _DOWN.get(k)
            if d.index is not None:
                k = self._unpacked(k, d.index)
            ks.append(k)
        for meth, arg in self.feeds.get(name, ()):
            k = self.kind(arg, seen)
            ks.append(_UP.get(k) if meth in _ADD1 else k)
        return next((k for k in _PRIORITY if k in ks), None)

    def kind(self, e: ast.AST | None, seen: frozenset = frozenset()):
        if e is None:
            return None
        e = strip(e)
        if isinstance(e, ast.Starred):
            e = strip(e.value)
        if isinstance(e, ast.Attribute):
            return "tag" if e.attr == "tag" else None
        if isinstance(e, ast.Name):
            return self._name(e, seen)
        if isinstance(e, ast.IfExp):
            return self.kind(e.body, seen) or self.kind(e.orelse, seen)
        if isinstance(e, ast.JoinedStr):
            return "str" if any(isinstance(v, ast.FormattedValue) and self.kind(v.value, seen) in _RAW for v in e.values) else None
        if isinstance(e, (ast.ListComp, ast.SetComp, ast.GeneratorExp)):
            return _UP.get(self.kind(e.elt, seen))
        if isinstance(e, (ast.List, ast.Set, ast.Tuple)):
            ks = [self.kind(x, seen) for x in e.elts]
            return next((_UP[k] for k in ("tag", "tags") if k in ks), None)
        if isinstance(e, ast.Subscript):
            k = self.kind(e.value, seen)
            if isinstance(e.slice, ast.Slice):
                return "str" if k in _RAW else k
            if k == "tagmap":
                return "tags"
            if k == "tagitem":
                return "tags" if _const(e.slice, 1) else None
            return _DOWN.get(k)
        if isinstance(e, ast.BinOp):
            ks = (self.kind(e.left, seen), self.kind(e.right, seen))
            if isinstance(e.op, (ast.BitOr, ast.BitAnd, ast.BitXor, ast.Sub, ast.Add)):
                for k in ("tagss", "tags", "comps"):
                    if k in ks:
                        return k
            if isinstance(e.op, (ast.Add, ast.Mod)) and set(ks) & set(_RAW):
                return "str"
            return None
        if isinstance(e, ast.Call):
            fn = e.func
            a0 = self.kind(e.args[0], seen) if e.args else None
            if isinstance(fn, ast.Name):
                if fn.id in _WRAP:
                    return a0 if a0 in ("tags", "tagss", "comps", "tagitems") else None
                if fn.id in ("min", "max") and len(e.args) > 1:
                    return "tag" if any(self.kind(a, seen) == "tag" for a in e.args) else None
                if fn.id in ("next", "min", "max"):
                    return _DOWN.get(a0)
                if fn.id == "str":
                    return a0 if a0 in _RAW else None
                return None
            if isinstance(fn, ast.Attribute):
                rk = self.kind(fn.value, seen)
                if fn.attr == "join":
                    if a0 == "comps":
                        return "tag" if _const(fn.value, ".") else "str"
                    return "str" if a0 in ("tags", "tagss") else None
                if fn.attr in ("split", "rsplit"):
                    return "comps" if rk == "tag" and e.args and _const(e.args[0], ".") else None
                if rk == "tagmap":
                    return {"values": "tagss", "items": "tagitems", "get": "tags", "pop": "tags", "setdefault": "tags", "copy": "tagmap"}.get(fn.attr)
                if rk in ("tags", "tagss", "comps"):
                    if fn.attr in ("copy", "union", "difference", "intersection", "symmetric_difference"):
                        return rk
                    if fn.attr == "pop":
                        return _DOWN.get(rk)
                if rk in _RAW and fn.attr in ("strip", "lstrip", "rstrip", "lower", "upper", "removeprefix", "removesuffix", "replace", "format"):
                    return "str"
            return None
        return None


def _callable_def(p, f, e: ast.AST):
    """(parameter names, [(result expression, [(condition, truth) known when it is returned])]) of the lambda /
    local function denoted by `e`, or None."""
    e = strip(e)
    if isinstance(e, ast.Name):
        vals = [d for d in defs_of(f, e.id)]
        nested = [n for n in ast.walk(f.node) if isinstance(n, (ast.FunctionDef, ast.AsyncFunctionDef)) and n is not f.node and n.name == e.id]
        if len(nested) == 1 and not vals:
            fn = nested[0]
            nf = next((x for x in p.all_funcs() if x.node is fn), None) if p is not None else None
            if isinstance(fn, ast.AsyncFunctionDef) or nf is None:
                return None
            g = nf.cfg
            rets = [(n.ast.value, path_facts(g, n.id)) for n in g.nodes.values() if n.kind == "return"]
            if not rets or any(v is None for v, _ in rets):
                return None
            return [a.arg for a in fn.args.posonlyargs + fn.args.args], rets
        if len(vals) == 1 and vals[0].kind in ("assign", "walrus") and vals[0].index is None and not nested:
            e = strip(vals[0].value)
    if isinstance(e, ast.Lambda):
        return [a.arg for a in e.args.posonlyargs + e.args.args], [(e.body, [])]
    return None


def _requested(tk: _TagKinds, e: ast.AST | None, param: str, seen: frozenset = frozenset()) -> bool:
    """Every value `e` can hold (every element it can contain) is taken from parameter `param`."""
    if e is None:
        return False
    e = strip(e)
    if isinstance(e, ast.Starred):
        e = strip(e.value)
    if isinstance(e, ast.Name):
        sc = tk.scoped(e)
        if sc is not None:
            return sc[0] == "comp" and _requested(tk, sc[1], param, seen)
        if e.id == param:
            return all(d.kind in ("param", "comp") for d in defs_of(tk.f, e.id))
        if e.id in seen:
            return True  # a cycle adds nothing new (x = x | y)
        src = [s_ for s_ in tk.sources(e.id) if not _empty_collection(s_)]
        return bool(src) and all(_requested(tk, s_, param, seen | {e.id}) for s_ in src)
    if isinstance(e, (ast.Attribute, ast.Subscript)):
        return _requested(tk, e.value, param, seen)
    if isinstance(e, (ast.ListComp, ast.SetComp, ast.GeneratorExp)):
        return _requested(tk, e.elt, param, seen)
    if isinstance(e, (ast.List, ast.Set, ast.Tuple)):
        return bool(e.elts) and all(_requested(tk, x, param, seen) for x in e.elts)
    if isinstance(e, ast.BinOp):
        if isinstance(e.op, (ast.BitAnd, ast.Sub)):
            return _requested(tk, e.left, param, seen)  # intersection / difference only narrow the left operand
        return _requested(tk, e.left, param, seen) and _requested(tk, e.right, param, seen)
    if isinstance(e, ast.IfExp):
        return _requested(tk, e.body, param, seen) and _requested(tk, e.orelse, param, seen)
    if isinstance(e, ast.Call):
        if isinstance(e.func, ast.Name) and e.func.id in _WRAP + ("next", "min", "max", "str") and e.args:
            return all(_requested(tk, a, param, seen) for a in e.args)
        if isinstance(e.func, ast.Attribute) and e.func.attr in ("values", "get", "copy", "pop", "items") and not isinstance(strip(e.func.value), ast.Constant):
            return _requested(tk, e.func.value, param, seen)
    return False


def _empty_collection(e: ast.AST) -> bool:
    e = strip(e)
    if isinstance(e, (ast.List, ast.Set, ast.Tuple)) and not e.elts:
        return True
    return isinstance(e, ast.Call) and isinstance(e.func, ast.Name) and e.func.id in ("list", "set", "tuple", "frozenset") and not e.args and not e.keywords


def _exact_filter(tk: _TagKinds, tok: str, e: ast.AST, param: str, positive: bool = True) -> bool:
    """`e` (negated when not `positive`) is true only for a token `tok` whose whole tag equals one of the
    tags taken from `param`."""
    e = strip(e)

    def own_tag(x):
        x = strip(x)
        return isinstance(x, ast.Attribute) and x.attr == "tag" and isinstance(x.value, ast.Name) and x.value.id == tok

    if isinstance(e, ast.UnaryOp) and isinstance(e.op, ast.Not):
        return _exact_filter(tk, tok, e.operand, param, not positive)
    if isinstance(e, ast.BoolOp):
        conj = isinstance(e.op, ast.And) == positive  # De Morgan
        parts = [_exact_filter(tk, tok, v, param, positive) for v in e.values]
        return any(parts) if conj else all(parts)
    if isinstance(e, ast.Compare) and len(e.ops) == 1:
        op, l, r = e.ops[0], e.left, e.comparators[0]
        if isinstance(op, ast.In if positive else ast.NotIn):
            return own_tag(l) and tk.kind(r) == "tags" and _requested(tk, r, param)
        if isinstance(op, ast.Eq if positive else ast.NotEq):
            return any(own_tag(a) and tk.kind(b) == "tag" and not own_tag(b) and _requested(tk, b, param) for a, b in ((l, r), (r, l)))
        return False
    if positive and isinstance(e, ast.Call) and isinstance(e.func, ast.Name) and e.func.id == "any" and len(e.args) == 1 \
            and isinstance(e.args[0], (ast.GeneratorExp, ast.ListComp)) and len(e.args[0].generators) == 1:
        gen = e.args[0].generators[0]
        if isinstance(gen.target, ast.Name) and tk.kind(gen.iter) == "tags" and _requested(tk, gen.iter, param):
            v = gen.target.id
            c = strip(e.args[0].elt)
            if isinstance(c, ast.Compare) and len(c.ops) == 1 and isinstance(c.ops[0], ast.Eq):
                l, r = c.left, c.comparators[0]
                return any(own_tag(a) and isinstance(strip(b), ast.Name) and strip(b).id == v for a, b in ((l, r), (r, l)))
    return False


def _raw_tag_ops(p, f, tk: _TagKinds) -> list[tuple[ast.AST, str]]:
    """Constructs of `f` (lambdas and local functions included) that compare / order / cut tags as raw strings."""
    out: list[tuple[ast.AST, str]] = []
    for n in ast.walk(f.node):
        if isinstance(n, ast.Call):
            fn = n.func
            key = next((k.value for k in n.keywords if k.arg == "key"), None)
            kdef = _callable_def(p, f, key) if key is not None else None
            raw_key = kdef is not None and any(tk.kind(b) in ("tag", "str", "comps") for b, _ in kdef[1])
            aks = [tk.kind(a) for a in n.args]
            if isinstance(fn, ast.Attribute):
                rk = tk.kind(fn.value)
                if fn.attr in _SEARCH and rk in _RAW:
                    out.append((n, f"`.{fn.attr}()` searches the tag as a raw string"))
                elif fn.attr in ("startswith", "endswith", "find", "rfind") and rk not in ("tags", "tagss", "comps") and any(k in ("tag", "tags", "str") for k in aks):
                    out.append((n, f"`.{fn.attr}()` tests a raw string against a tag"))
                elif fn.attr == "sort" and rk == "tags" and (key is None or raw_key):
                    out.append((n, "tags are sorted as raw strings (lexicographic: `0.10` < `0.2`), not with compare_tags"))
            elif isinstance(fn, ast.Name) and fn.id in ("min", "max", "sorted") and n.args:
                over = aks[0] in ("tags", "tagss") or (len(n.args) > 1 and "tag" in aks)
                if (over and key is None) or raw_key:
                    out.append((n, f"`{fn.id}` orders tags as raw strings (lexicographic: `0.10` < `0.2`), not with compare_tags"))
            if any(k in ("tag", "tags", "str") for k in aks) and any(q.split(".")[0] in ("re", "fnmatch") for q in rcall(p, f, n)):
                out.append((n, "a tag is matched against a pattern"))
        elif isinstance(n, ast.Compare):
            operands = [n.left, *n.comparators]
            for i, op in enumerate(n.ops):
                lk, rk = tk.kind(operands[i]), tk.kind(operands[i + 1])
                if isinstance(op, (ast.In, ast.NotIn)) and rk in _RAW:
                    out.append((n, "`in` with a tag string on the right is a substring test"))
                elif isinstance(op, (ast.Lt, ast.LtE, ast.Gt, ast.GtE)) and {lk, rk} & {"tag", "str", "comps"}:
                    out.append((n, "tags are ordered as raw strings (lexicographic: `0.10` < `0.2`), not with compare_tags"))
        elif isinstance(n, ast.Subscript) and isinstance(n.slice, ast.Slice) and tk.kind(n.value) in _RAW:
            out.append((n, "a tag string is sliced by character position"))
    out.sort(key=lambda x: (getattr(x[0], "lineno", 0), getattr(x[0], "col_offset", 0)))
    return out


def r5(ctx):
    p = ctx.prog
    fp_init = p.func(f"{FILTER_PORT}.__init__")
    step_restore = p.func(f"{STEP_BASE}.restore")
    comb_restore = p.func(f"{COMB_BASE}.restore")
    ctx.require(len(step_restore.params) >= 2 and len(comb_restore.params) >= 2, "C18.R5: Step.restore / Combinator.restore lost their argument")
    step_over = p.overrides(STEP_BASE, "restore")
    comb_over = p.overrides(COMB_BASE, "restore")
    ctx.require(f"{STEPM}.ScatterStep.restore" in {f.qualname for f in step_over}, "C18.R5: ScatterStep.restore vanished")
    seen = set()
    for f, is_comb in [(f, False) for f in step_over] + [(f, True) for f in comb_over]:
        if f.qualname in seen:
            continue
        seen.add(f.qualname)
        ctx.require(len(f.params) >= 2, f"C18.R5: {f.qualname} has no argument")
        arg = f.params[1]
        tk = _TagKinds(f, {arg: "tagmap"} if is_comb else {})
        # (a) no raw-string comparison of tags
        bad = _raw_tag_ops(p, f, tk)
        has_tags = any(isinstance(n, ast.Attribute) and n.attr == "tag" for n in ast.walk(f.node)) or (is_comb and any(
            isinstance(n, ast.Name) and n.id == arg and isinstance(n.ctx, ast.Load) for n in ast.walk(f.node)))
        if not bad:
            ctx.ob("R5", "tags are compared as whole strings / component lists / with compare_tags, never as raw string prefixes", True, func=f, node=f.node,
                   instance="restore:raw-tag-ops", trivial=not has_tags)
        for n, why in bad:
            ctx.ob("R5", "tags are compared as whole strings / component lists / with compare_tags, never as raw string prefixes", False, func=f, node=n,
                   instance=f"restore:raw-tag-op:{unparse(n)}",
                   message=f"`{unparse(n)[:90]}` in {f.qualname}: {why} - tag `0.1` also selects `0.10`, `0.11`, ...: elements / iterations "
                           "whose results stayed available are re-executed")
        if is_comb:
            continue
        # (b) the filter of every FilterTokenPort built here is an exact membership test over on_tokens
        ports = [c for c in ast.walk(f.node) if isinstance(c, ast.Call) and resolves_to(p, f, c, [FILTER_PORT, f"{FILTER_PORT}.__init__"], attr_fallback=False)]
        if f.qualname == f"{STEPM}.ScatterStep.restore" and not ports:
            ctx.ob("R5", "the restored port admits exactly the tags of the tokens in on_tokens", False, func=f, node=f.node, instance="filter:exact",
                   message="ScatterStep.restore builds no FilterTokenPort: a restored scatter re-emits every element, also those whose results are still available")
        for c in ports:
            b = bind_args(fp_init.node, c)
            fe = (b or {}).get("filter_function")
            why = ""
            if b is None:
                why = "its arguments are forwarded with */**"
            elif fe is None or _const(strip(fe), None):
                why = "no filter_function is given (the default admits every token)"
            else:
                cd = _callable_def(p, f, fe)
                if cd is None or len(cd[0]) != 1:
                    why = f"the filter `{unparse(fe)[:60]}` is not a one-argument lambda / local function that can be read here"
                else:
                    tok = cd[0][0]
                    wrong = [r for r, facts in cd[1] if not (
                        _const(strip(r), False) or _exact_filter(tk, tok, r, arg) or any(_exact_filter(tk, tok, c_, arg, v_) for c_, v_ in facts))]
                    if wrong:
                        why = (f"the filter result `{unparse(wrong[0])[:80]}` is not `{tok}.tag in <tags of {arg}[...]>` (whole-tag equality / membership "
                               f"in a collection fed only from `{arg}`)")
            ctx.ob("R5", "the restored port admits exactly the tags of the tokens in on_tokens", not why, func=f, node=c, instance="filter:exact",
                   message=f"FilterTokenPort in {f.qualname}: {why}: tokens that were not lost pass the filter and their jobs are re-executed")

# --------------------------------------------------------------------------- R6


def _self_attr(e):
    """Name of the attribute when `e` is `self.<attr>` (optionally `.keys()`), else None."""
    e = strip(e)
    if isinstance(e, ast.Call) and isinstance(e.func, ast.Attribute) and e.func.attr == "keys" and not e.args:
        e = e.func.value
    if isinstance(e, ast.Attribute) and isinstance(e.value, ast.Name) and e.value.id == "self":
        return e.attr
    return None


def r6(ctx):
    """A memo kept by a step about one job is looked up and stored under a key derived from that job."""
    p = ctx.prog
    job_cls = f"{CORE_WF}.Job"
    p.cls(job_cls)
    found = 0
    seen = set()
    for cq in sorted({STEP_BASE, *p.subclasses(STEP_BASE)}):
        for m in p.cls(cq).methods.values():
            if m.qualname in seen:
                continue
            seen.add(m.qualname)
            j = param_of_type(p, m, job_cls)
            if j is None or any(d.kind != "param" for d in defs_of(m, j)):  # (a re-bound parameter no longer denotes the job)
                continue
            stores: dict[str, list] = {}
            lookups: dict[str, list] = {}
            for n in m.body_nodes():
                if isinstance(n, (ast.Assign, ast.AugAssign, ast.AnnAssign)):
                    for t in (n.targets if isinstance(n, ast.Assign) else [n.target]):
                        if isinstance(t, ast.Subscript) and _self_attr(t.value) and n.value is not None:
                            stores.setdefault(_self_attr(t.value), []).append((n, t.slice, n.value))
                elif isinstance(n, ast.Call) and isinstance(n.func, ast.Attribute) and _self_attr(n.func.value) and n.args:
                    if n.func.attr == "setdefault" and len(n.args) == 2:
                        stores.setdefault(_self_attr(n.func.value), []).append((n, n.args[0], n.args[1]))
                    elif n.func.attr in ("get", "pop", "__getitem__", "__contains__"):
                        lookups.setdefault(_self_attr(n.func.value), []).append((n, n.args[0]))
                elif isinstance(n, ast.Subscript) and isinstance(n.ctx, ast.Load) and _self_attr(n.value):
                    lookups.setdefault(_self_attr(n.value), []).append((n, n.slice))
                elif isinstance(n, ast.Compare) and len(n.ops) == 1 and isinstance(n.ops[0], (ast.In, ast.NotIn)) and _self_attr(n.comparators[0]):
                    lookups.setdefault(_self_attr(n.comparators[0]), []).append((n, n.left))

            def of_job(x, j=j):
                return isinstance(x, ast.Name) and x.id == j

            for attr, sts in sorted(stores.items()):
                if not any(mentions(m, v, of_job, depth=3) for _, _, v in sts):
                    continue  # what is stored does not depend on the job: a memo of the step, not of the job
                for kind, (n, key) in [("store", (n_, k_)) for n_, k_, _ in sts] + [("lookup", x) for x in lookups.get(attr, [])]:
                    found += 1
                    ok = mentions(m, key, of_job, depth=2)
                    ctx.ob("R6", f"{m.qualname}: the per-job memo `{attr}` is keyed by the job", ok, func=m, node=n, instance=f"memo:{attr}:{kind}:{unparse(key)}",
                           message=f"`{unparse(n)[:90]}` in {m.qualname}: the value kept in `self.{attr}` is computed from the job `{j}` but the {kind} key `{unparse(key)}` is not "
                           f"derived from `{j}`: the answer computed for the first job is applied to every other job of the step (scatter elements, loop iterations) - "
                           "e.g. outputs of jobs whose reuse is enabled are persisted as not recoverable, count as lost and their jobs are re-executed by a later recovery")
    if not found:
        ctx.ob("R6", "no step keeps a per-job memo", True, qualname=STEP_BASE, node=p.cls(STEP_BASE).node, trivial=True)


RULES = [("R1", r1), ("R2", r2), ("R3", r3), ("R4", r4), ("R5", r5), ("R6", r6)]
FLOORS = {"R1": 9, "R2": 11, "R3": 5, "R4": 16, "R5": 8, "R6": 1}

_BG = f"{UTILS}.ProvenanceGraph.build_graph"
_FA = f"{TOK}.FileToken.is_available"
_PA = f"{TOK}._is_path_available"
_GS = f"{UTILS}.GraphMapper.get_step_ids"
_SR = f"{STEPM}.ScatterStep.restore"
_LR = f"{STEPM}.LoopCombinatorStep.restore"
_CR = "streamflow.workflow.combinator.LoopCombinator.restore"
CWL_STEP_FILE = "streamflow/cwl/step.py"
_IR = "streamflow.cwl.step.CWLExecuteStep._is_recoverable"

_PLOOP = ("            for prev_token in prev_tokens:\n                self.add(prev_token, token)\n"
          "                if prev_token.persistent_id not in self.info_tokens.keys() and (not contains_persistent_id(prev_token.persistent_id, token_frontier)):\n"
          "                    token_frontier.append(prev_token)\n")
_LINK_HELPER = """
def _link_producers(graph: ProvenanceGraph, token, prev_tokens, token_frontier):
    for prev_token in prev_tokens:
        graph.add(prev_token, token)
        if prev_token.persistent_id not in graph.info_tokens.keys() and not contains_persistent_id(prev_token.persistent_id, token_frontier):
            token_frontier.append(prev_token)
"""
_AV_ELIF = "        elif (is_available := (await token.is_available(context=self.context))):\n            self.add(token)\n"
_EXP_OLD = ("        elif (prev_tokens := (await load_dependee_tokens(token.persistent_id, loading_context))):\n" + _PLOOP
            + "            if logger.isEnabledFor(logging.DEBUG):\n"
            "                logger.debug(f'Token with id {token.persistent_id} is not available, its previous tokens are {[t.persistent_id for t in prev_tokens]}')\n"
            "        else:\n            raise FailureHandlingException(f'Token with id {token.persistent_id} is not available and it does not have previous tokens')\n")
_EXP_NEW = "        else:\n            await _expand_token(self, token, token_frontier, loading_context)\n"
_EXP_HELPER = """
async def _expand_token(graph: ProvenanceGraph, token, token_frontier, loading_context):
    if (prev_tokens := (await load_dependee_tokens(token.persistent_id, loading_context))):
        for prev_token in prev_tokens:
            graph.add(prev_token, token)
            if prev_token.persistent_id not in graph.info_tokens.keys() and not contains_persistent_id(prev_token.persistent_id, token_frontier):
                token_frontier.append(prev_token)
    else:
        raise FailureHandlingException(f'Token with id {token.persistent_id} is not available and it does not have previous tokens')
"""
# the same extraction as a private method of the class (refactoring B14-5); text relative to the class
_BG_TAIL = ("            if logger.isEnabledFor(logging.DEBUG):\n"
            "                logger.debug(f'Token id {token.persistent_id} is {('' if is_available else 'not ')}available')\n"
            "            self.info_tokens.setdefault(token.persistent_id, ProvenanceToken(instance=token, is_available=is_available, port_id=port_row['id'], port_name=port_row['name']))")
_EXP_METHOD_NEW = ("            else:\n                await self._add_previous_tokens(token, token_frontier, loading_context)\n")
_EXP_METHOD = ("\n    async def _add_previous_tokens(self, token: Token, token_frontier: deque[Token], loading_context: DefaultDatabaseLoadingContext) -> None:\n"
               "        if (prev_tokens := (await load_dependee_tokens(token.persistent_id, loading_context))):\n"
               "            for prev_token in prev_tokens:\n                self.add(prev_token, token)\n"
               "                if prev_token.persistent_id not in self.info_tokens.keys() and (not contains_persistent_id(prev_token.persistent_id, token_frontier)):\n"
               "                    token_frontier.append(prev_token)\n"
               "        else:\n            raise FailureHandlingException(f'Token with id {token.persistent_id} is not available and it does not have previous tokens')\n")
_ANY_OLD = "elif not any(await asyncio.gather(*(asyncio.create_task(_is_path_available(context, data_loc)) for data_loc in data_locations))):"
_ANY_NEW = "elif not await _is_any_path_available(context, data_locations):"
_ANY_HELPER = """
async def _is_any_path_available(context: StreamFlowContext, data_locations) -> bool:
    return any(await asyncio.gather(*(asyncio.create_task(_is_path_available(context, data_loc)) for data_loc in data_locations)))
"""
# ---- refactoring B18-2: the whole check of one path extracted into a module-level coroutine
_PATH_OLD = ("            if len((data_locations := context.data_manager.get_data_locations(path, data_type=DataType.PRIMARY))) == 0:\n"
             "                return False\n"
             "            elif not any(await asyncio.gather(*(asyncio.create_task(_is_path_available(context, data_loc)) for data_loc in data_locations))):\n"
             "                return False\n")
_PATH_NEW = "            if not await _is_path_available_somewhere(context, path):\n                return False\n"
_PATH_HELPER = """
async def _is_path_available_somewhere(context: StreamFlowContext, path: str) -> bool:
    data_locations = context.data_manager.get_data_locations(path, data_type=DataType.PRIMARY)
    if len(data_locations) == 0:
        return False
    return any(await asyncio.gather(*(asyncio.create_task(_is_path_available(context, data_loc)) for data_loc in data_locations)))
"""
_PATH_HELPER_TESTED = """
async def _is_path_available_somewhere(context: StreamFlowContext, path: str) -> bool:
    data_locations = context.data_manager.get_data_locations(path, data_type=DataType.PRIMARY)
    if not data_locations:
        return False
    found = any(await asyncio.gather(*(asyncio.create_task(_is_path_available(context, data_loc)) for data_loc in data_locations)))
    if not found:
        return False
    return True
"""
# ---- refactoring B30-5: else branches flattened, walrus replaced by a plain assignment, gathered results bound to a local
_TMP_GATHER = "await asyncio.gather(*(asyncio.create_task(_is_path_available(context, data_loc)) for data_loc in data_locations))"
_TMP_NEW = ("            data_locations = context.data_manager.get_data_locations(path, data_type=DataType.PRIMARY)\n"
            "            if len(data_locations) == 0:\n                return False\n"
            "            availabilities = " + _TMP_GATHER + "\n"
            "            if not any(availabilities):\n                return False\n")
_LOCS_OLD = "len((data_locations := context.data_manager.get_data_locations(path, data_type=DataType.PRIMARY))) == 0:"
_LOCS_NEW = "len((data_locations := _primary_locations(context, path))) == 0:"
_LOCS_HELPER = """
def _primary_locations(context: StreamFlowContext, path: str):
    locations = context.data_manager.get_data_locations(path, data_type=DataType.PRIMARY)
    return locations
"""
_CLOOP_OLD = ("        for port_row in await asyncio.gather(*(asyncio.create_task(self.context.database.get_port(row_dependency['port'])) for row_dependency in dependency_rows)):\n"
              "            if port_row['name'] not in self.port_tokens.keys():\n                step_to_remove.add(step_id)\n")

VARIANTS = [
    V("expansion when the token IS available", UTILS_FILE, _BG, "elif (is_available := (await token.is_available(context=self.context))):", "elif not (is_available := (await token.is_available(context=self.context))):", "R1", control=True),
    V("recovering jobs are expanded", UTILS_FILE, _BG, "isinstance(token, JobToken) and await self.context.failure_manager.is_recovering(token.value.name)",
      "isinstance(token, JobToken) and (not await self.context.failure_manager.is_recovering(token.value.name))", "R1"),
    V("expansion moved before the availability test", UTILS_FILE, _BG,
      "        elif (is_available := (await token.is_available(context=self.context))):\n            self.add(token)\n        elif (prev_tokens := (await load_dependee_tokens(token.persistent_id, loading_context))):",
      "        elif (prev_tokens := (await load_dependee_tokens(token.persistent_id, loading_context))) and (not (is_available := (await token.is_available(context=self.context)))):", "R1"),
    V("job tokens are expanded without an availability test", UTILS_FILE, _BG, "elif (is_available := (await token.is_available(context=self.context))):",
      "elif not isinstance(token, JobToken) and (is_available := (await token.is_available(context=self.context))):", "R1"),
    V("availability of another token is tested", UTILS_FILE, _BG, "await token.is_available(context=self.context)", "await t.is_available(context=self.context)", "R1"),
    V("recorded availability is constant", UTILS_FILE, _BG, "is_available=is_available", "is_available=False", "R1"),
    V("every JobToken is treated as being recovered", UTILS_FILE, _BG, "isinstance(token, JobToken) and await self.context.failure_manager.is_recovering(token.value.name)",
      "isinstance(token, JobToken) or await self.context.failure_manager.is_recovering(token.value.name)", "R1"),
    V("producers are not linked to the lost token", UTILS_FILE, _BG, "                self.add(prev_token, token)\n", "", "R1"),
    V("visited producers are queued again", UTILS_FILE, _BG, "if prev_token.persistent_id not in self.info_tokens.keys() and", "if prev_token.persistent_id in self.info_tokens.keys() and", "R1"),
    V("availability not awaited", UTILS_FILE, _BG, "(await token.is_available(context=self.context))", "token.is_available(context=self.context)", "R4"),
    V("whole workflow copied into the recovery workflow", FM_FILE, f"{RFM}._recover", "deep_copy=False", "deep_copy=True", "R3"),
    V("token without producers becomes a root", UTILS_FILE, _BG, "raise FailureHandlingException(f'Token with id {token.persistent_id} is not available and it does not have previous tokens')", "self.add(token)", "R1"),
    V("not recoverable tokens are available", TOKEN_FILE, _FA, "if not self.recoverable:\n        return False", "if not self.recoverable:\n        return True", "R2", control=True),
    V("recoverable test inverted", TOKEN_FILE, _FA, "if not self.recoverable:", "if self.recoverable:", "R2"),
    V("any data type counts", TOKEN_FILE, _FA, "get_data_locations(path, data_type=DataType.PRIMARY)", "get_data_locations(path)", "R2"),
    V("only the first path is examined", TOKEN_FILE, _FA, "for path in await self.get_paths(context):", "for path in (await self.get_paths(context))[:1]:", "R2"),
    V("no location means available", TOKEN_FILE, _FA, "== 0:\n                return False", "== 0:\n                continue", "R2"),
    V("all locations must hold the path", TOKEN_FILE, _FA, "elif not any(await", "elif not all(await", "R2"),
    V("lost path ignored", TOKEN_FILE, _FA, "for data_loc in data_locations))):\n                return False", "for data_loc in data_locations))):\n                pass", "R2"),
    V("first path decides", TOKEN_FILE, _FA, "                return False\n        return True", "                return False\n            return True", "R2"),
    V("invalidation dropped", TOKEN_FILE, _PA, "        context.data_manager.invalidate_location(data_location.location, data_location.path)\n", "", "R2"),
    V("invalidation only when debugging", TOKEN_FILE, _PA, "        context.data_manager.invalidate_location(", "            context.data_manager.invalidate_location(", "R2"),
    V("failed check counts as available", TOKEN_FILE, _PA, "        result = False", "        result = True", "R2"),
    V("ListToken available if any member is", TOKEN_FILE, f"{TOK}.ListToken.is_available", "return all(", "return any(", "R2"),
    V("own outputs not excluded", UTILS_FILE, _GS, " if port_name not in output_port_names}", "}", "R3", control=True),
    V("exclusion inverted", UTILS_FILE, _GS, "if port_name not in output_port_names", "if port_name in output_port_names", "R3"),
    V("caller passes the input ports", FM_FILE, f"{RFM}._recover", "mapper.get_step_ids(failed_step.output_ports.values())", "mapper.get_step_ids(failed_step.input_ports.values())", "R3"),
    V("removal only when debugging", UTILS_FILE, _GS, "        step_ids.remove(step_id)", "            step_ids.remove(step_id)", "R3"),
    V("unmapped-input test inverted", UTILS_FILE, _GS, "if port_row['name'] not in self.port_tokens.keys():", "if port_row['name'] in self.port_tokens.keys():", "R3"),
    V("removal loop dropped", UTILS_FILE, _GS, "        step_ids.remove(step_id)\n", "        pass\n", "R3"),
    # R5: restore filters select exactly the requested tags
    V("scatter filter matches tags by string prefix (seeded)", STEP_FILE, _SR, "lambda t: t.tag in valid_tags", "lambda t: t.tag.startswith(tuple(valid_tags))", "R5", control=True),
    V("scatter filter: any(startswith)", STEP_FILE, _SR, "lambda t: t.tag in valid_tags", "lambda t: any((t.tag.startswith(v) for v in valid_tags))", "R5"),
    V("scatter filter: requested tag is a prefix of the token tag", STEP_FILE, _SR, "lambda t: t.tag in valid_tags", "lambda t: any((v == t.tag[:len(v)] for v in valid_tags))", "R5"),
    V("scatter filter: substring of the joined tags", STEP_FILE, _SR, "lambda t: t.tag in valid_tags", "lambda t: t.tag in ','.join(valid_tags)", "R5"),
    V("scatter filter: requested tag contained in the token tag", STEP_FILE, _SR, "lambda t: t.tag in valid_tags", "lambda t: any((v in t.tag for v in valid_tags))", "R5"),
    V("scatter filter: regular expression on the tag", STEP_FILE, _SR, "lambda t: t.tag in valid_tags", "lambda t: any((re.match(v, t.tag) for v in valid_tags))", "R5"),
    V("scatter filter: component-wise prefix (children of a requested tag pass)", STEP_FILE, _SR, "lambda t: t.tag in valid_tags",
      "lambda t: any((_is_parent_tag(v, t.tag) for v in valid_tags))", "R5"),
    V("scatter filter: tags that were not requested are added", STEP_FILE, _SR, "valid_tags = [token.tag for token in on_tokens[port.name]]",
      "valid_tags = [token.tag for token in on_tokens[port.name]] + [x.tag for x in port.token_list[:1]]", "R5"),
    V("scatter filter: fed from the old port instead of on_tokens", STEP_FILE, _SR, "for token in on_tokens[port.name]]", "for token in port.token_list]", "R5"),
    V("scatter filter: membership or anything deeper", STEP_FILE, _SR, "lambda t: t.tag in valid_tags", "lambda t: t.tag in valid_tags or len(t.tag.split('.')) > 2", "R5"),
    V("scatter filter dropped", STEP_FILE, _SR, "FilterTokenPort(filter_function=lambda t: t.tag in valid_tags, name", "FilterTokenPort(name", "R5"),
    V("scatter filter built elsewhere", STEP_FILE, _SR, "filter_function=lambda t: t.tag in valid_tags", "filter_function=self._make_filter(valid_tags)", "R5"),
    V("loop restore: first token chosen by raw tag order", STEP_FILE, _LR, "min(tokens, key=cmp_to_key(lambda x, y: compare_tags(x.tag, y.tag)))", "min(tokens, key=lambda x: x.tag)", "R5"),
    V("loop restore: tags sorted as strings", STEP_FILE, _LR, "sorted(tags, key=cmp_to_key(compare_tags))", "sorted(tags)", "R5"),
    V("loop restore: depth test replaced by a string prefix test", STEP_FILE, _LR, "if len(parent_tag.split('.')) != len(token.tag.split('.')):",
      "if token.tag != parent_tag and token.tag.startswith(parent_tag):", "R5"),
    V("loop restore: prefix cut by character position", STEP_FILE, _LR, "'.'.join(parent_tag.split('.')[:-1])", "parent_tag[:parent_tag.rfind('.')]", "R5"),
    V("loop combinator restore: iterations compared as strings", COMB_FILE, _CR,
      "        self.iteration_map[prefix] = max(self.iteration_map.get(prefix, iteration_num), iteration_num)",
      "        if iteration > prefix:\n            self.iteration_map[prefix] = max(self.iteration_map.get(prefix, iteration_num), iteration_num)", "R5"),
    V("extracted helper does not link the producers", UTILS_FILE, _BG, _PLOOP, "            _link_producers(self, token, prev_tokens, token_frontier)\n", "R1",
      append=_LINK_HELPER.replace("        graph.add(prev_token, token)\n", "")),
    V("extracted helper links the producers to themselves", UTILS_FILE, _BG, _PLOOP, "            _link_producers(self, prev_tokens, token, token_frontier)\n", "R1",
      append=_LINK_HELPER),
    V("extracted helper queues on a copy of the frontier", UTILS_FILE, _BG, _PLOOP, "            _link_producers(self, token, prev_tokens, deque(token_frontier))\n", "R1",
      append=_LINK_HELPER),
    V("extracted helper queues visited producers again", UTILS_FILE, _BG, _PLOOP, "            _link_producers(self, token, prev_tokens, token_frontier)\n", "R1",
      append=_LINK_HELPER.replace("prev_token.persistent_id not in graph.info_tokens.keys() and ", "")),
    V("steps collected only when ALL inputs are unmapped", UTILS_FILE, _GS, _CLOOP_OLD,
      "        port_rows = await asyncio.gather(*(asyncio.create_task(self.context.database.get_port(row_dependency['port'])) for row_dependency in dependency_rows))\n"
      "        if all((port_row['name'] not in self.port_tokens.keys() for port_row in port_rows)):\n            step_to_remove.add(step_id)\n", "R3"),
    V("any(...) over the mapped ports instead of the unmapped ones", UTILS_FILE, _GS, _CLOOP_OLD,
      "        port_rows = await asyncio.gather(*(asyncio.create_task(self.context.database.get_port(row_dependency['port'])) for row_dependency in dependency_rows))\n"
      "        if any((port_row['name'] in self.port_tokens.keys() for port_row in port_rows)):\n            step_to_remove.add(step_id)\n", "R3"),
    # R6: per-job memo keyed by the job (seeded change C18b-2)
    V("WorkReuse memo keyed by the step name at lookup and store (seeded)", CWL_STEP_FILE, _IR,
      "    if (recoverable_ := self._recoverable_map.get(job.name)) is None:", "    if (recoverable_ := self._recoverable_map.get(self.name)) is None:", "R6"),
    V("WorkReuse memo stored under the step name", CWL_STEP_FILE, _IR, "        self._recoverable_map[job.name] = recoverable_", "        self._recoverable_map[self.name] = recoverable_", "R6"),
    V("WorkReuse memo keyed by a constant through a temporary", CWL_STEP_FILE, _IR,
      "    if (recoverable_ := self._recoverable_map.get(job.name)) is None:", "    key = 'reuse'\n    if (recoverable_ := self._recoverable_map.get(key)) is None:", "R6"),
    V("WorkReuse memo as membership test + subscript under the step name", CWL_STEP_FILE, _IR,
      "    if (recoverable_ := self._recoverable_map.get(job.name)) is None:", "    recoverable_ = None\n    if self.name not in self._recoverable_map:", "R6"),
    # benign
    V("WorkReuse memo: key through a temporary", CWL_STEP_FILE, _IR,
      "    if (recoverable_ := self._recoverable_map.get(job.name)) is None:", "    key = job.name\n    if (recoverable_ := self._recoverable_map.get(key)) is None:", None),
    V("WorkReuse memo: membership test and subscripts", CWL_STEP_FILE, _IR,
      "    if (recoverable_ := self._recoverable_map.get(job.name)) is None:", "    recoverable_ = self._recoverable_map[job.name] if job.name in self._recoverable_map else None\n    if recoverable_ is None:", None),
    V("WorkReuse memo removed (evaluated for every job)", CWL_STEP_FILE, _IR,
      "    if (recoverable_ := self._recoverable_map.get(job.name)) is None:\n        if isinstance(self.recoverable, bool):", "    if True:\n        if isinstance(self.recoverable, bool):", None),
    V("availability through a temporary", UTILS_FILE, _BG,
      "        elif (is_available := (await token.is_available(context=self.context))):\n            self.add(token)",
      "        elif (is_available := (await token.is_available(context=self.context))) is True:\n            self.add(token)", None),
    V("recovering test through a temporary", UTILS_FILE, _BG,
      "        if isinstance(token, JobToken) and await self.context.failure_manager.is_recovering(token.value.name):",
      "        recovering = isinstance(token, JobToken) and await self.context.failure_manager.is_recovering(token.value.name)\n        if recovering:", None),
    V("rename the frontier token", UTILS_FILE, _BG, "prev_token", "parent_token", None, count=8),
    V("locations through a temporary", TOKEN_FILE, _FA,
      "            if len((data_locations := context.data_manager.get_data_locations(path, data_type=DataType.PRIMARY))) == 0:",
      "            data_locations = context.data_manager.get_data_locations(path, data_type=DataType.PRIMARY)\n            if not data_locations:", None),
    V("logging added to _is_path_available", TOKEN_FILE, _PA, "    return result", "    logger.debug('checked')\n    return result", None),
    V("set difference instead of the removal loop", UTILS_FILE, _GS,
      "    for step_id in step_to_remove:\n        if logger.isEnabledFor(logging.DEBUG):\n            step_name = (await self.context.database.get_step(step_id))['name']\n            logger.debug(f'Removing step {step_name}')\n        step_ids.remove(step_id)\n    return step_ids",
      "    step_ids -= step_to_remove\n    return step_ids", None),
    V("discard instead of remove", UTILS_FILE, _GS, "step_ids.remove(step_id)", "step_ids.discard(step_id)", None),
    V("scatter filter over a set of tags", STEP_FILE, _SR, "valid_tags = [token.tag for token in on_tokens[port.name]]", "valid_tags = {token.tag for token in on_tokens[port.name]}", None),
    V("scatter filter over a frozenset through a temporary", STEP_FILE, _SR, "valid_tags = [token.tag for token in on_tokens[port.name]]",
      "lost = on_tokens[port.name]\n    valid_tags = frozenset((x.tag for x in lost))", None),
    V("scatter tags collected in a loop", STEP_FILE, _SR, "valid_tags = [token.tag for token in on_tokens[port.name]]",
      "valid_tags = []\n    for lost in on_tokens[port.name]:\n        valid_tags.append(lost.tag)", None),
    V("scatter filter as any(==)", STEP_FILE, _SR, "lambda t: t.tag in valid_tags", "lambda t: any((t.tag == v for v in valid_tags))", None),
    V("scatter filter as a local function", STEP_FILE, _SR, "    self.workflow.ports[port.name] = FilterTokenPort(filter_function=lambda t: t.tag in valid_tags,",
      "    def keep(tok):\n        if tok.tag in valid_tags:\n            return True\n        return False\n    self.workflow.ports[port.name] = FilterTokenPort(filter_function=keep,", None),
    V("scatter filter through a named lambda", STEP_FILE, _SR, "    self.workflow.ports[port.name] = FilterTokenPort(filter_function=lambda t: t.tag in valid_tags,",
      "    keep = lambda tok: not tok.tag not in valid_tags\n    self.workflow.ports[port.name] = FilterTokenPort(filter_function=keep,", None),
    V("scatter filter narrowed further", STEP_FILE, _SR, "lambda t: t.tag in valid_tags", "lambda t: t.tag in valid_tags and (not isinstance(t, IterationTerminationToken))", None),
    V("loop restore: components through temporaries", STEP_FILE, _LR, "            if len(parent_tag.split('.')) != len(token.tag.split('.')):",
      "            parent_parts = parent_tag.split('.')\n            own_parts = token.tag.split('.')\n            logger.debug(f'restoring from {token.tag}')\n            if len(parent_parts) != len(own_parts):", None),
    V("ListToken availability returned through a temporary (tempret)", TOKEN_FILE, f"{TOK}.ListToken.is_available",
      "    return all(await asyncio.gather(*(asyncio.create_task(t.is_available(context)) for t in self.value)))",
      "    _sf_ret = all(await asyncio.gather(*(asyncio.create_task(t.is_available(context)) for t in self.value)))\n    return _sf_ret", None),
    V("ObjectToken availability returned through two temporaries", TOKEN_FILE, f"{TOK}.ObjectToken.is_available",
      "    return all(await asyncio.gather(*(asyncio.create_task(t.is_available(context)) for t in self.value.values())))",
      "    answers = await asyncio.gather(*(asyncio.create_task(t.is_available(context)) for t in self.value.values()))\n    res = all(answers)\n    return res", None),
    V("ListToken availability: temporary overwritten before the return", TOKEN_FILE, f"{TOK}.ListToken.is_available",
      "    return all(await asyncio.gather(*(asyncio.create_task(t.is_available(context)) for t in self.value)))",
      "    _sf_ret = all(await asyncio.gather(*(asyncio.create_task(t.is_available(context)) for t in self.value)))\n    _sf_ret = True\n    return _sf_ret", "R2"),
    V("loop combinator restore: last component through rsplit", COMB_FILE, _CR, "int(iteration.split('.')[-1])", "int(iteration.rsplit('.', 1)[-1])", None),
    # ---- refactoring B14-5: the whole expansion block extracted into a helper (method / module-level coroutine)
    V("expansion block extracted into a private method", UTILS_FILE, f"{UTILS}.ProvenanceGraph",
      "\n".join("    " + ln if ln else ln for ln in _EXP_OLD.split("\n")) + _BG_TAIL, _EXP_METHOD_NEW + _BG_TAIL + _EXP_METHOD, None),
    V("expansion block extracted into a private method that forgets the raise", UTILS_FILE, f"{UTILS}.ProvenanceGraph",
      "\n".join("    " + ln if ln else ln for ln in _EXP_OLD.split("\n")) + _BG_TAIL,
      _EXP_METHOD_NEW + _BG_TAIL + _EXP_METHOD.replace("            raise FailureHandlingException(f'Token with id {token.persistent_id} is not available and it does not have previous tokens')", "            return None"), "R1"),
    V("expansion block extracted into a module-level coroutine", UTILS_FILE, _BG, _EXP_OLD, _EXP_NEW, None, append=_EXP_HELPER),
    V("extracted expansion invoked for available tokens", UTILS_FILE, _BG, _AV_ELIF + _EXP_OLD,
      _AV_ELIF.replace("elif (is_available", "elif not (is_available") + _EXP_NEW, "R1", append=_EXP_HELPER),
    V("extracted expansion receives another token", UTILS_FILE, _BG, _EXP_OLD, _EXP_NEW.replace("(self, token,", "(self, t,"), "R1", append=_EXP_HELPER),
    V("extracted expansion: a token without producers becomes a root", UTILS_FILE, _BG, _EXP_OLD, _EXP_NEW, "R1",
      append=_EXP_HELPER.replace("        raise FailureHandlingException(f'Token with id {token.persistent_id} is not available and it does not have previous tokens')", "        graph.add(token)")),
    V("extracted expansion queues on a copy of the frontier", UTILS_FILE, _BG, _EXP_OLD, _EXP_NEW.replace("token_frontier,", "deque(token_frontier),"), "R1", append=_EXP_HELPER),
    V("extracted expansion re-binds the token before loading", UTILS_FILE, _BG, _EXP_OLD, _EXP_NEW, "R1",
      append=_EXP_HELPER.replace("    if (prev_tokens :=", "    token = token_frontier[0] if token_frontier else token\n    if (prev_tokens :=")),
    V("extracted expansion not awaited", UTILS_FILE, _BG, _EXP_OLD, _EXP_NEW.replace("await _expand_token", "_expand_token"), "R4", append=_EXP_HELPER),
    # ---- refactoring B12-8: the aggregate over the locations extracted into a module-level coroutine
    V("location check extracted into a helper coroutine", TOKEN_FILE, _FA, _ANY_OLD, _ANY_NEW, None, append=_ANY_HELPER),
    V("location check extracted, result through a temporary", TOKEN_FILE, _FA, "            " + _ANY_OLD + "\n                return False",
      "            else:\n                found = await _is_any_path_available(context, data_locations)\n                if not found:\n                    return False", None,
      append=_ANY_HELPER.replace("    return any(", "    res = any(").replace("data_locations)))\n", "data_locations)))\n    return res\n")),
    V("extracted location check demands all locations", TOKEN_FILE, _FA, _ANY_OLD, _ANY_NEW, "R2", append=_ANY_HELPER.replace("return any(", "return all(")),
    V("extracted location check looks at the first location only", TOKEN_FILE, _FA, _ANY_OLD, _ANY_NEW, "R2",
      append=_ANY_HELPER.replace("for data_loc in data_locations)))", "for data_loc in data_locations[:1])))")),
    V("extracted location check returns the negated aggregate", TOKEN_FILE, _FA, _ANY_OLD, _ANY_NEW, "R2", append=_ANY_HELPER.replace("return any(", "return not any(")),
    V("extracted location check receives other locations", TOKEN_FILE, _FA, _ANY_OLD, _ANY_NEW.replace("data_locations)", "[])"), "R2", append=_ANY_HELPER),
    V("extracted location check: outcome inverted at the call site", TOKEN_FILE, _FA, _ANY_OLD, _ANY_NEW.replace("elif not await", "elif await"), "R2", append=_ANY_HELPER),
    V("extracted location check not awaited", TOKEN_FILE, _FA, _ANY_OLD, _ANY_NEW.replace("not await _is", "not _is"), "R2", append=_ANY_HELPER),
    # ---- refactoring B18-2: the check of one path (look-up, emptiness test, aggregate) extracted into a module-level coroutine
    V("per-path check extracted into a helper coroutine", TOKEN_FILE, _FA, _PATH_OLD, _PATH_NEW, None, append=_PATH_HELPER),
    V("per-path check extracted, outcome tested in the helper and through a temporary at the call site", TOKEN_FILE, _FA, _PATH_OLD,
      "            here = await _is_path_available_somewhere(context, path)\n            if not here:\n                return False\n", None, append=_PATH_HELPER_TESTED),
    V("per-path check extracted, aggregate in a helper of the helper", TOKEN_FILE, _FA, _PATH_OLD, _PATH_NEW, None,
      append=_ANY_HELPER + _PATH_HELPER.replace("    return any(await asyncio.gather(*(asyncio.create_task(_is_path_available(context, data_loc)) for data_loc in data_locations)))",
                                                "    return await _is_any_path_available(context, data_locations)")),
    V("extracted per-path check: no location counts as available", TOKEN_FILE, _FA, _PATH_OLD, _PATH_NEW, "R2",
      append=_PATH_HELPER.replace("== 0:\n        return False", "== 0:\n        return True")),
    V("extracted per-path check demands all locations", TOKEN_FILE, _FA, _PATH_OLD, _PATH_NEW, "R2", append=_PATH_HELPER.replace("return any(", "return all(")),
    V("extracted per-path check looks up any data type", TOKEN_FILE, _FA, _PATH_OLD, _PATH_NEW, "R2", append=_PATH_HELPER.replace(", data_type=DataType.PRIMARY", "")),
    V("extracted per-path check returns the negated aggregate", TOKEN_FILE, _FA, _PATH_OLD, _PATH_NEW, "R2", append=_PATH_HELPER.replace("return any(", "return not any(")),
    V("extracted per-path check ignores the aggregate", TOKEN_FILE, _FA, _PATH_OLD, _PATH_NEW, "R2",
      append=_PATH_HELPER_TESTED.replace("    if not found:\n        return False\n", "    if not found:\n        logger.debug('lost')\n")),
    V("extracted per-path check: lost path reported as found", TOKEN_FILE, _FA, _PATH_OLD, _PATH_NEW, "R2",
      append=_PATH_HELPER_TESTED.replace("    if not found:\n        return False\n", "    if not found:\n        return True\n")),
    V("extracted per-path check: outcome inverted at the call site", TOKEN_FILE, _FA, _PATH_OLD, _PATH_NEW.replace("if not await", "if await"), "R2", append=_PATH_HELPER),
    V("extracted per-path check: lost path ignored at the call site", TOKEN_FILE, _FA, _PATH_OLD, _PATH_NEW.replace("return False", "continue"), "R2", append=_PATH_HELPER),
    V("extracted per-path check receives another path", TOKEN_FILE, _FA, _PATH_OLD, _PATH_NEW.replace("(context, path)", "(context, self.value['path'])"), "R2", append=_PATH_HELPER),
    V("extracted per-path check re-binds the path before the look-up", TOKEN_FILE, _FA, _PATH_OLD, _PATH_NEW, "R2",
      append=_PATH_HELPER.replace("    data_locations = context", "    path = os.path.dirname(path)\n    data_locations = context")),
    V("extracted per-path check not awaited", TOKEN_FILE, _FA, _PATH_OLD, _PATH_NEW.replace("not await _is", "not _is"), "R2", append=_PATH_HELPER),
    V("look-up of the locations extracted into a helper function", TOKEN_FILE, _FA, _LOCS_OLD, _LOCS_NEW, None, append=_LOCS_HELPER),
    V("extracted look-up returns the locations of any data type", TOKEN_FILE, _FA, _LOCS_OLD, _LOCS_NEW, "R2", append=_LOCS_HELPER.replace(", data_type=DataType.PRIMARY", "")),
    V("extracted look-up: aggregate over other locations", TOKEN_FILE, _FA, _LOCS_OLD + "\n                return False\n            elif not any(await asyncio.gather(*(asyncio.create_task(_is_path_available(context, data_loc)) for data_loc in data_locations))):",
      _LOCS_NEW + "\n                return False\n            elif not any(await asyncio.gather(*(asyncio.create_task(_is_path_available(context, data_loc)) for data_loc in data_locations[:1]))):", "R2",
      append=_LOCS_HELPER),
    # gathered results bound to a local before the aggregate (B30-5)
    V("gathered availabilities bound to a local before any(...)", TOKEN_FILE, _FA, _PATH_OLD, _TMP_NEW, None),
    V("tasks and gathered availabilities bound to locals before any(...)", TOKEN_FILE, _FA, _PATH_OLD,
      _TMP_NEW.replace("            availabilities = " + _TMP_GATHER,
                       "            tasks = [asyncio.create_task(_is_path_available(context, data_loc)) for data_loc in data_locations]\n"
                       "            availabilities = await asyncio.gather(*tasks)"), None),
    V("gathered availabilities through a local, tested through a boolean local", TOKEN_FILE, _FA, _PATH_OLD,
      _TMP_NEW.replace("            if not any(availabilities):", "            found = any(availabilities)\n            if not found:"), None),
    V("gathered availabilities through a local: all locations demanded", TOKEN_FILE, _FA, _PATH_OLD, _TMP_NEW.replace("not any(availabilities)", "not all(availabilities)"), "R2"),
    V("gathered availabilities through a local: local overwritten before any(...)", TOKEN_FILE, _FA, _PATH_OLD,
      _TMP_NEW.replace("            if not any(availabilities):", "            availabilities = [True]\n            if not any(availabilities):"), "R2"),
    V("gathered availabilities through a local: aggregate over something else", TOKEN_FILE, _FA, _PATH_OLD, _TMP_NEW.replace("not any(availabilities)", "not any(data_locations)"), "R2"),
    V("gathered availabilities through a local: outcome inverted", TOKEN_FILE, _FA, _PATH_OLD, _TMP_NEW.replace("if not any(availabilities)", "if any(availabilities)"), "R2"),
    V("gathered availabilities through a local: lost path ignored", TOKEN_FILE, _FA, _PATH_OLD,
      _TMP_NEW.replace("            if not any(availabilities):\n                return False\n", "            if not any(availabilities):\n                continue\n"), "R2"),
    V("gathered availabilities through a local: only the first location checked", TOKEN_FILE, _FA, _PATH_OLD, _TMP_NEW.replace("for data_loc in data_locations))", "for data_loc in data_locations[:1]))"), "R2"),
    V("gathered availabilities through a local: results never awaited", TOKEN_FILE, _FA, _PATH_OLD, _TMP_NEW.replace("availabilities = await asyncio.gather(", "availabilities = asyncio.gather("), "R2"),
    # producer loop extracted into a helper (B8-5) / collected with any(...) over a temporary (B8-6)
    V("producer loop extracted into a helper function", UTILS_FILE, _BG, _PLOOP, "            _link_producers(self, token, prev_tokens, token_frontier)\n", None,
      append=_LINK_HELPER),
    V("producer loop extracted into a helper, helper result awaited", UTILS_FILE, _BG, _PLOOP, "            await _link_producers(self, token, prev_tokens, token_frontier)\n", None,
      append=_LINK_HELPER.replace("def _link_producers", "async def _link_producers")),
    V("unmapped input found with any(...) over gathered rows", UTILS_FILE, _GS, _CLOOP_OLD,
      "        port_rows = await asyncio.gather(*(asyncio.create_task(self.context.database.get_port(row_dependency['port'])) for row_dependency in dependency_rows))\n"
      "        if any((port_row['name'] not in self.port_tokens.keys() for port_row in port_rows)):\n            step_to_remove.add(step_id)\n", None),
    V("unmapped input found with `not all(mapped)` through a boolean temporary", UTILS_FILE, _GS, _CLOOP_OLD,
      "        port_rows = await asyncio.gather(*(asyncio.create_task(self.context.database.get_port(row_dependency['port'])) for row_dependency in dependency_rows))\n"
      "        complete = all((port_row['name'] in self.port_tokens.keys() for port_row in port_rows))\n        if not complete:\n            step_to_remove.add(step_id)\n", None),
    V("unmapped inputs listed first", UTILS_FILE, _GS, _CLOOP_OLD,
      "        port_rows = await asyncio.gather(*(asyncio.create_task(self.context.database.get_port(row_dependency['port'])) for row_dependency in dependency_rows))\n"
      "        missing = [r['name'] for r in port_rows if r['name'] not in self.port_tokens.keys()]\n        if missing:\n            step_to_remove.add(step_id)\n", None),
]
