"""C18 Recovery re-runs only failed jobs and producers of lost data.

R1 expansion only for lost data (`ProvenanceGraph.build_graph`): the call that expands a token to
   its producers (`load_dependee_tokens`) is evaluated only after, in the same iteration, (a) the
   recovering-job test came out negative and (b) `token.is_available()` of the *same* token came
   out False (CFG: the node is unreachable from the outcomes that force `is_recovering` / the
   availability to True, and every path from the loop head passes both tests); the recorded
   `ProvenanceToken.is_available` is the tested value; a token without producers raises.
   Nec.: expanding an available token re-executes a job whose outputs stayed available.
R2 availability of file data (`FileToken.is_available` / `_is_path_available`): not recoverable ->
   only `return False`; a path without PRIMARY location -> only `return False`; no location passing
   `_is_path_available` (builtin `any` over *all* its locations) -> only `return False`;
   `return True` only after the loop over every path; `_is_path_available` returns the result of
   `exists()` on (path, location) of the examined data location, False when the check fails, and
   invalidates that location on every path where the result is False; composite tokens
   (ListToken/ObjectToken) are the conjunction over their members.
R3 steps selected for re-execution (`GraphMapper.get_step_ids`): ports of the failed step's own
   outputs are excluded (`not in output_port_names`, and the caller passes
   `failed_step.output_ports.values()`); steps having an input port outside the mapped ports are
   collected under `port name not in self.port_tokens` and removed from the returned set on every
   path (not only when debugging).
R4 (added) every coroutine call of these functions is awaited.
Undecided: the predicted re-execution counts.
"""

from __future__ import annotations

import ast

from ..cfg import NORMAL
from ..dataflow import defs_of, origins
from ..model import ancestors, unparse
from ..selftest import V
from ._util_D import (
    FM_FILE,
    RFM,
    TOKEN_FILE,
    UTILS,
    UTILS_FILE,
    bind_args,
    branch_edges,
    check_awaited,
    check_defined,
    has_fact,
    membership_fact,
    path_facts,
    implied,
    implies_empty,
    is_awaited,
    is_builtin_call,
    mentions,
    effective_test,
    outcome_table,
    param_of_type,
    region,
    resolves_to,
    strip,
    succ,
)

TOK = "streamflow.workflow.token"
CORE_WF = "streamflow.core.workflow"

META = {
    "explanation": (
        "CFG branch analysis of ProvenanceGraph.build_graph (which outcomes of the recovering / availability tests can "
        "reach the expansion to producers), of FileToken.is_available and _is_path_available (which returns each "
        "outcome of each test can reach, must-pass-through of the invalidation), and def-use analysis of "
        "GraphMapper.get_step_ids (exclusion filter, removal of steps with unmapped inputs). Decides the structural "
        "conditions under which only lost data is expanded; it does not predict execution counts."
    ),
    "undecided": "the predicted re-execution counts per job",
    "assumptions": ["Token.recoverable / DataManager.get_data_locations report the registry state (C21)", "StreamFlowPath.exists is exact (C24)"],
}


def _test_nodes_with(f, pred_call):
    """[(cfg test node, effective condition, the call)] for tests whose condition contains - directly or
    through a local assigned once just for the test - a call accepted by pred_call."""
    g = f.cfg
    out = []
    for n in g.nodes.values():
        if n.kind != "test" or n.ast is None:
            continue
        eff = effective_test(f, n.ast)
        cs = [c for c in [eff, *ast.walk(eff)] if isinstance(c, ast.Call) and pred_call(c)]
        if cs:
            out.append((n, eff, cs[0]))
    return out


# --------------------------------------------------------------------------- R1


def r1(ctx):
    p = ctx.prog
    f = p.func(f"{UTILS}.ProvenanceGraph.build_graph")
    g = f.cfg
    exp_calls = [c for c in f.calls() if resolves_to(p, f, c, ["streamflow.persistence.utils.load_dependee_tokens"], attr_fallback=False)]
    ctx.require(bool(exp_calls), "C18.R1: build_graph no longer calls load_dependee_tokens")
    rec_tests = _test_nodes_with(f, lambda c: isinstance(c.func, ast.Attribute) and c.func.attr == "is_recovering")
    av_tests = _test_nodes_with(f, lambda c: isinstance(c.func, ast.Attribute) and c.func.attr == "is_available")
    ctx.require(len(rec_tests) == 1, f"C18.R1: expected one is_recovering test in build_graph, found {len(rec_tests)}")
    ctx.require(len(av_tests) == 1, f"C18.R1: expected one is_available test in build_graph, found {len(av_tests)}")
    for ec in exp_calls:
        lids = g.node_containing(ec)
        ctx.require(bool(lids), "C18.R1: CFG node of load_dependee_tokens not found")
        loop = next((a for a in ancestors(ec) if isinstance(a, ast.While)), None)
        ctx.require(loop is not None, "C18.R1: the expansion is not inside the frontier loop")
        heads = g.ids_of(loop.test)
        for label, (t, eff, call), want_msg in (
            ("recovering", rec_tests[0], "the token is the JobToken of a job that is being recovered elsewhere"),
            ("available", av_tests[0], "the token's data is available"),
        ):
            table = outcome_table(eff, lambda a, call=call: a is call)
            ctx.require(bool(table), f"C18.R1: cannot tabulate `{t.text(60)}`")
            bad = None
            why = f"although {want_msg}"
            if t.id in lids:
                bad = [t.id]  # the expansion is evaluated inside the very condition that tests the token
            for k, evaluated, value in table:
                reg = region(g, t.id, k)
                hit = [i for i in lids if i in reg]
                if not hit:
                    continue
                if evaluated and value is True:
                    bad = bad or g.path(t.id, hit) or [t.id, hit[0]]
                elif label == "available" and not evaluated:
                    # the expansion must only happen when the availability was actually found False
                    bad = bad or g.path(t.id, hit) or [t.id, hit[0]]
                    why = "without its availability having been evaluated (short-circuit)"
            if label == "recovering" and bad is None:
                rec_edges = {k for k, ev, val in table if ev and val is True}
                sloppy = [k for k, ev, val in table if k in rec_edges and not (ev and val is True)]
                if sloppy:
                    bad = [t.id]
                    why = "- and tokens are treated as `being recovered` without is_recovering() having returned True -"
            ctx.ob("R1", f"producers are not loaded when {want_msg}", bad is None, func=f, node=ec, instance=f"expand:not-when-{label}",
                   message=f"load_dependee_tokens is evaluated {why}: jobs whose outputs are still usable are re-executed",
                   witness=g.describe(bad or []))
            # tested in the same iteration
            skip = None
            for h in heads:
                for i in lids:
                    if i == t.id:
                        continue
                    skip = skip or g.path(h, [i], avoid=[t.id])
            ctx.ob("R1", f"the `{label}` test is evaluated in every iteration before the expansion", skip is None, func=f, node=ec,
                   instance=f"expand:tested-{label}", message=f"load_dependee_tokens can be reached without evaluating `{t.text(60)}`",
                   witness=g.describe(skip or []))
        # same token tested and expanded
        t, _eff, call = av_tests[0]
        recv = call.func.value
        arg0 = ec.args[0] if ec.args else (ec.keywords[0].value if ec.keywords else None)
        same = isinstance(recv, ast.Name) and arg0 is not None and mentions(
            f, arg0, lambda n: isinstance(n, ast.Attribute) and n.attr == "persistent_id" and isinstance(n.value, ast.Name) and n.value.id == recv.id, depth=1)
        ctx.ob("R1", "the expanded token is the one whose availability was tested", same, func=f, node=ec, instance="expand:same-token",
               message=f"availability is tested on `{unparse(recv)}` but `{unparse(arg0) if arg0 is not None else '?'}` is expanded")
        # no producers => raise ; producers => linked to the token and queued unless already visited
        ets = [n for n in g.nodes.values() if n.kind == "test" and (any(c is ec for c in n.calls()) or mentions(f, n.ast, lambda x: x is ec, depth=1))]
        res_names = set()
        for n in f.body_nodes():
            if isinstance(n, ast.NamedExpr) and strip(n.value) is ec:
                res_names.add(n.target.id)
            if isinstance(n, ast.Assign) and strip(n.value) is ec and len(n.targets) == 1 and isinstance(n.targets[0], ast.Name):
                res_names.add(n.targets[0].id)

        def is_result(x):
            return strip(x) is ec or (isinstance(x, ast.Name) and x.id in res_names)

        if ets:
            et = ets[0]
            neg = branch_edges(g, et, lambda x, v: v is False and is_result(x))
            if len(neg) != 1:
                ctx.ob("R1", "an unavailable token without producers raises", False, func=f, node=ec, instance="expand:no-producers",
                       message=f"no outcome of `{et.text(70)}` singles out the case `no producers`: it cannot raise exactly then")
            else:
                empty_reg = region(g, et.id, neg[0])
                nxt = set(heads) | {g.exit}
                leak = next((i for i in empty_reg if i in nxt), None)
                ctx.ob("R1", "an unavailable token without producers raises", leak is None and any(g.nodes[i].kind == "raise_stmt" for i in empty_reg),
                       func=f, node=ec, instance="expand:no-producers", message="a lost token that cannot be regenerated is silently treated as a root")
        else:
            ctx.ob("R1", "an unavailable token without producers raises (result not tested in place)", True, func=f, node=ec,
                   instance="expand:no-producers", trivial=True)
        ploops = [n for n in f.body_nodes() if isinstance(n, ast.For) and is_result(n.iter) and isinstance(n.target, ast.Name)]
        okl, msgl = False, "the producers returned by load_dependee_tokens are not iterated"
        for lp in ploops:
            pv = lp.target.id
            iid = g.ids_of(lp)
            links = [c for c in f.calls() if any(a is lp for a in ancestors(c)) and resolves_to(p, f, c, [f"{UTILS}.ProvenanceGraph.add"], attr_fallback=False)
                     and len(c.args) == 2 and isinstance(c.args[0], ast.Name) and c.args[0].id == pv and isinstance(c.args[1], ast.Name) and c.args[1].id == recv.id]
            lids_ = [i for c in links for i in g.node_containing(c)]
            body = [b for i in iid for b in succ(g, i, "t")]
            skip = next((pth for b in body if b not in lids_ for pth in [g.path(b, iid, avoid=lids_)] if pth), None) if lids_ else [0]
            queues = [c for c in f.calls() if any(a is lp for a in ancestors(c)) and isinstance(c.func, ast.Attribute) and c.func.attr in ("append", "appendleft", "extend")
                      and c.args and isinstance(c.args[0], ast.Name) and c.args[0].id == pv]
            visited_ok = False
            for c in queues:
                facts = [x for i in g.node_containing(c) for x in path_facts(g, i)]
                not_seen = membership_fact(facts, lambda e: mentions(f, e, lambda k: isinstance(k, ast.Name) and k.id == pv, depth=0),
                                           lambda e: mentions(f, e, lambda k: isinstance(k, ast.Attribute) and k.attr == "info_tokens", depth=0))
                not_queued = has_fact(facts, lambda e: isinstance(e, ast.Call) and resolves_to(p, f, e, ["streamflow.core.utils.contains_persistent_id"], attr_fallback=False), False)
                visited_ok = not_seen is False and not_queued
            okl = bool(lids_) and not skip and visited_ok
            msgl = f"edge producer->token recorded for every producer={bool(lids_) and not skip}; producer queued exactly when neither visited nor already queued={visited_ok}"
        ctx.ob("R1", "every loaded producer is linked to the lost token and queued for examination unless already seen", okl, func=f, node=ec,
               instance="expand:link", message=msgl)
        # the search runs while the frontier is not empty
        wt = g.nodes[heads[0]] if heads else None
        fr = {n.id for n in [loop.test, *ast.walk(loop.test)] if isinstance(n, ast.Name)}
        pos = wt is not None and any(v is True and isinstance(e, ast.Name) and e.id in fr for e, v in implied(loop.test, True)) and any(
            isinstance(c.func, ast.Attribute) and c.func.attr in ("popleft", "pop") and isinstance(c.func.value, ast.Name) and c.func.value.id in fr
            for c in f.calls() if any(a is loop for a in ancestors(c)))
        ctx.ob("R1", "the backward search continues while the frontier is not empty", pos, func=f, node=loop.test, instance="expand:frontier",
               message=f"the loop condition `{unparse(loop.test)}` does not run while tokens remain in the frontier")
    # the recorded availability is the tested one
    t, _eff, call = av_tests[0]
    recs = [c for c in f.calls() if resolves_to(p, f, c, [f"{UTILS}.ProvenanceToken"], attr_fallback=False)]
    ctx.require(bool(recs), "C18.R1: build_graph does not record a ProvenanceToken")
    init = p.func(f"{UTILS}.ProvenanceToken.__init__")
    for c in recs:
        b = bind_args(init.node, c) or {}
        e = b.get("is_available")
        ok = False
        if isinstance(e, ast.Name):
            ds = defs_of(f, e.id)
            vals = [strip(d.value) for d in ds if d.value is not None]
            has_call = any(v is call for v in vals)
            others_false = all(v is call or (isinstance(v, ast.Constant) and v.value is False) for v in vals)
            ok = has_call and others_false
        elif e is not None:
            ok = strip(e) is call
        if ok and isinstance(e, ast.Name):
            tr_, _e2, rcall_ = rec_tests[0]
            table = outcome_table(_e2, lambda a: a is rcall_) or []
            assigns = [n.id for n in g.nodes.values() if n.kind in ("stmt", "test") and any(
                (isinstance(x, ast.Name) and isinstance(x.ctx, ast.Store) and x.id == e.id) for x in n.walk())]
            cid = g.node_containing(c)
            for k in {k for k, ev, val in table if ev and val is True}:
                for s_ in succ(g, tr_.id, k):
                    if s_ not in assigns and g.path(s_, cid, avoid=assigns) is not None:
                        ok = False
        ctx.ob("R1", "the recorded availability is the tested value (False for recovering jobs)", ok, func=f, node=c, instance="record:availability",
               message=f"ProvenanceToken.is_available receives `{unparse(e) if e is not None else None}`, not the result of token.is_available()")


# --------------------------------------------------------------------------- R2


def _ret_kind(n):
    v = n.ast.value
    if isinstance(v, ast.Constant) and v.value is False:
        return "False"
    if isinstance(v, ast.Constant) and v.value is True:
        return "True"
    return "other"


def _only_false(g, starts):
    """Every normal path from `starts` ends in `return False` (no other return, no fall-through)."""
    reg = g.reach(starts, kinds=NORMAL, include_src=True)
    bad = [g.nodes[i] for i in reg if g.nodes[i].kind == "return" and _ret_kind(g.nodes[i]) != "False"]
    if bad:
        return g.path(starts[0], [bad[0].id]) or [starts[0], bad[0].id]
    # fall-through to exit without a return
    for i in reg:
        if g.nodes[i].kind != "return" and g.exit in [b for b, k in g.succ[i] if k in NORMAL]:
            return [i, g.exit]
    return None


def r2(ctx):
    p = ctx.prog
    f = p.func(f"{TOK}.FileToken.is_available")
    g = f.cfg
    # (a) not recoverable
    rts = [n for n in g.nodes.values() if n.kind == "test" and any(isinstance(x, ast.Attribute) and x.attr == "recoverable" for x in n.walk())]
    ctx.require(len(rts) >= 1, "C18.R2: FileToken.is_available does not test `recoverable`")
    t = rts[0]
    neg = branch_edges(g, t, lambda n, v: v is False and isinstance(n, ast.Attribute) and n.attr == "recoverable")
    ctx.require(len(neg) == 1, "C18.R2: cannot tell which outcome of the recoverable test means `not recoverable`")
    w = _only_false(g, succ(g, t.id, neg[0]))
    ctx.ob("R2", "a token that is not recoverable is unavailable", w is None and g.dominates(t.id, g.exit), func=f, node=t.ast, instance="file:not-recoverable",
           message="a FileToken that is not recoverable can be reported available: its producer is never re-run although the data cannot be trusted",
           witness=g.describe(w or []))
    # (b) PRIMARY locations of each path
    gets = [c for c in f.calls() if isinstance(c.func, ast.Attribute) and c.func.attr == "get_data_locations"]
    ctx.require(len(gets) == 1, "C18.R2: expected one get_data_locations call in FileToken.is_available")
    gl = gets[0]
    b = bind_args(p.func("streamflow.core.data.DataManager.get_data_locations").node, gl) or {}
    dt = b.get("data_type")
    prim = dt is not None and isinstance(strip(dt), ast.Attribute) and strip(dt).attr == "PRIMARY" and p.resolve_expr(f.module, strip(dt).value) == "streamflow.core.data.DataType"
    loop = next((a for a in ancestors(gl) if isinstance(a, (ast.For, ast.AsyncFor))), None)
    path_ok = loop is not None and isinstance(loop.target, ast.Name) and isinstance(b.get("path"), ast.Name) and b["path"].id == loop.target.id and any(
        isinstance(o, ast.Call) and isinstance(o.func, ast.Attribute) and o.func.attr == "get_paths" and isinstance(o.func.value, ast.Name) and o.func.value.id == "self"
        for o in [strip(x) for x in origins(f, loop.iter)])
    ctx.ob("R2", "PRIMARY data locations are looked up for every path of the token", prim and path_ok, func=f, node=gl, instance="file:primary",
           message=f"`{unparse(gl)}`: data_type=PRIMARY={prim}, iterates get_paths()={path_ok} - symbolic links / other paths would make lost data look available")

    def is_locs(e):
        e0 = e
        if isinstance(e0, ast.NamedExpr):
            return strip(e0.value) is gl
        if strip(e0) is gl:
            return True
        if isinstance(e0, ast.Name):
            return any(d.value is not None and strip(d.value) is gl for d in defs_of(f, e0.id))
        return False

    ets = [(n, k) for n in g.nodes.values() if n.kind == "test" for k, tr in (("t", True), ("f", False)) if implies_empty(p, f, n.ast, tr, is_locs)]
    ctx.require(len(ets) >= 1, "C18.R2: no emptiness test of the data locations found")
    for n, k in ets:
        w = _only_false(g, succ(g, n.id, k))
        ctx.ob("R2", "a path without any PRIMARY location makes the token unavailable", w is None, func=f, node=n.ast, instance="file:no-location",
               message="a path with no registered PRIMARY location does not make the token unavailable", witness=g.describe(w or []))
    # (c) no location passes _is_path_available
    chk = [c for c in f.calls() if resolves_to(p, f, c, [f"{TOK}._is_path_available"], attr_fallback=False)]
    ctx.require(len(chk) == 1, "C18.R2: expected one _is_path_available call in FileToken.is_available")
    ck = chk[0]
    agg = next((a for a in ancestors(ck) if isinstance(a, ast.Call) and isinstance(a.func, ast.Name) and a.func.id in ("any", "all", "sum", "max", "min", "next")), None)
    is_any = agg is not None and is_builtin_call(p, f, agg, "any")
    comp = next((a for a in ancestors(ck) if isinstance(a, (ast.GeneratorExp, ast.ListComp, ast.SetComp))), None)
    over_all = comp is not None and len(comp.generators) == 1 and not comp.generators[0].ifs and is_locs(comp.generators[0].iter) and isinstance(
        comp.generators[0].target, ast.Name) and any(isinstance(a, ast.Name) and a.id == comp.generators[0].target.id for a in ck.args)
    awaited = any(isinstance(a, ast.Await) for a in ancestors(ck))
    ctx.ob("R2", "availability = any(_is_path_available(loc) for every PRIMARY location)", is_any and over_all and awaited, func=f, node=ck, instance="file:any-location",
           message=f"aggregate is builtin any={is_any}, over all locations without filter={over_all}, awaited={awaited}")
    if agg is not None:
        tn = [n for n in g.nodes.values() if n.kind == "test" and any(x is agg for x in n.walk())]
        if not tn:
            # result stored in a local first
            tn = [n for n in g.nodes.values() if n.kind == "test" and mentions(f, n.ast, lambda x: x is agg, depth=1)]
        ctx.require(len(tn) == 1, "C18.R2: the result of the location check is not tested")
        n = tn[0]
        neg = branch_edges(g, n, lambda x, v: v is False and (x is agg or (isinstance(x, ast.Name) and any(d.value is agg for d in defs_of(f, x.id)))))
        ctx.require(len(neg) == 1, "C18.R2: cannot tell which outcome means `no location holds the path`")
        w = _only_false(g, succ(g, n.id, neg[0]))
        ctx.ob("R2", "a path that exists on none of its locations makes the token unavailable", w is None, func=f, node=n.ast, instance="file:lost",
               message="a path that no location holds any more does not make the token unavailable: lost data is not regenerated", witness=g.describe(w or []))
    else:
        ctx.ob("R2", "a path that exists on none of its locations makes the token unavailable", False, func=f, node=ck, instance="file:lost",
               message="the results of _is_path_available are not aggregated")
    # (d) `return True` only after all paths
    trues = [n for n in g.nodes.values() if n.kind == "return" and _ret_kind(n) != "False"]
    ctx.require(bool(trues), "C18.R2: FileToken.is_available never returns True")
    for n in trues:
        inside = loop is not None and any(a is loop for a in ancestors(n.ast))
        iid = g.ids_of(loop) if loop is not None else []
        ok = not inside and bool(iid) and all(g.dominates(iid, n.id) for _ in [0]) and _ret_kind(n) == "True"
        ctx.ob("R2", "`return True` only after every path was examined", ok, func=f, node=n.ast, instance="file:all-paths",
               message="the token is reported available before all of its paths were examined" if inside or not ok else "")
    # (e) _is_path_available
    h = p.func(f"{TOK}._is_path_available")
    gh = h.cfg
    dl = param_of_type(p, h, "streamflow.core.data.DataLocation")
    ctx.require(dl is not None, "C18.R2: _is_path_available has no DataLocation parameter")
    ex = [c for c in h.calls() if isinstance(c.func, ast.Attribute) and c.func.attr == "exists"]
    ctx.require(len(ex) == 1, "C18.R2: expected one exists() call in _is_path_available")
    ctor = strip(ex[0].func.value)

    def field(e, name):
        e = strip(e) if e is not None else None
        return isinstance(e, ast.Attribute) and e.attr == name and isinstance(e.value, ast.Name) and e.value.id == dl

    okc = False
    if isinstance(ctor, ast.Call) and resolves_to(p, h, ctor, ["streamflow.data.remotepath.StreamFlowPath"], attr_fallback=False):
        kw = {k.arg: k.value for k in ctor.keywords}
        okc = bool(ctor.args) and field(ctor.args[0], "path") and field(kw.get("location"), "location")
    ctx.ob("R2", "_is_path_available checks exists() of (data_location.path, data_location.location)", okc and is_awaited(ex[0]), func=h, node=ex[0],
           instance="path:exists", message=f"`{unparse(ex[0])}` does not test the examined data location")
    rets = [n for n in gh.nodes.values() if n.kind == "return"]
    ctx.require(len(rets) >= 1, "C18.R2: _is_path_available has no return")
    res_names = set()
    ok_ret = True
    for n in rets:
        v = n.ast.value
        if isinstance(v, ast.Name):
            res_names.add(v.id)
            for d in defs_of(h, v.id):
                dv = strip(d.value) if d.value is not None else None
                if not (dv is ex[0] or (isinstance(dv, ast.Constant) and dv.value is False)):
                    ok_ret = False
        elif not (strip(v) is ex[0] if v is not None else False):
            ok_ret = False
    for hd in [n for n in h.body_nodes() if isinstance(n, ast.ExceptHandler)]:
        hid = gh.ids_of(hd)
        sets = [n.id for n in gh.nodes.values() if n.kind == "stmt" and isinstance(n.ast, ast.Assign) and any(
            isinstance(t_, ast.Name) and t_.id in res_names for t_ in n.ast.targets) and isinstance(n.ast.value, ast.Constant) and n.ast.value.value is False]
        if hid and res_names and gh.path(hid[0], [r.id for r in rets], avoid=sets) is not None:
            ok_ret = False
    ctx.ob("R2", "_is_path_available returns the outcome of exists() (False when the check fails)", ok_ret, func=h, node=rets[0].ast, instance="path:result",
           message="the returned value is not the result of exists() / False on failure")
    inv = [c for c in h.calls() if isinstance(c.func, ast.Attribute) and c.func.attr == "invalidate_location"]
    iids = [i for c in inv for i in gh.node_containing(c)]
    args_ok = bool(inv) and all(len(c.args) + len(c.keywords) >= 2 for c in inv)
    for c in inv:
        bb = bind_args(p.func("streamflow.core.data.DataManager.invalidate_location").node, c) or {}
        args_ok = args_ok and field(bb.get("location"), "location") and field(bb.get("path"), "path")
    tests = [n for n in gh.nodes.values() if n.kind == "test" and any(isinstance(x, ast.Name) and x.id in res_names for x in n.walk())]
    ctx.require(bool(tests) or not res_names, "C18.R2: the result of exists() is never tested in _is_path_available")
    esc = None
    for n in tests:
        for k in branch_edges(gh, n, lambda x, v: v is False and isinstance(x, ast.Name) and x.id in res_names):
            for s in succ(gh, n.id, k):
                if s not in iids:
                    esc = esc or gh.path(s, [gh.exit], avoid=iids) or ([s] if s == gh.exit else None)
    ctx.ob("R2", "a location whose path does not exist is invalidated on every path", bool(iids) and esc is None and args_ok, func=h,
           node=(inv[0] if inv else h.node), instance="path:invalidate",
           message="a missing path is not (always) invalidated in the data manager: later look-ups still count the lost copy as available",
           witness=gh.describe(esc or []))
    # (f) composite tokens
    for cq in (f"{TOK}.ListToken", f"{TOK}.ObjectToken"):
        m = p.cls(cq).methods.get("is_available")
        ok = False
        if m is not None:
            rs = [n for n in m.body_nodes() if isinstance(n, ast.Return)]
            if len(rs) == 1 and rs[0].value is not None:
                v = strip(rs[0].value)
                ok = is_builtin_call(p, m, v, "all") and any(
                    isinstance(c, ast.Call) and isinstance(c.func, ast.Attribute) and c.func.attr == "is_available" for c in ast.walk(v)) and any(
                    isinstance(x, ast.Attribute) and x.attr == "value" and isinstance(x.value, ast.Name) and x.value.id == "self" for x in ast.walk(v))
        ctx.ob("R2", f"{cq.rpartition('.')[2]} is available iff all of its members are", ok, qualname=cq, func=m, node=(m.node if m else p.cls(cq).node),
               instance="composite:all", message=f"{cq.rpartition('.')[2]}.is_available is not `all(member.is_available(...))`")


# --------------------------------------------------------------------------- R3


def r3(ctx):
    p = ctx.prog
    f = p.func(f"{UTILS}.GraphMapper.get_step_ids")
    g = f.cfg
    ctx.require(len(f.params) >= 2, "C18.R3: get_step_ids lost its parameter")
    outp = f.params[1]
    # exclusion of the failed step's own output ports
    found = False
    for n in f.body_nodes():
        if isinstance(n, (ast.SetComp, ast.ListComp, ast.GeneratorExp)) and len(n.generators) == 1:
            gen = n.generators[0]
            if any(isinstance(x, ast.Attribute) and x.attr == "port_tokens" for x in ast.walk(gen.iter)) and isinstance(gen.target, ast.Name):
                if not any(isinstance(x, ast.Attribute) and x.attr == "port_name_ids" for x in ast.walk(n.elt)):
                    continue
                found = True
                ok = False
                for cond in gen.ifs:
                    for e, v in implied(cond, True):
                        if isinstance(e, ast.Compare) and len(e.ops) == 1 and isinstance(e.left, ast.Name) and e.left.id == gen.target.id and mentions(
                                f, e.comparators[0], lambda x: isinstance(x, ast.Name) and x.id == outp, depth=1):
                            ok = ok or (isinstance(e.ops[0], ast.NotIn) and v) or (isinstance(e.ops[0], ast.In) and not v)
                ctx.ob("R3", "ports named in `output_port_names` are excluded from the ports to regenerate", ok, func=f, node=n, instance="steps:exclude-outputs",
                       message="the failed step's own output ports are not excluded: the steps consuming its outputs would be re-loaded and re-run")
    ctx.require(found, "C18.R3: the port-id selection of get_step_ids was not found")
    # caller passes the failed step's output ports
    rec = p.func(f"{RFM}._recover")
    fstep = param_of_type(p, rec, f"{CORE_WF}.Step")
    calls = [c for c in rec.calls() if resolves_to(p, rec, c, [f.qualname], attr_fallback=False)]
    ctx.require(bool(calls) and fstep is not None, "C18.R3: _recover does not call get_step_ids")
    for c in calls:
        b = bind_args(f.node, c) or {}
        a = b.get(outp)
        ok = a is not None and mentions(rec, a, lambda x: isinstance(x, ast.Attribute) and x.attr == "output_ports" and isinstance(x.value, ast.Name) and x.value.id == fstep) and mentions(
            rec, a, lambda x: isinstance(x, ast.Call) and isinstance(x.func, ast.Attribute) and x.func.attr == "values")
        ctx.ob("R3", "_recover excludes the workflow ports bound to the failed step's outputs", ok and is_awaited(c), func=rec, node=c, instance="steps:caller",
               message=f"get_step_ids receives `{unparse(a) if a is not None else None}` instead of failed_step.output_ports.values()")
    # the recovery workflow starts empty: the builder must not copy every step of the original workflow
    wb = [c for c in rec.calls() if resolves_to(p, rec, c, ["streamflow.persistence.loading_context.WorkflowBuilder"], attr_fallback=False)]
    ctx.require(bool(wb), "C18.R3: _recover does not create a WorkflowBuilder")
    for c in wb:
        b = bind_args(p.func("streamflow.persistence.loading_context.WorkflowBuilder.__init__").node, c) or {}
        dc = b.get("deep_copy")
        ctx.ob("R3", "the recovery workflow is built with deep_copy=False (only the selected steps are loaded)", isinstance(dc, ast.Constant) and dc.value is False,
               func=rec, node=c, instance="steps:no-deep-copy",
               message=f"`{unparse(c)}` copies every step of the original workflow into the recovery workflow: jobs whose outputs are available are re-executed")
    # removal of steps with an unmapped input port
    rets = [n for n in g.nodes.values() if n.kind == "return"]
    ctx.require(len(rets) == 1 and isinstance(rets[0].ast.value, ast.Name), "C18.R3: get_step_ids does not return a named set")
    R = rets[0].ast.value.id
    adds = []
    for c in f.calls():
        if isinstance(c.func, ast.Attribute) and c.func.attr == "add" and isinstance(c.func.value, ast.Name) and c.func.value.id != R:
            adds.append(c)
    guarded = None
    for c in adds:
        S = c.func.value.id
        cid = g.node_containing(c)
        for t in g.nodes.values():
            if t.kind != "test":
                continue
            for k, tr in (("t", True), ("f", False)):
                hit = any(
                    isinstance(e, ast.Compare) and len(e.ops) == 1 and any(isinstance(x, ast.Attribute) and x.attr == "port_tokens" for x in ast.walk(e.comparators[0]))
                    and ((isinstance(e.ops[0], ast.NotIn) and v) or (isinstance(e.ops[0], ast.In) and not v))
                    for e, v in implied(t.ast, tr))
                if hit and cid and all(i in region(g, t.id, k) for i in cid):
                    other = "f" if k == "t" else "t"
                    if not any(i in region(g, t.id, other) for i in cid):
                        guarded = (S, c, t)
    ctx.ob("R3", "steps with an input port outside the mapped ports are collected", guarded is not None, func=f, node=(guarded[1] if guarded else f.node),
           instance="steps:collect", message="no `<set>.add(step)` under `port name not in self.port_tokens`: steps whose inputs cannot be provided stay in the recovery workflow")
    if guarded is None:
        ctx.ob("R3", "collected steps are removed from the result on every path", False, func=f, node=f.node, instance="steps:remove",
               message="nothing is collected for removal")
        return
    S = guarded[0]
    ok, wit = False, []
    # forms: for x in S: R.remove/discard(x) | R -= S | R.difference_update(S) | return R - S
    for n in g.nodes.values():
        if n.kind != "stmt":
            continue
        a = n.ast
        if isinstance(a, ast.AugAssign) and isinstance(a.op, ast.Sub) and isinstance(a.target, ast.Name) and a.target.id == R and isinstance(a.value, ast.Name) and a.value.id == S:
            ok = g.dominates(n.id, rets[0].id)
        if isinstance(a, ast.Expr) and isinstance(a.value, ast.Call) and isinstance(a.value.func, ast.Attribute) and a.value.func.attr == "difference_update" and unparse(a.value.func.value) == R:
            ok = ok or (g.dominates(n.id, rets[0].id) and any(isinstance(x, ast.Name) and x.id == S for x in a.value.args))
    for c in f.calls():
        if isinstance(c.func, ast.Attribute) and c.func.attr in ("remove", "discard") and isinstance(c.func.value, ast.Name) and c.func.value.id == R:
            lp = next((a for a in ancestors(c) if isinstance(a, (ast.For, ast.AsyncFor))), None)
            if lp is None or not (isinstance(strip(lp.iter), ast.Name) and strip(lp.iter).id == S) and not mentions(f, lp.iter, lambda x: isinstance(x, ast.Name) and x.id == S, depth=0):
                continue
            if not (isinstance(lp.target, ast.Name) and c.args and isinstance(c.args[0], ast.Name) and c.args[0].id == lp.target.id):
                continue
            iid = g.ids_of(lp)
            cid = g.node_containing(c)
            body = [b for i in iid for b in succ(g, i, "t")]
            skip = next((pth for b in body if b not in cid for pth in [g.path(b, iid, avoid=cid)] if pth), None)
            brk = next((pth for b in body for pth in [g.path(b, [rets[0].id], avoid=iid)] if pth), None)
            if skip or brk:
                wit = g.describe(skip or brk)
            ok = ok or (not skip and not brk and all(g.dominates(iid, rets[0].id) for _ in [0]))
    ctx.ob("R3", "collected steps are removed from the result on every path", ok, func=f, node=rets[0].ast, instance="steps:remove",
           message="steps collected for removal are not (always) removed from the returned set", witness=wit)


def r4(ctx):
    """No coroutine of the availability / selection code is created without being awaited (an un-awaited
    `is_available()` / `is_recovering()` is always truthy)."""
    names = [f"{UTILS}.ProvenanceGraph.build_graph", f"{UTILS}.GraphMapper.get_step_ids", f"{UTILS}.create_graph_mapper",
                              f"{TOK}.FileToken.is_available", f"{TOK}._is_path_available", f"{TOK}.ListToken.is_available", f"{TOK}.ObjectToken.is_available"]
    check_awaited(ctx, "R4", names)
    check_defined(ctx, "R4", names, classes=[f"{UTILS}.ProvenanceGraph", f"{UTILS}.GraphMapper"])


RULES = [("R1", r1), ("R2", r2), ("R3", r3), ("R4", r4)]
FLOORS = {"R1": 9, "R2": 11, "R3": 5, "R4": 16}

_BG = f"{UTILS}.ProvenanceGraph.build_graph"
_FA = f"{TOK}.FileToken.is_available"
_PA = f"{TOK}._is_path_available"
_GS = f"{UTILS}.GraphMapper.get_step_ids"

VARIANTS = [
    V("expansion when the token IS available", UTILS_FILE, _BG, "elif (is_available := (await token.is_available(context=self.context))):", "elif not (is_available := (await token.is_available(context=self.context))):", "R1", control=True),
    V("recovering jobs are expanded", UTILS_FILE, _BG, "isinstance(token, JobToken) and await self.context.failure_manager.is_recovering(token.value.name)",
      "isinstance(token, JobToken) and (not await self.context.failure_manager.is_recovering(token.value.name))", "R1"),
    V("expansion moved before the availability test", UTILS_FILE, _BG,
      "        elif (is_available := (await token.is_available(context=self.context))):\n            self.add(token)\n        elif (prev_tokens := (await load_dependee_tokens(token.persistent_id, loading_context))):",
      "        elif (prev_tokens := (await load_dependee_tokens(token.persistent_id, loading_context))) and (not (is_available := (await token.is_available(context=self.context)))):", "R1"),
    V("job tokens are expanded without an availability test", UTILS_FILE, _BG, "elif (is_available := (await token.is_available(context=self.context))):",
      "elif not isinstance(token, JobToken) and (is_available := (await token.is_available(context=self.context))):", "R1"),
    V("availability of another token is tested", UTILS_FILE, _BG, "await token.is_available(context=self.context)", "await t.is_available(context=self.context)", "R1"),
    V("recorded availability is constant", UTILS_FILE, _BG, "is_available=is_available", "is_available=False", "R1"),
    V("every JobToken is treated as being recovered", UTILS_FILE, _BG, "isinstance(token, JobToken) and await self.context.failure_manager.is_recovering(token.value.name)",
      "isinstance(token, JobToken) or await self.context.failure_manager.is_recovering(token.value.name)", "R1"),
    V("producers are not linked to the lost token", UTILS_FILE, _BG, "                self.add(prev_token, token)\n", "", "R1"),
    V("visited producers are queued again", UTILS_FILE, _BG, "if prev_token.persistent_id not in self.info_tokens.keys() and", "if prev_token.persistent_id in self.info_tokens.keys() and", "R1"),
    V("availability not awaited", UTILS_FILE, _BG, "(await token.is_available(context=self.context))", "token.is_available(context=self.context)", "R4"),
    V("whole workflow copied into the recovery workflow", FM_FILE, f"{RFM}._recover", "deep_copy=False", "deep_copy=True", "R3"),
    V("token without producers becomes a root", UTILS_FILE, _BG, "raise FailureHandlingException(f'Token with id {token.persistent_id} is not available and it does not have previous tokens')", "self.add(token)", "R1"),
    V("not recoverable tokens are available", TOKEN_FILE, _FA, "if not self.recoverable:\n        return False", "if not self.recoverable:\n        return True", "R2", control=True),
    V("recoverable test inverted", TOKEN_FILE, _FA, "if not self.recoverable:", "if self.recoverable:", "R2"),
    V("any data type counts", TOKEN_FILE, _FA, "get_data_locations(path, data_type=DataType.PRIMARY)", "get_data_locations(path)", "R2"),
    V("only the first path is examined", TOKEN_FILE, _FA, "for path in await self.get_paths(context):", "for path in (await self.get_paths(context))[:1]:", "R2"),
    V("no location means available", TOKEN_FILE, _FA, "== 0:\n                return False", "== 0:\n                continue", "R2"),
    V("all locations must hold the path", TOKEN_FILE, _FA, "elif not any(await", "elif not all(await", "R2"),
    V("lost path ignored", TOKEN_FILE, _FA, "for data_loc in data_locations))):\n                return False", "for data_loc in data_locations))):\n                pass", "R2"),
    V("first path decides", TOKEN_FILE, _FA, "                return False\n        return True", "                return False\n            return True", "R2"),
    V("invalidation dropped", TOKEN_FILE, _PA, "        context.data_manager.invalidate_location(data_location.location, data_location.path)\n", "", "R2"),
    V("invalidation only when debugging", TOKEN_FILE, _PA, "        context.data_manager.invalidate_location(", "            context.data_manager.invalidate_location(", "R2"),
    V("failed check counts as available", TOKEN_FILE, _PA, "        result = False", "        result = True", "R2"),
    V("ListToken available if any member is", TOKEN_FILE, f"{TOK}.ListToken.is_available", "return all(", "return any(", "R2"),
    V("own outputs not excluded", UTILS_FILE, _GS, " if port_name not in output_port_names}", "}", "R3", control=True),
    V("exclusion inverted", UTILS_FILE, _GS, "if port_name not in output_port_names", "if port_name in output_port_names", "R3"),
    V("caller passes the input ports", FM_FILE, f"{RFM}._recover", "mapper.get_step_ids(failed_step.output_ports.values())", "mapper.get_step_ids(failed_step.input_ports.values())", "R3"),
    V("removal only when debugging", UTILS_FILE, _GS, "        step_ids.remove(step_id)", "            step_ids.remove(step_id)", "R3"),
    V("unmapped-input test inverted", UTILS_FILE, _GS, "if port_row['name'] not in self.port_tokens.keys():", "if port_row['name'] in self.port_tokens.keys():", "R3"),
    V("removal loop dropped", UTILS_FILE, _GS, "        step_ids.remove(step_id)\n", "        pass\n", "R3"),
    # benign
    V("availability through a temporary", UTILS_FILE, _BG,
      "        elif (is_available := (await token.is_available(context=self.context))):\n            self.add(token)",
      "        elif (is_available := (await token.is_available(context=self.context))) is True:\n            self.add(token)", None),
    V("recovering test through a temporary", UTILS_FILE, _BG,
      "        if isinstance(token, JobToken) and await self.context.failure_manager.is_recovering(token.value.name):",
      "        recovering = isinstance(token, JobToken) and await self.context.failure_manager.is_recovering(token.value.name)\n        if recovering:", None),
    V("rename the frontier token", UTILS_FILE, _BG, "prev_token", "parent_token", None, count=8),
    V("locations through a temporary", TOKEN_FILE, _FA,
      "            if len((data_locations := context.data_manager.get_data_locations(path, data_type=DataType.PRIMARY))) == 0:",
      "            data_locations = context.data_manager.get_data_locations(path, data_type=DataType.PRIMARY)\n            if not data_locations:", None),
    V("logging added to _is_path_available", TOKEN_FILE, _PA, "    return result", "    logger.debug('checked')\n    return result", None),
    V("set difference instead of the removal loop", UTILS_FILE, _GS,
      "    for step_id in step_to_remove:\n        if logger.isEnabledFor(logging.DEBUG):\n            step_name = (await self.context.database.get_step(step_id))['name']\n            logger.debug(f'Removing step {step_name}')\n        step_ids.remove(step_id)\n    return step_ids",
      "    step_ids -= step_to_remove\n    return step_ids", None),
    V("discard instead of remove", UTILS_FILE, _GS, "step_ids.remove(step_id)", "step_ids.discard(step_id)", None),
]
